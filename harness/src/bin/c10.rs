//! C10 harness: glyph variation deltas through the packing codecs, the IUP optimiser and gvar.
//!
//! (a) PackedDeltas / PackedPointNumbers: real writer (write_fonts, via dump_table) and real reader
//!     (read_fonts iterators) on boundary + random vectors, plus arbitrary byte streams through the readers.
//! (b) write_fonts::tables::gvar::iup::iup_delta_optimize on exhaustive small and random larger contours;
//!     oracle = exact rational (i128) re-inference of every optional delta from its retained neighbours.
//! (c) Gvar built by write-fonts, re-parsed by hand (for the Coq model: per-tuple bytes and sizes) and read back
//!     by read-fonts (oracle: regions, required deltas exact, optional deltas within tolerance after inference,
//!     short and long offsets, shared / private point numbers), and drawn by skrifa from a FontBuilder-assembled
//!     variable font at locations incl. region start/peak/end (oracle: default + sum scalar*delta).
use kurbo::{Point, Vec2};
use read_fonts::tables::variations::{PackedDeltas as RPackedDeltas, PackedPointNumbers as RPackedPointNumbers};
use read_fonts::{FontData, FontRead};
use serde_json::json;
use vh::*;
use write_fonts::tables::gvar::iup::iup_delta_optimize;
use write_fonts::tables::gvar::{GlyphDelta, GlyphDeltas, GlyphVariations, Gvar, Tent};
use write_fonts::tables::variations::{PackedDeltas, PackedPointNumbers};
use write_fonts::types::{F2Dot14, GlyphId};

// ------------------------------------------------------------------------------------------------
// (a) codecs
// ------------------------------------------------------------------------------------------------

fn write_deltas(ds: &[i32]) -> Result<Vec<u8>, String> {
    let ds = ds.to_vec();
    catch(move || write_fonts::dump_table(&PackedDeltas::new(ds)).map_err(|e| format!("{e}")))
        .and_then(|r| r)
}

fn read_deltas_all(bytes: &[u8]) -> Result<Vec<i32>, String> {
    let b = bytes.to_vec();
    catch(move || RPackedDeltas::consume_all(FontData::new(&b)).iter().collect::<Vec<i32>>())
}

/// 0 = bytes, 1 = validation error, 2 = panic
fn write_points(p: &PackedPointNumbers) -> (i64, Vec<u8>) {
    let p = p.clone();
    match catch(move || write_fonts::dump_table(&p)) {
        Ok(Ok(b)) => (0, b),
        Ok(Err(_)) => (1, vec![]),
        Err(_) => (2, vec![]),
    }
}

/// (all?, points, bytes consumed by split_off_front)
fn read_points(bytes: &[u8]) -> Result<(bool, Vec<u16>, usize), String> {
    let b = bytes.to_vec();
    catch(move || {
        let (p, rest) = RPackedPointNumbers::split_off_front(FontData::new(&b));
        let consumed = b.len() - rest.len();
        if p.count() == 0 {
            (true, vec![], consumed)
        } else {
            (false, p.iter().collect::<Vec<u16>>(), consumed)
        }
    })
}

#[derive(Clone, Copy)]
enum Cls {
    Zero,
    B,
    W,
    L,
}

fn val_of(rng: &mut Rng, c: Cls) -> i32 {
    match c {
        Cls::Zero => 0,
        Cls::B => {
            if rng.chance(1, 3) {
                *rng.pick(&[1, -1, 127, -128, 126, -127, 2])
            } else {
                let v = rng.range(-128, 127) as i32;
                if v == 0 {
                    5
                } else {
                    v
                }
            }
        }
        Cls::W => {
            if rng.chance(1, 3) {
                *rng.pick(&[128, -129, 32767, -32768, 129, -130, 255, 256, 32766, -32767])
            } else if rng.chance(1, 2) {
                rng.range(128, 32767) as i32
            } else {
                rng.range(-32768, -129) as i32
            }
        }
        Cls::L => {
            if rng.chance(1, 3) {
                *rng.pick(&[32768, -32769, i32::MAX, i32::MIN, 65535, 65536, -65536, i32::MAX - 1, i32::MIN + 1])
            } else if rng.chance(1, 2) {
                rng.range(32768, i32::MAX as i64) as i32
            } else {
                rng.range(i32::MIN as i64, -32769) as i32
            }
        }
    }
}

fn boundary_delta_vectors() -> Vec<Vec<i32>> {
    let mut out: Vec<Vec<i32>> = vec![vec![], vec![0], vec![1], vec![-129], vec![40000], vec![i32::MIN, i32::MAX]];
    let reps: [(Cls, i32); 4] = [(Cls::Zero, 0), (Cls::B, 7), (Cls::W, 300), (Cls::L, 70000)];
    for (_, v) in reps {
        for n in [62usize, 63, 64, 65, 66, 127, 128, 129, 130] {
            out.push(vec![v; n]);
            // and followed / preceded by another class
            for (_, w) in reps {
                if w != v {
                    let mut a = vec![v; n];
                    a.push(w);
                    out.push(a);
                    let mut b = vec![w];
                    b.extend(vec![v; n]);
                    out.push(b);
                }
            }
        }
    }
    // zeros inside byte runs: single, pair, triple, at the end, at the 64 boundary
    for pat in [
        vec![1, 0, 1],
        vec![1, 0, 0, 1],
        vec![1, 0, 0, 0, 1],
        vec![1, 0],
        vec![1, 0, 0],
        vec![1, 0, 1, 0, 1, 0, 0, 1],
        vec![1, 0, 300],
        vec![1, 0, 70000],
        vec![5, 0, -5, 0, 0],
    ] {
        out.push(pat);
    }
    for k in [61usize, 62, 63, 64] {
        let mut a = vec![3; k];
        a.push(0);
        a.push(3);
        out.push(a.clone());
        a.push(0);
        a.push(0);
        out.push(a);
        let mut b = vec![3; k];
        b.extend([0, 0, 3]);
        out.push(b);
    }
    // bytes inside word runs: single byte followed by word / byte / zero / end / i32
    for pat in [
        vec![300, 1, 300],
        vec![300, 1, 1, 300],
        vec![300, 1, 0, 300],
        vec![300, 1],
        vec![300, 1, 70000],
        vec![300, 0, 300],
        vec![300, 70000, 300],
        vec![300, 1, 300, 2, 300, 3, 3, 300],
        vec![-300, -1, -300, 127, 128, -128, -129],
    ] {
        out.push(pat);
    }
    for k in [61usize, 62, 63, 64] {
        let mut a = vec![300; k];
        a.push(1);
        a.push(300);
        out.push(a.clone());
        a.push(1);
        a.push(1);
        out.push(a);
    }
    // i32 runs with everything else
    for pat in [vec![70000, 1, 70000], vec![70000, 300, 70000], vec![70000, 0, 70000], vec![70000, 70000, 0, 0, 1, 300]] {
        out.push(pat);
    }
    out
}

fn random_delta_vector(rng: &mut Rng) -> Vec<i32> {
    let mut v = vec![];
    let nseg = rng.range(1, 7);
    for _ in 0..nseg {
        let c = *rng.pick(&[Cls::Zero, Cls::B, Cls::B, Cls::W, Cls::W, Cls::L]);
        let len = if rng.chance(1, 6) { *rng.pick(&[62usize, 63, 64, 65, 66]) } else { rng.range(1, 5) as usize };
        for _ in 0..len {
            // sprinkle a different class rarely
            let cc = if rng.chance(1, 12) { *rng.pick(&[Cls::Zero, Cls::B, Cls::W, Cls::L]) } else { c };
            v.push(val_of(rng, cc));
        }
    }
    v
}

fn boundary_point_sets() -> Vec<Vec<u16>> {
    let mut out: Vec<Vec<u16>> = vec![
        vec![],
        vec![0],
        vec![65535],
        vec![0, 65535],
        vec![255],
        vec![256],
        vec![0, 255],
        vec![0, 256],
        vec![1, 256],
        vec![1, 257],
        vec![5, 25, 225, 1002, 2002, 2008, 2228, 10000],
        vec![1002, 2002, 8408, 12228],
        vec![0, 0, 0],
        vec![7, 7],
        vec![3, 2],          // unsorted: u16 subtraction overflows
        vec![0, 300, 299],   // unsorted inside a word run scan
        vec![0, 1, 2, 1],
        vec![300, 700, 650],
    ];
    for n in [126usize, 127, 128, 129, 130, 255, 256, 257] {
        out.push((0..n as u16).collect());
        out.push((0..n as u16).map(|i| i * 2 + 1).collect());
        out.push((0..n as u16).map(|i| i * 255).filter(|_| true).take_while(|v| *v as u32 <= 65535).collect());
        if n <= 255 {
            out.push((0..n as u32).map(|i| (i * 256) as u16).collect::<Vec<u16>>());
            out.push((0..n as u32).map(|i| (i * 257) as u16).take(255).collect::<Vec<u16>>());
        }
    }
    // byte run then word run at the 128 boundary
    for k in [127usize, 128, 129] {
        let mut a: Vec<u16> = (0..k as u16).collect();
        a.push(k as u16 + 1000);
        a.push(k as u16 + 1001);
        out.push(a);
        let mut b: Vec<u16> = (1..=k as u16).map(|i| i * 300).collect();
        b.push(k as u16 * 300 + 1);
        out.push(b);
    }
    out.retain(|v| v.len() < 400);
    out
}

fn random_point_set(rng: &mut Rng) -> Vec<u16> {
    let n = if rng.chance(1, 8) { rng.range(120, 140) } else { rng.range(1, 30) } as usize;
    let mut cur: u32 = if rng.chance(1, 2) { 0 } else { rng.range(0, 600) as u32 };
    let mut v = vec![];
    let wordy = rng.chance(1, 3);
    for i in 0..n {
        if i > 0 || rng.chance(1, 2) {
            let gap = if rng.chance(1, 4) {
                *rng.pick(&[0u32, 1, 127, 128, 254, 255, 256, 257, 511, 512])
            } else if wordy && rng.chance(2, 3) {
                rng.range(256, 900) as u32
            } else {
                rng.range(1, 40) as u32
            };
            cur += gap;
        }
        if cur > 65535 {
            break;
        }
        v.push(cur as u16);
    }
    if rng.chance(1, 25) && v.len() > 2 {
        // break sortedness
        let i = rng.below(v.len() as u64 - 1) as usize + 1;
        v[i] = v[i - 1].saturating_sub(rng.range(1, 3) as u16);
    }
    v
}

fn random_control_bytes(rng: &mut Rng, for_points: bool) -> Vec<u8> {
    let n = rng.range(0, 24) as usize;
    let mut v = vec![];
    if for_points {
        // count prefix
        match rng.below(5) {
            0 => v.push(0),
            1 => v.push(rng.range(1, 6) as u8),
            2 => {
                v.push(0x80);
                v.push(rng.range(0, 5) as u8)
            }
            3 => v.push(rng.range(1, 127) as u8),
            _ => {
                v.push(rng.range(0x80, 0xff) as u8);
                v.push(rng.next_u32() as u8)
            }
        }
    }
    while v.len() < n {
        if rng.chance(1, 2) {
            // a plausible control byte with small count
            let cnt = rng.range(0, 4) as u8;
            let hi = *rng.pick(&[0u8, 0x40, 0x80, 0xC0]);
            v.push(hi | cnt);
        } else {
            v.push(rng.next_u32() as u8);
        }
    }
    if rng.chance(1, 4) && !v.is_empty() {
        let k = rng.below(v.len() as u64) as usize;
        v.truncate(k);
    }
    v
}

fn codec_part(rng: &mut Rng, st: &mut Stats, cw: &mut CaseWriter, thorough: bool) {
    // --- deltas ---
    let mut vectors = boundary_delta_vectors();
    let nrand = if thorough { 6000 } else { 700 };
    for _ in 0..nrand {
        vectors.push(random_delta_vector(rng));
    }
    for ds in vectors {
        st.evaluations += 1;
        st.count("deltas.vectors");
        let key = format!("deltas:{:?}", ds);
        let w = write_deltas(&ds);
        let (bytes, decoded) = match &w {
            Ok(b) => (b.clone(), read_deltas_all(b)),
            Err(e) => {
                st.oracle_failure(json!({"key": key, "what": "PackedDeltas writer failed", "err": e}));
                continue;
            }
        };
        let decoded = match decoded {
            Ok(d) => d,
            Err(e) => {
                st.oracle_failure(json!({"key": key, "what": "PackedDeltas reader panicked", "err": e}));
                continue;
            }
        };
        if decoded != ds {
            st.oracle_failure(json!({"key": key, "what": "PackedDeltas round trip differs", "bytes": bytes, "decoded": decoded}));
        }
        // run statistics from the written bytes
        let mut off = 0usize;
        while off < bytes.len() {
            let c = bytes[off];
            let cnt = (c & 0x3f) as usize + 1;
            let (name, sz) = match (c & 0x80 != 0, c & 0x40 != 0) {
                (false, false) => ("deltas.run_i8", 1),
                (false, true) => ("deltas.run_i16", 2),
                (true, false) => ("deltas.run_zero", 0),
                (true, true) => ("deltas.run_i32", 4),
            };
            st.count(name);
            if cnt == 64 {
                st.count("deltas.run_len64");
            }
            off += 1 + cnt * sz;
        }
        if off != bytes.len() {
            st.oracle_failure(json!({"key": key, "what": "PackedDeltas bytes do not parse into whole runs"}));
        }
        if ds.len() > 2 {
            st.nontrivial(&key);
        }
        st.sample(json!({"deltas": ds.iter().take(12).collect::<Vec<_>>(), "bytes": bytes.iter().take(16).collect::<Vec<_>>()}));
        cw.push(format!(
            "CDeltas {} {} {}",
            czlist(ds.iter().map(|v| *v as i128)),
            cbytes(&bytes),
            czlist(decoded.iter().map(|v| *v as i128))
        ));
    }
    // arbitrary bytes through the delta reader
    let nb = if thorough { 4000 } else { 500 };
    for _ in 0..nb {
        let bytes = random_control_bytes(rng, false);
        st.evaluations += 1;
        st.count("deltas.arbitrary_bytes");
        match read_deltas_all(&bytes) {
            Ok(d) => {
                cw.push(format!("CDeltaBytes {} {}", cbytes(&bytes), czlist(d.iter().map(|v| *v as i128))));
            }
            Err(e) => st.oracle_failure(json!({"key": format!("deltabytes:{:?}", bytes), "what": "delta reader panicked", "err": e})),
        }
    }
    // --- points ---
    let mut sets: Vec<(bool, Vec<u16>)> = boundary_point_sets().into_iter().map(|v| (false, v)).collect();
    sets.push((true, vec![]));
    let np = if thorough { 5000 } else { 600 };
    for _ in 0..np {
        sets.push((false, random_point_set(rng)));
    }
    for (all, pts) in sets {
        st.evaluations += 1;
        st.count("points.sets");
        let key = format!("points:{}:{:?}", all, pts);
        let p = if all { PackedPointNumbers::All } else { PackedPointNumbers::Some(pts.clone()) };
        let (outcome, bytes) = write_points(&p);
        let sorted = pts.windows(2).all(|w| w[0] <= w[1]);
        st.count(&format!("points.outcome{}", outcome));
        if outcome != 0 {
            if sorted && pts.len() <= 0x7fff {
                st.oracle_failure(json!({"key": key, "what": "PackedPointNumbers writer rejects a sorted set", "outcome": outcome}));
            }
            cw.push(format!("CPoints {} {} {} [] false []", cbool(all), czlist(pts.iter().map(|v| *v as i128)), outcome));
            continue;
        }
        let (rall, rp, consumed) = match read_points(&bytes) {
            Ok(r) => r,
            Err(e) => {
                st.oracle_failure(json!({"key": key, "what": "point reader panicked", "err": e}));
                continue;
            }
        };
        if consumed != bytes.len() {
            st.oracle_failure(json!({"key": key, "what": "split_off_front does not consume exactly the written bytes", "consumed": consumed, "len": bytes.len()}));
        }
        // property: a non-empty sorted set reads back as itself; All reads back as All
        if all {
            if !rall {
                st.oracle_failure(json!({"key": key, "what": "All does not read back as all points"}));
            }
        } else if pts.is_empty() {
            st.count("points.empty_some_reads_as_all");
        } else if rall || rp != pts {
            st.oracle_failure(json!({"key": key, "what": "PackedPointNumbers round trip differs", "bytes": bytes, "read": rp, "read_all": rall}));
        }
        // run statistics
        if !bytes.is_empty() {
            let mut off = if bytes[0] & 0x80 != 0 { 2 } else { 1 };
            if bytes[0] & 0x80 != 0 {
                st.count("points.count_two_bytes");
            }
            while off < bytes.len() {
                let c = bytes[off];
                let cnt = (c & 0x7f) as usize + 1;
                let two = c & 0x80 != 0;
                st.count(if two { "points.run_words" } else { "points.run_bytes" });
                if cnt == 128 {
                    st.count("points.run_len128");
                }
                off += 1 + cnt * if two { 2 } else { 1 };
            }
        }
        if pts.len() > 2 {
            st.nontrivial(&key);
        }
        cw.push(format!(
            "CPoints {} {} 0 {} {} {}",
            cbool(all),
            czlist(pts.iter().map(|v| *v as i128)),
            cbytes(&bytes),
            cbool(rall),
            czlist(rp.iter().map(|v| *v as i128))
        ));
    }
    for _ in 0..nb {
        let bytes = random_control_bytes(rng, true);
        st.evaluations += 1;
        st.count("points.arbitrary_bytes");
        match read_points(&bytes) {
            Ok((rall, rp, consumed)) => {
                cw.push(format!(
                    "CPointBytes {} {} {} {}",
                    cbytes(&bytes),
                    cbool(rall),
                    czlist(rp.iter().map(|v| *v as i128)),
                    consumed
                ));
            }
            Err(e) => st.oracle_failure(json!({"key": format!("pointbytes:{:?}", bytes), "what": "point reader panicked", "err": e})),
        }
    }
    // oracle only: a set too long for the 15-bit count must be refused, not silently truncated
    {
        let pts: Vec<u16> = (0..32768u32).map(|v| v as u16).collect();
        let (outcome, _) = write_points(&PackedPointNumbers::Some(pts));
        st.evaluations += 1;
        st.count(&format!("points.len32768_outcome{}", outcome));
        if outcome == 0 {
            st.oracle_failure(json!({"key": "points:len32768", "what": "32768 points written although the count has 15 bits"}));
        }
        let pts: Vec<u16> = (0..32767u32).map(|v| (v * 2) as u16).collect();
        let (outcome, bytes) = write_points(&PackedPointNumbers::Some(pts.clone()));
        if outcome != 0 || read_points(&bytes).map(|r| r.1) != Ok(pts) {
            st.oracle_failure(json!({"key": "points:len32767", "what": "32767 points do not round trip"}));
        }
    }
}

// ------------------------------------------------------------------------------------------------
// exact rational helpers (i128 fractions, denominators always > 0)
// ------------------------------------------------------------------------------------------------

#[derive(Clone, Copy, Debug, PartialEq)]
struct Fr(i128, i128);

fn gcd(a: i128, b: i128) -> i128 {
    if b == 0 {
        a.abs()
    } else {
        gcd(b, a % b)
    }
}
impl Fr {
    fn new(n: i128, d: i128) -> Fr {
        assert!(d != 0);
        let (n, d) = if d < 0 { (-n, -d) } else { (n, d) };
        let g = gcd(n, d).max(1);
        Fr(n / g, d / g)
    }
    fn int(n: i128) -> Fr {
        Fr(n, 1)
    }
    fn add(self, o: Fr) -> Fr {
        Fr::new(self.0 * o.1 + o.0 * self.1, self.1 * o.1)
    }
    fn sub(self, o: Fr) -> Fr {
        Fr::new(self.0 * o.1 - o.0 * self.1, self.1 * o.1)
    }
    fn mul(self, o: Fr) -> Fr {
        Fr::new(self.0 * o.0, self.1 * o.1)
    }
    fn le(self, o: Fr) -> bool {
        self.0 * o.1 <= o.0 * self.1
    }
}

/// The specification's inferred delta on one axis ("Inferred deltas for un-referenced point numbers"):
/// reference points a, b with coordinates ca, cb and deltas da, db; target coordinate c.
fn infer_axis(ca: i128, da: Fr, cb: i128, db: Fr, c: i128) -> Fr {
    if ca == cb {
        return if da == db { da } else { Fr::int(0) };
    }
    let (c1, d1, c2, d2) = if ca < cb { (ca, da, cb, db) } else { (cb, db, ca, da) };
    if c <= c1 {
        d1
    } else if c >= c2 {
        d2
    } else {
        // d1 + (c - c1) * (d2 - d1) / (c2 - c1)
        d1.add(d2.sub(d1).mul(Fr::new(c - c1, c2 - c1)))
    }
}

/// Exact inference of all deltas of a glyph from the retained (`Some`) ones, contour by contour
/// (phantom points are single-point contours). Returns one (x, y) fraction per point.
fn infer_all(coords: &[(i64, i64)], retained: &[Option<(i64, i64)>], ends: &[usize]) -> Vec<(Fr, Fr)> {
    let n = coords.len();
    let mut out = vec![(Fr::int(0), Fr::int(0)); n];
    let mut start = 0usize;
    for &end in ends {
        if end + 1 <= start || end >= n {
            start = start.max(end + 1);
            continue;
        }
        let idx: Vec<usize> = (start..=end).collect();
        let req: Vec<usize> = idx.iter().cloned().filter(|i| retained[*i].is_some()).collect();
        if req.is_empty() {
            // no referenced point in this contour: zero deltas
        } else if req.len() == 1 {
            let d = retained[req[0]].unwrap();
            for &i in &idx {
                out[i] = (Fr::int(d.0 as i128), Fr::int(d.1 as i128));
            }
        } else {
            for &i in &idx {
                if let Some(d) = retained[i] {
                    out[i] = (Fr::int(d.0 as i128), Fr::int(d.1 as i128));
                    continue;
                }
                // previous and next retained points, cyclically within the contour
                let prev = req.iter().rev().find(|r| **r < i).or(req.last()).cloned().unwrap();
                let next = req.iter().find(|r| **r > i).or(req.first()).cloned().unwrap();
                let (pa, pb) = (retained[prev].unwrap(), retained[next].unwrap());
                let x = infer_axis(coords[prev].0 as i128, Fr::int(pa.0 as i128), coords[next].0 as i128, Fr::int(pb.0 as i128), coords[i].0 as i128);
                let y = infer_axis(coords[prev].1 as i128, Fr::int(pa.1 as i128), coords[next].1 as i128, Fr::int(pb.1 as i128), coords[i].1 as i128);
                out[i] = (x, y);
            }
        }
        start = end + 1;
    }
    out
}

/// |inferred - wanted|^2 <= tol^2, exactly
fn within(inf: (Fr, Fr), want: (i64, i64), tol: Fr) -> bool {
    let ex = inf.0.sub(Fr::int(want.0 as i128));
    let ey = inf.1.sub(Fr::int(want.1 as i128));
    ex.mul(ex).add(ey.mul(ey)).le(tol.mul(tol))
}

// ------------------------------------------------------------------------------------------------
// (b) IUP
// ------------------------------------------------------------------------------------------------

/// f64 mirror of iup_segment/can_iup_in_between for one interior point, and the exact decision
fn seg_decisions(rc1: (i64, i64), rd1: (i64, i64), rc2: (i64, i64), rd2: (i64, i64), c: (i64, i64), d: (i64, i64), tol: (i64, i64)) -> (bool, bool) {
    let tolf = tol.0 as f64 / tol.1 as f64;
    let ax = |c1: f64, c2: f64, d1: f64, d2: f64, c: f64| -> f64 {
        if c1 == c2 {
            return if d1 == d2 { d1 } else { 0.0 };
        }
        let (c1, c2, d1, d2) = if c1 > c2 { (c2, c1, d2, d1) } else { (c1, c2, d1, d2) };
        let scale = (d2 - d1) / (c2 - c1);
        if c <= c1 {
            d1
        } else if c >= c2 {
            d2
        } else {
            d1 + (c - c1) * scale
        }
    };
    let ix = ax(rc1.0 as f64, rc2.0 as f64, rd1.0 as f64, rd2.0 as f64, c.0 as f64);
    let iy = ax(rc1.1 as f64, rc2.1 as f64, rd1.1 as f64, rd2.1 as f64, c.1 as f64);
    let ex = d.0 as f64 - ix;
    let ey = d.1 as f64 - iy;
    let fl = ex * ex + ey * ey <= tolf * tolf;
    let qx = infer_axis(rc1.0 as i128, Fr::int(rd1.0 as i128), rc2.0 as i128, Fr::int(rd2.0 as i128), c.0 as i128);
    let qy = infer_axis(rc1.1 as i128, Fr::int(rd1.1 as i128), rc2.1 as i128, Fr::int(rd2.1 as i128), c.1 as i128);
    let exact = within((qx, qy), d, Fr::new(tol.0 as i128, tol.1 as i128));
    (fl, exact)
}

/// true when, on every cyclic segment the DP can ask about, the f64 kernel decides as exact arithmetic does
fn kernel_is_exact(coords: &[(i64, i64)], deltas: &[(i64, i64)], ends: &[usize], tol: (i64, i64)) -> bool {
    let mut start = 0usize;
    for &end in ends {
        if end + 1 <= start {
            continue;
        }
        let n = end + 1 - start;
        for a in 0..n {
            for len in 2..=n.min(10) {
                let b = (a + len) % n;
                for k in 1..len {
                    let p = (a + k) % n;
                    let (fl, ex) = seg_decisions(coords[start + a], deltas[start + a], coords[start + b], deltas[start + b], coords[start + p], deltas[start + p], tol);
                    if fl != ex {
                        return false;
                    }
                }
            }
        }
        start = end + 1;
    }
    true
}

struct IupCase {
    coords: Vec<(i64, i64)>,
    deltas: Vec<(i64, i64)>,
    ends: Vec<usize>, // as passed (without phantom points)
    tol: (i64, i64),
}

fn run_iup(c: &IupCase) -> Result<Result<Vec<GlyphDelta>, String>, String> {
    let deltas: Vec<Vec2> = c.deltas.iter().map(|d| Vec2::new(d.0 as f64, d.1 as f64)).collect();
    let coords: Vec<Point> = c.coords.iter().map(|d| Point::new(d.0 as f64, d.1 as f64)).collect();
    let tol = c.tol.0 as f64 / c.tol.1 as f64;
    let ends = c.ends.clone();
    catch(move || iup_delta_optimize(deltas, coords, tol, &ends).map_err(|e| format!("{e:?}")))
}

/// contour ends including the four phantom single-point contours, sorted (as the implementation does)
fn full_ends(c: &IupCase) -> Vec<usize> {
    let mut e = c.ends.clone();
    e.sort();
    let n = c.coords.len();
    for k in (1..=4).rev() {
        e.push(n.saturating_sub(k));
    }
    e
}

/// the property's wording on the optimiser's output
fn iup_oracle(c: &IupCase, out: &[GlyphDelta]) -> Option<String> {
    if out.len() != c.deltas.len() {
        return Some(format!("output length {} != input length {}", out.len(), c.deltas.len()));
    }
    for (i, (o, d)) in out.iter().zip(&c.deltas).enumerate() {
        if (o.x as i64, o.y as i64) != *d {
            return Some(format!("delta {} changed: {:?} -> ({}, {})", i, d, o.x, o.y));
        }
    }
    let retained: Vec<Option<(i64, i64)>> = out.iter().map(|o| o.required.then_some((o.x as i64, o.y as i64))).collect();
    let ends = full_ends(c);
    let inf = infer_all(&c.coords, &retained, &ends);
    let tol = Fr::new(c.tol.0 as i128, c.tol.1 as i128);
    for i in 0..out.len() {
        if !out[i].required && !within(inf[i], c.deltas[i], tol) {
            return Some(format!(
                "optional delta {} = {:?} but inference from retained neighbours gives ({}/{}, {}/{})",
                i, c.deltas[i], inf[i].0 .0, inf[i].0 .1, inf[i].1 .0, inf[i].1 .1
            ));
        }
    }
    // a contour with a non-constant delta keeps at least one required delta
    let mut start = 0;
    for &end in &ends {
        if end + 1 > start {
            let sl = &c.deltas[start..=end];
            if sl.iter().any(|d| *d != sl[0]) && !out[start..=end].iter().any(|o| o.required) {
                return Some(format!("contour {}..={} has non-constant deltas but no required delta", start, end));
            }
        }
        start = start.max(end + 1);
    }
    None
}

fn iup_key(c: &IupCase) -> String {
    format!("iup:tol={}/{}:ends={:?}:coords={:?}:deltas={:?}", c.tol.0, c.tol.1, c.ends, c.coords, c.deltas)
}

fn cpairs(v: &[(i64, i64)]) -> String {
    clist(v.iter(), |p| format!("({}, {})", cz(p.0 as i128), cz(p.1 as i128)))
}

fn cgdeltas(v: &[GlyphDelta]) -> String {
    clist(v.iter(), |d| format!("({}, {}, {})", cz(d.x as i128), cz(d.y as i128), cbool(d.required)))
}

fn emit_iup(c: &IupCase, st: &mut Stats, cw: &mut CaseWriter, to_model: bool) {
    st.evaluations += 1;
    let r = run_iup(c);
    let key = iup_key(c);
    match &r {
        Err(p) => {
            st.count("iup.panic");
            st.oracle_failure(json!({"key": key, "what": "iup_delta_optimize panicked", "panic": p}));
            return;
        }
        Ok(Err(e)) => {
            st.count("iup.err");
            // well-formed inputs (matching lengths and ends) must be accepted
            let mut e2 = c.ends.clone();
            e2.sort();
            let expected = e2.last().map(|v| v + 1).unwrap_or(0) + 4;
            if c.coords.len() >= 4 && c.coords.len() == c.deltas.len() && expected == c.coords.len() {
                st.oracle_failure(json!({"key": key, "what": "iup_delta_optimize fails on a well-formed input", "err": e}));
            }
        }
        Ok(Ok(out)) => {
            st.count("iup.ok");
            // branch statistics per contour (phantom single-point contours excluded)
            let mut start = 0;
            let mut e2 = c.ends.clone();
            e2.sort();
            for &end in &e2 {
                if end + 1 > start && end < c.deltas.len() {
                    let sl = &c.deltas[start..=end];
                    let o = &out[start..=end];
                    if sl.iter().all(|d| *d == sl[0]) {
                        st.count(if sl[0] == (0, 0) { "iup.contour_all_zero" } else { "iup.contour_all_equal_nonzero" });
                    } else {
                        st.count("iup.contour_general");
                        let nreq = o.iter().filter(|d| d.required).count();
                        st.count(if nreq == o.len() { "iup.contour_general_nothing_optional" } else { "iup.contour_general_some_optional" });
                    }
                }
                start = start.max(end + 1);
            }
            let nopt = out.iter().filter(|d| !d.required).count();
            st.add("iup.optional_deltas", nopt as u64);
            st.add("iup.required_deltas", (out.len() - nopt) as u64);
            if let Some(why) = iup_oracle(c, out) {
                st.oracle_failure(json!({"key": key, "what": why}));
            }
            if nopt > 0 && nopt < out.len() {
                st.nontrivial(&key);
            }
        }
    }
    if to_model {
        let exact = !matches!(r, Ok(Ok(_))) || kernel_is_exact(&c.coords, &c.deltas, &full_ends(c), c.tol);
        if !exact {
            st.count("iup.float_kernel_not_exact_skipped_for_model");
            return;
        }
        st.count("iup.model_cases");
        let res = match &r {
            Ok(Ok(out)) => format!("(Some {})", cgdeltas(out)),
            _ => "None".to_string(),
        };
        st.sample(json!({"iup_coords": c.coords, "deltas": c.deltas, "tol": format!("{}/{}", c.tol.0, c.tol.1)}));
        cw.push(format!(
            "CIup {} {} {} {} {} {}",
            c.tol.0,
            c.tol.1,
            czlist(c.ends.iter().map(|v| *v as i128)),
            cpairs(&c.coords),
            cpairs(&c.deltas),
            res
        ));
    }
}

fn with_phantoms(mut coords: Vec<(i64, i64)>, mut deltas: Vec<(i64, i64)>, rng: &mut Rng, small: bool) -> (Vec<(i64, i64)>, Vec<(i64, i64)>) {
    // phantom points: origin, advance, top, bottom
    let adv = if small { 2 } else { rng.range(100, 1000) };
    coords.extend([(0, 0), (adv, 0), (0, 0), (0, 0)]);
    let da = if rng.chance(1, 2) { 0 } else if small { rng.range(-2, 2) } else { rng.range(-50, 50) };
    deltas.extend([(0, 0), (da, 0), (0, 0), (0, 0)]);
    (coords, deltas)
}

fn iup_part(rng: &mut Rng, st: &mut Stats, cw: &mut CaseWriter, thorough: bool) {
    let tols: [(i64, i64); 3] = [(0, 1), (1, 2), (1, 1)];
    // exhaustive: one contour of 1 and 2 points over {-2..2}^2 (coords and deltas), all three tolerances;
    // a deterministic 1-in-k subsample goes to the model
    let grid: Vec<(i64, i64)> = (-2..=2).flat_map(|x| (-2..=2).map(move |y| (x, y))).collect();
    let mut k = 0u64;
    for tol in tols {
        for c0 in &grid {
            for d0 in &grid {
                let case = IupCase { coords: vec![*c0, (0, 0), (2, 0), (0, 0), (0, 0)], deltas: vec![*d0, (0, 0), (1, 0), (0, 0), (0, 0)], ends: vec![0], tol };
                k += 1;
                emit_iup(&case, st, cw, k % 40 == 0);
                st.count("iup.exhaustive_n1");
            }
        }
    }
    // two points: exhaustive over coords x deltas (390k x 3) in the thorough tier; third of it in quick
    for tol in tols {
        for c0 in &grid {
            for c1 in &grid {
                for d0 in &grid {
                    if !thorough && (c0.0 + c1.1 + d0.0).rem_euclid(3) != 0 {
                        continue;
                    }
                    for d1 in &grid {
                        let case = IupCase { coords: vec![*c0, *c1, (0, 0), (2, 0), (0, 0), (0, 0)], deltas: vec![*d0, *d1, (0, 0), (0, 0), (0, 0), (0, 0)], ends: vec![1], tol };
                        k += 1;
                        emit_iup(&case, st, cw, k % 4001 == 0);
                        st.count("iup.exhaustive_n2");
                    }
                }
            }
        }
    }
    // three points over {-1,0,1}^2: exhaustive (531k x 3) in thorough, sampled in quick
    let g3: Vec<(i64, i64)> = (-1..=1).flat_map(|x| (-1..=1).map(move |y| (x, y))).collect();
    for tol in tols {
        for c0 in &g3 {
            for c1 in &g3 {
                for c2 in &g3 {
                    for d0 in &g3 {
                        for d1 in &g3 {
                            if !thorough && (c0.0 + 2 * c1.1 + c2.0 + d0.1 + d1.0).rem_euclid(4) != 0 {
                                continue;
                            }
                            for d2 in &g3 {
                                let case = IupCase {
                                    coords: vec![*c0, *c1, *c2, (0, 0), (2, 0), (0, 0), (0, 0)],
                                    deltas: vec![*d0, *d1, *d2, (0, 0), (1, 0), (0, 0), (0, 0)],
                                    ends: vec![2],
                                    tol,
                                };
                                k += 1;
                                emit_iup(&case, st, cw, k % 3001 == 0);
                                st.count("iup.exhaustive_n3");
                            }
                        }
                    }
                }
            }
        }
    }
    // random contours of 3..6 points over {-2..2}^2, one or two contours
    let nsmall = if thorough { 400_000 } else { 60_000 };
    for it in 0..nsmall {
        let tol = *rng.pick(&tols);
        let ncont = if rng.chance(1, 4) { 2 } else { 1 };
        let mut coords = vec![];
        let mut deltas = vec![];
        let mut ends = vec![];
        for _ in 0..ncont {
            let n = rng.range(3, 6) as usize;
            let smooth = rng.chance(1, 2);
            for i in 0..n {
                coords.push(*rng.pick(&grid));
                if smooth && i > 0 && rng.chance(2, 3) {
                    let prev: (i64, i64) = deltas[deltas.len() - 1];
                    deltas.push(((prev.0 + rng.range(-1, 1)).clamp(-2, 2), (prev.1 + rng.range(-1, 1)).clamp(-2, 2)));
                } else {
                    deltas.push(*rng.pick(&grid));
                }
            }
            ends.push(coords.len() - 1);
        }
        if rng.chance(1, 50) {
            ends.reverse(); // unsorted ends are sorted by the implementation
        }
        let (coords, deltas) = with_phantoms(coords, deltas, rng, true);
        let case = IupCase { coords, deltas, ends, tol };
        emit_iup(&case, st, cw, it % (if thorough { 100 } else { 40 }) == 0);
        st.count("iup.random_small");
    }
    // random larger, glyph-like contours (polygon walk; deltas = smooth field + noise), tolerance 0, 0.5, 1, 2, 0.25
    let nlarge = if thorough { 60_000 } else { 6_000 };
    for it in 0..nlarge {
        let tol = *rng.pick(&[(0i64, 1i64), (1, 2), (1, 2), (1, 1), (2, 1), (1, 4)]);
        let ncont = rng.range(1, 3) as usize;
        let mut coords: Vec<(i64, i64)> = vec![];
        let mut deltas: Vec<(i64, i64)> = vec![];
        let mut ends = vec![];
        for _ in 0..ncont {
            let n = if rng.chance(1, 6) { rng.range(17, 40) } else { rng.range(4, 16) } as usize;
            let (mut x, mut y) = (rng.range(0, 500), rng.range(0, 700));
            // affine delta field a*x + b*y + c (scaled), so that many points are exactly or nearly interpolable
            let (ax, bx, cx) = (rng.range(-3, 3), rng.range(-1, 1), rng.range(-20, 20));
            let (ay, by, cy) = (rng.range(-1, 1), rng.range(-3, 3), rng.range(-20, 20));
            let mode = rng.below(4);
            for _ in 0..n {
                match rng.below(4) {
                    0 => x += rng.range(-120, 120),
                    1 => y += rng.range(-120, 120),
                    2 => {
                        x += rng.range(-60, 60);
                        y += rng.range(-60, 60)
                    }
                    _ => {} // repeated coordinate
                }
                coords.push((x, y));
                let d = match mode {
                    0 => ((ax * x + bx * y) / 40 + cx, (ay * x + by * y) / 40 + cy),
                    1 => ((ax * x) / 32 + cx + rng.range(-1, 1), (by * y) / 32 + cy + rng.range(-1, 1)),
                    2 => (cx, cy + if rng.chance(1, 5) { rng.range(-3, 3) } else { 0 }),
                    _ => (rng.range(-40, 40), rng.range(-40, 40)),
                };
                deltas.push(d);
            }
            ends.push(coords.len() - 1);
        }
        let (coords, deltas) = with_phantoms(coords, deltas, rng, false);
        let case = IupCase { coords, deltas, ends, tol };
        emit_iup(&case, st, cw, it % (if thorough { 60 } else { 12 }) == 0);
        st.count("iup.random_large");
    }
    // malformed: wrong lengths / ends (Err expected, never a panic)
    for _ in 0..300 {
        let n = rng.range(0, 9) as usize;
        let coords: Vec<(i64, i64)> = (0..n).map(|_| *rng.pick(&grid)).collect();
        let m = if rng.chance(1, 3) { rng.range(0, 9) as usize } else { n };
        let deltas: Vec<(i64, i64)> = (0..m).map(|_| *rng.pick(&grid)).collect();
        let ne = rng.range(0, 3) as usize;
        let ends: Vec<usize> = (0..ne).map(|_| rng.range(0, 8) as usize).collect();
        let case = IupCase { coords, deltas, ends, tol: (1, 2) };
        emit_iup(&case, st, cw, true);
        st.count("iup.malformed");
    }
}

// ------------------------------------------------------------------------------------------------
// (c) gvar
// ------------------------------------------------------------------------------------------------

#[derive(Clone, Debug)]
struct TupleIn {
    tents: Vec<(i16, Option<(i16, i16)>)>, // peak, optional explicit (min, max), as F2Dot14 bits
    raw: Vec<(i64, i64)>,                  // wanted deltas, one per point (incl. phantoms)
    deltas: Vec<GlyphDelta>,               // after IUP (or hand-chosen flags)
    tol: (i64, i64),
}

#[derive(Clone, Debug)]
struct GlyphIn {
    coords: Vec<(i64, i64)>,
    ends: Vec<usize>, // incl. phantom contours
    tuples: Vec<TupleIn>,
}

fn be16(b: &[u8], o: usize) -> usize {
    ((b[o] as usize) << 8) | b[o + 1] as usize
}
fn be32(b: &[u8], o: usize) -> usize {
    (be16(b, o) << 16) | be16(b, o + 2)
}

struct ParsedTuple {
    private: bool,
    size: usize,
    bytes: Vec<u8>,
}
struct ParsedGlyph {
    shared: Option<Vec<u8>>,
    tuples: Vec<ParsedTuple>,
    total_len: usize,
    accounted: usize,
}

/// hand parser of the compiled gvar (independent of read-fonts except PackedPointNumbers::split_off_front
/// to delimit the shared point numbers)
fn parse_gvar(b: &[u8]) -> Option<(bool, Vec<Option<ParsedGlyph>>)> {
    let axis_count = be16(b, 4);
    let glyph_count = be16(b, 12);
    let flags = be16(b, 14);
    let array_off = be32(b, 16);
    let long = flags & 1 != 0;
    let off = |i: usize| -> usize {
        if long {
            be32(b, 20 + 4 * i)
        } else {
            be16(b, 20 + 2 * i) * 2
        }
    };
    let mut out = vec![];
    for g in 0..glyph_count {
        let (s, e) = (array_off + off(g), array_off + off(g + 1));
        if e > b.len() || s > e {
            return None;
        }
        if s == e {
            out.push(None);
            continue;
        }
        let d = &b[s..e];
        let cnt = be16(d, 0);
        let data_off = be16(d, 2);
        let n = cnt & 0x0fff;
        let mut h = 4;
        let mut heads = vec![];
        for _ in 0..n {
            let size = be16(d, h);
            let idx = be16(d, h + 2);
            h += 4;
            if idx & 0x8000 != 0 {
                h += 2 * axis_count;
            }
            if idx & 0x4000 != 0 {
                h += 4 * axis_count;
            }
            heads.push((size, idx & 0x2000 != 0));
        }
        if h != data_off {
            return None;
        }
        let mut pos = data_off;
        let shared = if cnt & 0x8000 != 0 {
            let (_, rest) = RPackedPointNumbers::split_off_front(FontData::new(&d[pos..]));
            let l = d.len() - pos - rest.len();
            let v = d[pos..pos + l].to_vec();
            pos += l;
            Some(v)
        } else {
            None
        };
        let mut tuples = vec![];
        for (size, private) in heads {
            if pos + size > d.len() {
                return None;
            }
            tuples.push(ParsedTuple { private, size, bytes: d[pos..pos + size].to_vec() });
            pos += size;
        }
        out.push(Some(ParsedGlyph { shared, tuples, total_len: d.len(), accounted: pos }));
    }
    Some((long, out))
}

fn f2(bits: i16) -> F2Dot14 {
    F2Dot14::from_bits(bits)
}

fn build_gvar(glyphs: &[GlyphIn], axis_count: u16) -> Result<Result<Vec<u8>, String>, String> {
    let glyphs = glyphs.to_vec();
    catch(move || {
        let vars: Vec<GlyphVariations> = glyphs
            .iter()
            .enumerate()
            .map(|(gid, g)| {
                GlyphVariations::new(
                    GlyphId::new(gid as u32),
                    g.tuples
                        .iter()
                        .map(|t| {
                            GlyphDeltas::new(
                                t.tents.iter().map(|(p, im)| Tent::new(f2(*p), im.map(|(a, b)| (f2(a), f2(b))))).collect(),
                                t.deltas.clone(),
                            )
                        })
                        .collect(),
                )
            })
            .collect();
        let gvar = Gvar::new(vars, axis_count).map_err(|e| format!("{e}"))?;
        write_fonts::dump_table(&gvar).map_err(|e| format!("{e}"))
    })
}

fn random_tent(rng: &mut Rng) -> (i16, Option<(i16, i16)>) {
    let peak: i16 = *rng.pick(&[16384, -16384, 8192, -8192, 0, 16384, 4915, -12000, 1, -1]);
    if peak != 0 && rng.chance(1, 3) {
        // explicit intermediate region around the peak, same sign
        let (lo, hi) = if peak > 0 { (rng.range(0, peak as i64 - 0) as i16, rng.range(peak as i64, 16384) as i16) } else { (rng.range(-16384, peak as i64) as i16, rng.range(peak as i64, 0) as i16) };
        (peak, Some((lo.min(peak), hi.max(peak))))
    } else {
        (peak, None)
    }
}

fn random_glyph(rng: &mut Rng, axis_count: usize, big: bool) -> GlyphIn {
    // a few contours on integer coordinates + phantoms
    let ncont = rng.range(1, 3) as usize;
    let mut coords = vec![];
    let mut ends = vec![];
    for _ in 0..ncont {
        let n = if big { rng.range(60, 140) } else { rng.range(1, 9) } as usize;
        let (mut x, mut y) = (rng.range(0, 400), rng.range(0, 400));
        for _ in 0..n {
            match rng.below(3) {
                0 => x += rng.range(-90, 90),
                1 => y += rng.range(-90, 90),
                _ => {
                    x += rng.range(-40, 40);
                    y += rng.range(-40, 40)
                }
            }
            coords.push((x, y));
        }
        ends.push(coords.len() - 1);
    }
    let real_ends = ends.clone();
    let npts = coords.len();
    coords.extend([(0, 0), (rng.range(200, 900), 0), (0, 0), (0, 0)]);
    for k in 0..4 {
        ends.push(npts + k);
    }
    let ntup = if rng.chance(1, 8) { 0 } else { rng.range(1, 4) as usize };
    let mut tuples: Vec<TupleIn> = vec![];
    for ti in 0..ntup {
        let tents: Vec<_> = loop {
            let t: Vec<_> = (0..axis_count).map(|_| random_tent(rng)).collect();
            if t.iter().any(|x| x.0 != 0) {
                break t;
            }
        };
        let tol = *rng.pick(&[(1i64, 2i64), (1, 2), (0, 1), (1, 1)]);
        let mode = rng.below(6);
        let (cx, cy) = (rng.range(-30, 30), rng.range(-30, 30));
        let (ax, by) = (rng.range(-2, 2), rng.range(-2, 2));
        let mut raw: Vec<(i64, i64)> = coords
            .iter()
            .map(|(x, y)| match mode {
                0 => (ax * x / 16 + cx, by * y / 16 + cy),
                1 => (cx, cy),
                2 => (0, 0),
                3 => (rng.range(-300, 300), rng.range(-300, 300)),
                4 => (if rng.chance(1, 3) { rng.range(-3, 3) } else { 0 }, 0),
                _ => (ax * x / 8 + rng.range(-1, 1), by * y / 8 + rng.range(-1, 1)),
            })
            .collect();
        for k in 0..4 {
            raw[npts + k] = if k == 1 && rng.chance(1, 2) { (rng.range(-40, 40), 0) } else { (0, 0) };
        }
        // share the point set with the previous tuple sometimes (same raw deltas -> same IUP mask)
        if ti > 0 && rng.chance(1, 2) {
            raw = tuples[ti - 1].raw.clone();
        }
        let use_iup = rng.chance(5, 6);
        let deltas: Vec<GlyphDelta> = if use_iup {
            let dv: Vec<Vec2> = raw.iter().map(|d| Vec2::new(d.0 as f64, d.1 as f64)).collect();
            let cv: Vec<Point> = coords.iter().map(|d| Point::new(d.0 as f64, d.1 as f64)).collect();
            iup_delta_optimize(dv, cv, tol.0 as f64 / tol.1 as f64, &real_ends).expect("iup on well-formed glyph")
        } else {
            // all required (dense) or all zero-optional
            raw.iter().map(|d| GlyphDelta::required(d.0 as i16, d.1 as i16)).collect()
        };
        tuples.push(TupleIn { tents, raw, deltas, tol });
    }
    GlyphIn { coords, ends, tuples }
}

/// a glyph whose tuples are SPARSE (explicit point numbers) and whose required deltas mix word-sized values with
/// zeros / byte-sized values / further word runs (also > 64 words in a row), so that in the x or y delta array a word
/// run is followed by another run. Optional deltas are the rounded exact inference from the required ones (tolerance 1).
fn sparse_word_glyph(rng: &mut Rng, axis_count: usize, long_run: bool, extreme: bool) -> GlyphIn {
    let n = if long_run { rng.range(170, 220) } else { rng.range(24, 60) } as usize;
    let ncont = if long_run { 1 } else { rng.range(1, 2) as usize };
    let mut coords: Vec<(i64, i64)> = vec![];
    let mut ends = vec![];
    let (mut x, mut y) = (rng.range(-200, 200), rng.range(-200, 200));
    for c in 0..ncont {
        let m = if c + 1 == ncont { n - coords.len() } else { n / 2 };
        for _ in 0..m {
            match rng.below(3) {
                0 => x += rng.range(-60, 60),
                1 => y += rng.range(-60, 60),
                _ => {
                    x += rng.range(-30, 30);
                    y += rng.range(-30, 30)
                }
            }
            x = x.clamp(-6000, 6000);
            y = y.clamp(-6000, 6000);
            coords.push((x, y));
        }
        ends.push(coords.len() - 1);
    }
    let npts = coords.len();
    coords.extend([(0, 0), (rng.range(200, 900), 0), (0, 0), (0, 0)]);
    for k in 0..4 {
        ends.push(npts + k);
    }
    let ntup = rng.range(1, 3) as usize;
    let mut tuples: Vec<TupleIn> = vec![];
    let mut prev_req: Option<Vec<usize>> = None;
    for _ in 0..ntup {
        let tents: Vec<_> = loop {
            let t: Vec<_> = (0..axis_count).map(|_| random_tent(rng)).collect();
            if t.iter().any(|x| x.0 != 0) {
                break t;
            }
        };
        // required point set: shared with the previous tuple half of the time
        let req: Vec<usize> = match (&prev_req, rng.chance(1, 2)) {
            (Some(r), true) => r.clone(),
            _ => {
                let k = if long_run { rng.range(66, 80) } else { rng.range(4, 12) } as usize;
                let mut idx: Vec<usize> = (0..npts).collect();
                rng.shuffle(&mut idx);
                let mut r: Vec<usize> = idx.into_iter().take(k).collect();
                if rng.chance(1, 2) {
                    r.push(npts + 1); // advance phantom
                }
                r.sort();
                r
            }
        };
        prev_req = Some(req.clone());
        // values along the required points: word, then zero / byte / word patterns
        let pat = rng.below(5);
        let mut retained: Vec<Option<(i64, i64)>> = vec![None; npts + 4];
        for (j, &i) in req.iter().enumerate() {
            let word = |rng: &mut Rng| if rng.chance(1, 2) { rng.range(128, 3000) } else { rng.range(-3000, -129) };
            let small = |rng: &mut Rng| rng.range(-100, 100);
            let v = |rng: &mut Rng, j: usize, phase: usize| -> i64 {
                match pat {
                    0 => if (j + phase) % 4 < 2 { word(rng) } else { 0 },                 // words then zero pairs
                    1 => if (j + phase) % 5 < 2 { word(rng) } else { small(rng) },          // words then bytes
                    2 => word(rng),                                                         // all words (cap 64 forces a second run)
                    3 => if j < req.len() / 2 { word(rng) } else { 0 },                     // words then a zero run
                    _ => {
                        if extreme {
                            *rng.pick(&[0, 0, 1, -1, 127, 128, -128, -129, 300, -300, 32767, -32768])
                        } else {
                            // (drawn glyphs: keep point + delta far inside the 16.16 range of skrifa's delta arithmetic)
                            *rng.pick(&[0, 0, 1, -1, 127, 128, -128, -129, 300, -300, 2500, -2500])
                        }
                    }
                }
            };
            retained[i] = Some((v(rng, j, 0), v(rng, j, 1)));
        }
        let inf = infer_all(&coords, &retained, &ends);
        let round = |f: Fr| -> i64 { (2 * f.0 + f.1).div_euclid(2 * f.1) as i64 };
        let raw: Vec<(i64, i64)> = (0..npts + 4).map(|i| retained[i].unwrap_or((round(inf[i].0).clamp(-32768, 32767), round(inf[i].1).clamp(-32768, 32767)))).collect();
        let deltas: Vec<GlyphDelta> = (0..npts + 4)
            .map(|i| if retained[i].is_some() { GlyphDelta::required(raw[i].0 as i16, raw[i].1 as i16) } else { GlyphDelta::optional(raw[i].0 as i16, raw[i].1 as i16) })
            .collect();
        tuples.push(TupleIn { tents, raw, deltas, tol: (1, 1) });
    }
    GlyphIn { coords, ends, tuples }
}

/// read back with read-fonts and compare with the inputs (the property's wording)
fn gvar_oracle(glyphs: &[GlyphIn], axis_count: u16, bytes: &[u8], st: &mut Stats, key: &str) {
    let gvar = match read_fonts::tables::gvar::Gvar::read(FontData::new(bytes)) {
        Ok(g) => g,
        Err(e) => {
            st.oracle_failure(json!({"key": key, "what": "compiled gvar does not parse", "err": format!("{e}")}));
            return;
        }
    };
    if gvar.axis_count() != axis_count || gvar.glyph_count() as usize != glyphs.len() {
        st.oracle_failure(json!({"key": key, "what": "gvar header differs from input"}));
    }
    for (gid, g) in glyphs.iter().enumerate() {
        let data = match gvar.glyph_variation_data(GlyphId::new(gid as u32)) {
            Ok(d) => d,
            Err(e) => {
                st.oracle_failure(json!({"key": key, "glyph": gid, "what": "glyph_variation_data fails", "err": format!("{e}")}));
                continue;
            }
        };
        let Some(data) = data else {
            if !g.tuples.is_empty() {
                st.oracle_failure(json!({"key": key, "glyph": gid, "what": "glyph with variations reads back as having none"}));
            }
            continue;
        };
        let tuples: Vec<_> = data.tuples().collect();
        if tuples.len() != g.tuples.len() {
            st.oracle_failure(json!({"key": key, "glyph": gid, "what": "tuple count differs", "read": tuples.len(), "input": g.tuples.len()}));
            continue;
        }
        for (ti, (t, tin)) in tuples.iter().zip(&g.tuples).enumerate() {
            // region
            let peak: Vec<i16> = t.peak().values.iter().map(|v| v.get().to_bits()).collect();
            let want_peak: Vec<i16> = tin.tents.iter().map(|x| x.0).collect();
            let needs_im = tin.tents.iter().any(|(p, im)| im.map(|(a, b)| (a, b) != ((*p).min(0), (*p).max(0))).unwrap_or(false));
            let im_read = t.intermediate_start().zip(t.intermediate_end()).map(|(s, e)| {
                (s.values.iter().map(|v| v.get().to_bits()).collect::<Vec<i16>>(), e.values.iter().map(|v| v.get().to_bits()).collect::<Vec<i16>>())
            });
            let want_im = needs_im.then(|| {
                (
                    tin.tents.iter().map(|(p, im)| im.map(|x| x.0).unwrap_or((*p).min(0))).collect::<Vec<i16>>(),
                    tin.tents.iter().map(|(p, im)| im.map(|x| x.1).unwrap_or((*p).max(0))).collect::<Vec<i16>>(),
                )
            });
            if peak != want_peak || im_read != want_im {
                st.oracle_failure(json!({"key": key, "glyph": gid, "tuple": ti, "what": "region read back differs", "peak": peak, "want_peak": want_peak}));
            }
            // deltas
            let n = g.coords.len();
            let mut retained: Vec<Option<(i64, i64)>> = vec![None; n];
            let mut bad = false;
            for d in t.deltas() {
                let p = d.position as usize;
                if p >= n || retained[p].is_some() {
                    bad = true;
                    break;
                }
                retained[p] = Some((d.x_delta as i64, d.y_delta as i64));
            }
            if bad {
                st.oracle_failure(json!({"key": key, "glyph": gid, "tuple": ti, "what": "delta positions out of range or repeated"}));
                continue;
            }
            let all = t.has_deltas_for_all_points();
            st.count(if all { "gvar.tuple_all_points" } else { "gvar.tuple_sparse" });
            // the fast read paths skrifa uses (accumulate_dense_deltas / accumulate_sparse_deltas), scalar 1.0 and fractional
            {
                use read_fonts::tables::glyf::{PointFlags, PointMarker};
                use read_fonts::types::{Fixed, Point as RPoint};
                for scalar in [Fixed::ONE, Fixed::from_bits(0x5EB8), Fixed::from_bits(-0x1_8000)] {
                    let mut acc = vec![RPoint::<Fixed>::default(); n];
                    let mut flags = vec![PointFlags::default(); n];
                    let t2 = t.clone();
                    let res = catch(std::panic::AssertUnwindSafe(|| {
                        if all {
                            t2.accumulate_dense_deltas(&mut acc, scalar).map_err(|e| format!("{e}"))
                        } else {
                            t2.accumulate_sparse_deltas(&mut acc, &mut flags, scalar).map_err(|e| format!("{e}"))
                        }
                    }));
                    st.count(if all { "gvar.fast_dense_reads" } else { "gvar.fast_sparse_reads" });
                    if !matches!(res, Ok(Ok(()))) {
                        st.oracle_failure(json!({"key": format!("{}:glyph{}:tuple{}:fastpath", key, gid, ti), "what": "fast delta accumulation fails", "res": format!("{:?}", res)}));
                        continue;
                    }
                    let mul = |v: i16| if scalar == Fixed::ONE { Fixed::from_i32(v as i32) } else { Fixed::from_i32(v as i32) * scalar };
                    for i in 0..n {
                        let din = tin.deltas[i];
                        let stored = all || din.required;
                        let want = if stored { (mul(din.x), mul(din.y)) } else { (Fixed::ZERO, Fixed::ZERO) };
                        let flag = flags[i].has_marker(PointMarker::HAS_DELTA);
                        if (acc[i].x, acc[i].y) != want || (!all && flag != din.required) {
                            st.oracle_failure(json!({"key": format!("{}:glyph{}:tuple{}:fastpath", key, gid, ti),
                                "what": "fast path (accumulate_*_deltas) disagrees with the builder input", "dense": all, "point": i,
                                "scalar_bits": scalar.to_bits(), "got": [acc[i].x.to_bits(), acc[i].y.to_bits()], "want": [want.0.to_bits(), want.1.to_bits()],
                                "has_delta_flag": flag, "required": din.required}));
                            break;
                        }
                    }
                }
            }
            let none_required = tin.deltas.iter().all(|d| !d.required);
            if all && retained.iter().all(|r| r.is_none()) && n > 0 {
                // "all points" header but no delta data: only legitimate meaning is all-zero deltas
                st.count("gvar.tuple_all_points_without_data");
                if !none_required {
                    st.oracle_failure(json!({"key": key, "glyph": gid, "tuple": ti, "what": "all-points tuple without delta data"}));
                }
            }
            for i in 0..n {
                let din = tin.deltas[i];
                if din.required && retained[i] != Some((din.x as i64, din.y as i64)) {
                    st.oracle_failure(json!({"key": key, "glyph": gid, "tuple": ti, "point": i, "what": "required delta not reproduced exactly", "read": format!("{:?}", retained[i]), "want": [din.x, din.y]}));
                    break;
                }
                if let Some(r) = retained[i] {
                    if r != (din.x as i64, din.y as i64) {
                        st.oracle_failure(json!({"key": key, "glyph": gid, "tuple": ti, "point": i, "what": "stored delta differs from input"}));
                        break;
                    }
                }
            }
            // optional deltas: inference from what was read reproduces the wanted delta within the tolerance
            let inf = if all && retained.iter().all(|r| r.is_none()) { vec![(Fr::int(0), Fr::int(0)); n] } else { infer_all(&g.coords, &retained, &g.ends) };
            let tol = Fr::new(tin.tol.0 as i128, tin.tol.1 as i128);
            for i in 0..n {
                if retained[i].is_none() && !within(inf[i], tin.raw[i], tol) {
                    st.oracle_failure(json!({"key": key, "glyph": gid, "tuple": ti, "point": i, "what": "omitted delta not reproduced within tolerance by inference", "want": [tin.raw[i].0, tin.raw[i].1]}));
                    break;
                }
            }
        }
    }
}

/// one gvar table: build, read back (oracle), hand-parse (sizes, per-tuple bytes -> model)
fn process_gvar_font(glyphs: &[GlyphIn], axis_count: usize, key: &str, st: &mut Stats, cw: &mut CaseWriter, model_limit: usize) {
    st.evaluations += 1;
    st.count("gvar.fonts");
    let bytes = match build_gvar(glyphs, axis_count as u16) {
        Ok(Ok(b)) => b,
        other => {
            st.oracle_failure(json!({"key": key, "what": "Gvar::new / dump_table failed on well-formed input", "res": format!("{:?}", other.map(|r| r.map(|b| b.len())))}));
            return;
        }
    };
    gvar_oracle(glyphs, axis_count as u16, &bytes, st, key);
    let b2 = bytes.clone();
    let Ok(Some((long, parsed))) = catch(move || parse_gvar(&b2)) else {
        st.oracle_failure(json!({"key": key, "what": "hand parser cannot walk the compiled gvar (sizes/offsets inconsistent)"}));
        return;
    };
    st.count(if long { "gvar.long_offsets" } else { "gvar.short_offsets" });
    for (gi, (g, p)) in glyphs.iter().zip(&parsed).enumerate() {
        let Some(p) = p else {
            if !g.tuples.is_empty() {
                st.oracle_failure(json!({"key": key, "glyph": gi, "what": "no data for a glyph with tuples"}));
            }
            continue;
        };
        // sizes: variation_data_size fields account for the whole glyph record (up to 1 byte of padding)
        if p.total_len < p.accounted || p.total_len - p.accounted > 1 {
            st.oracle_failure(json!({"key": key, "glyph": gi, "what": "computed sizes do not add up to the glyph record length", "len": p.total_len, "accounted": p.accounted}));
        }
        if p.shared.is_some() {
            st.count("gvar.glyph_shared_points");
        }
        // every tuple's variation_data_size must delimit exactly its point numbers + x deltas + y deltas
        let shared_count: Option<usize> = p.shared.as_ref().and_then(|sb| read_points(sb).ok()).map(|(all, pts, _)| if all { g.coords.len() } else { pts.len() });
        for (ti, t) in p.tuples.iter().enumerate() {
            st.count(if t.private { "gvar.tuple_private_points" } else { "gvar.tuple_uses_shared_or_all" });
            let (npts, rest) = if t.private {
                match read_points(&t.bytes) {
                    Ok((all, pts, consumed)) => (if all { g.coords.len() } else { pts.len() }, t.bytes[consumed.min(t.bytes.len())..].to_vec()),
                    Err(_) => (usize::MAX, vec![]),
                }
            } else {
                (shared_count.unwrap_or(g.coords.len()), t.bytes.clone())
            };
            let ndeltas = read_deltas_all(&rest).map(|d| d.len()).unwrap_or(usize::MAX);
            // (a tuple without any required delta is written densely since the F-C10-1 fix)
            if npts == usize::MAX || ndeltas != 2 * npts {
                st.oracle_failure(json!({"key": format!("{}:glyph{}:tuple{}:size", key, gi, ti), "what": "variation_data_size does not delimit point numbers + 2 x point-count deltas",
                    "size": t.size, "points": npts as u64, "deltas_in_data": ndeltas as u64}));
            }
            match npts {
                127 | 128 | 129 | 255 | 256 | 257 | 63 | 64 | 65 => st.count(&format!("gvar.tuple_with_{}_points", npts)),
                _ => {}
            }
        }
        st.nontrivial(&format!("{}:{}", key, gi));
        if g.coords.len() <= model_limit {
            st.count("gvar.model_cases");
            cw.push(format!(
                "CGlyph {} {} {}",
                clist(g.tuples.iter(), |t| cgdeltas(&t.deltas)),
                copt(p.shared.as_ref().map(|s| cbytes(s))),
                clist(p.tuples.iter(), |t| format!("({}, {}, {})", cbool(t.private), t.size, cbytes(&t.bytes)))
            ));
        }
    }
}

/// deterministic boundary glyphs: a sparse tuple referencing EXACTLY k points (k at the 1/2-byte count boundary 127/128/129,
/// the run caps 63/64/65 and 255/256/257, and 1) out of a larger glyph, with private and with shared point numbers, always
/// followed by another tuple. All points lie on a line and the wanted deltas are linear in x, first and last point required,
/// so the specification's inference reproduces every omitted delta exactly (tolerance 0).
fn gvar_boundary_part(st: &mut Stats, cw: &mut CaseWriter) {
    for &k in &[1usize, 2, 63, 64, 65, 127, 128, 129, 130, 255, 256, 257] {
        for shared in [false, true] {
            for wide_gaps in [false, true] {
                let n: usize = if k >= 200 { 760 } else { 330 };
                let step: i64 = if wide_gaps { 40 } else { 10 };
                let mut coords: Vec<(i64, i64)> = (0..n).map(|i| (i as i64 * step, 0)).collect();
                coords.extend([(0, 0), (500, 0), (0, 0), (0, 0)]);
                let mut ends = vec![n - 1];
                ends.extend([n, n + 1, n + 2, n + 3]);
                // k required indices spread over the contour, first and last included (k = 1: only the first)
                let req_of = |k: usize| -> Vec<usize> {
                    if k == 1 {
                        vec![0]
                    } else {
                        (0..k).map(|j| j * (n - 1) / (k - 1)).collect()
                    }
                };
                let mk = |k: usize, mult: i64, peak: i16| -> TupleIn {
                    let req = req_of(k);
                    let raw: Vec<(i64, i64)> = (0..n + 4)
                        .map(|i| if i >= n { (0, 0) } else if k == 1 { (7 * mult, 0) } else { (i as i64 * mult, 0) })
                        .collect();
                    let deltas = raw
                        .iter()
                        .enumerate()
                        .map(|(i, d)| if req.contains(&i) { GlyphDelta::required(d.0 as i16, d.1 as i16) } else { GlyphDelta::optional(d.0 as i16, d.1 as i16) })
                        .collect();
                    TupleIn { tents: vec![(peak, None)], raw, deltas, tol: (0, 1) }
                };
                let mut tuples = vec![mk(k, 1, 16384)];
                if shared {
                    tuples.push(mk(k, 2, 8192)); // same point set -> shared point numbers
                }
                tuples.push(mk(3, 3, -16384)); // a following tuple with its own private point set
                let g = GlyphIn { coords, ends, tuples };
                let key = format!("gvar:boundary:k{}:shared{}:wide{}", k, shared, wide_gaps);
                st.count("gvar.boundary_fonts");
                process_gvar_font(&[g], 1, &key, st, cw, if wide_gaps { 0 } else { 1000 });
            }
        }
    }
}

fn gvar_part(rng: &mut Rng, st: &mut Stats, cw: &mut CaseWriter, thorough: bool) {
    gvar_boundary_part(st, cw);
    let nfonts = if thorough { 1500 } else { 220 };
    for fi in 0..nfonts {
        let axis_count = rng.range(1, 3) as usize;
        let nglyphs = rng.range(1, 5) as usize;
        let glyphs: Vec<GlyphIn> = (0..nglyphs)
            .map(|gi| if fi % 3 == 1 { sparse_word_glyph(rng, axis_count, fi % 12 == 1 && gi == 0, true) } else { random_glyph(rng, axis_count, false) })
            .collect();
        if fi % 3 == 1 {
            st.count("gvar.sparse_word_run_fonts");
        }
        let key = format!("gvar:seed-font-{}", fi);
        process_gvar_font(&glyphs, axis_count, &key, st, cw, 64);
    }
    // long offsets: enough glyph data to exceed 2 * 65535 bytes
    {
        let axis_count = 2usize;
        let mut glyphs = vec![];
        let mut r2 = rng.clone();
        for _ in 0..(if thorough { 160 } else { 120 }) {
            let mut g = random_glyph(&mut r2, axis_count, true);
            // make it heavy: random large deltas, all required
            for t in g.tuples.iter_mut() {
                t.raw = g.coords.iter().map(|_| (r2.range(-3000, 3000), r2.range(-3000, 3000))).collect();
                t.deltas = t.raw.iter().map(|d| GlyphDelta::required(d.0 as i16, d.1 as i16)).collect();
            }
            glyphs.push(g);
        }
        st.evaluations += 1;
        match build_gvar(&glyphs, axis_count as u16) {
            Ok(Ok(b)) => {
                let long = parse_gvar(&b).map(|p| p.0).unwrap_or(false);
                st.count(if long { "gvar.long_offsets" } else { "gvar.short_offsets" });
                st.v.insert("gvar_big_table_bytes".into(), b.len().into());
                if !long && b.len() > 140_000 {
                    st.oracle_failure(json!({"key": "gvar:big", "what": "short offsets used for a table that needs long ones"}));
                }
                gvar_oracle(&glyphs, axis_count as u16, &b, st, "gvar:big");
            }
            other => st.oracle_failure(json!({"key": "gvar:big", "what": "big gvar failed to build", "res": format!("{:?}", other.map(|r| r.map(|b| b.len())))})),
        }
    }
}

// ------------------------------------------------------------------------------------------------
// (d) applying tuples: compute_scalar, accumulate_dense_deltas, accumulate_sparse_deltas (shards of type `acase`)
// ------------------------------------------------------------------------------------------------

type RTuple<'a> = read_fonts::tables::variations::TupleVariation<'a, read_fonts::tables::gvar::GlyphDelta>;

/// tuples of glyph 0 of a compiled gvar, as read-fonts sees them
fn apply_read_tuples(bytes: &[u8]) -> Option<Vec<RTuple<'_>>> {
    let gvar = read_fonts::tables::gvar::Gvar::read(FontData::new(bytes)).ok()?;
    let data = gvar.glyph_variation_data(GlyphId::new(0)).ok()??;
    Some(data.tuples().collect())
}

fn apply_clamp14(v: i64) -> i16 {
    v.clamp(-16384, 16384) as i16
}

/// a tent for the scalar cases; kind: 0/1 none, 2 valid, 3 start==peak, 4 peak==end, 5 all equal, 6 start>peak, 7 peak>end, 8 sign mismatch
fn apply_tent(rng: &mut Rng, st: &mut Stats, explicit: bool) -> (i16, Option<(i16, i16)>) {
    let peak: i16 = if rng.chance(1, 5) { rng.range(-16384, 16384) as i16 } else { *rng.pick(&[16384, -16384, 8192, -8192, 0, 4915, -12000, 1, -1]) };
    let p = peak as i64;
    let kind = if explicit { rng.range(1, 8) as u64 } else { 0 };
    st.count(&format!("apply.tent_kind_{}", kind));
    let im = match kind {
        0 | 1 => None,
        2 => Some(if p > 0 {
            (rng.range(0, p), rng.range(p, 16384))
        } else if p < 0 {
            (rng.range(-16384, p), rng.range(p, 0))
        } else {
            (rng.range(-16384, 0), rng.range(0, 16384))
        }),
        3 => Some((p, if p >= 0 { rng.range(p, 16384) } else { rng.range(p, 0) })),
        4 => Some((if p > 0 { rng.range(0, p) } else { rng.range(-16384, p) }, p)),
        5 => Some((p, p)),
        6 => Some((p + rng.range(1, 4000), p + rng.range(4000, 9000))),
        7 => Some((p - rng.range(4000, 9000), p - rng.range(1, 4000))),
        _ => Some((-rng.range(1, 16384), rng.range(1, 16384))),
    };
    (peak, im.map(|(a, b)| (apply_clamp14(a), apply_clamp14(b))))
}

/// the trivial glyph of the scalar cases: one triangle + phantoms, every delta required and non-zero
fn apply_trivial_glyph(rng: &mut Rng, tents: Vec<Vec<(i16, Option<(i16, i16)>)>>) -> GlyphIn {
    let coords = vec![(0, 0), (100, 0), (50, 80), (0, 0), (100, 0), (0, 0), (0, 0)];
    let ends = vec![2, 3, 4, 5, 6];
    let tuples = tents
        .into_iter()
        .map(|tents| {
            let raw: Vec<(i64, i64)> = (0..7).map(|_| (rng.range(1, 9), rng.range(-9, -1))).collect();
            let deltas = raw.iter().map(|d| GlyphDelta::required(d.0 as i16, d.1 as i16)).collect();
            TupleIn { tents, raw, deltas, tol: (0, 1) }
        })
        .collect();
    GlyphIn { coords, ends, tuples }
}

fn apply_scalar_part(rng: &mut Rng, st: &mut Stats, cw: &mut CaseWriter, thorough: bool) -> usize {
    let target = if thorough { 10000 } else { 2500 };
    let mut made = 0usize;
    let mut guard = 0usize;
    while made < target && guard < 100 * target {
        guard += 1;
        let axes = if rng.chance(1, 2) { 1 } else { rng.range(2, 3) as usize };
        let ntuples = rng.range(1, 2) as usize;
        // half of the tuples without any explicit intermediate region (then read-fonts takes the implied-region branch)
        let tents: Vec<Vec<_>> = (0..ntuples)
            .map(|_| {
                let explicit = rng.chance(1, 2);
                (0..axes).map(|_| apply_tent(rng, st, explicit)).collect()
            })
            .collect();
        let g = apply_trivial_glyph(rng, tents);
        st.count("apply.scalar_glyphs");
        let bytes = match build_gvar(&[g.clone()], axes as u16) {
            Ok(Ok(b)) => b,
            other => {
                st.count("apply.build_rejected");
                st.count(if other.is_err() { "apply.build_rejected_by_panic" } else { "apply.build_rejected_by_error" });
                continue;
            }
        };
        let Some(tuples) = apply_read_tuples(&bytes) else {
            st.count("apply.scalar_readback_failed");
            continue;
        };
        if tuples.len() != g.tuples.len() {
            st.count("apply.scalar_tuple_count_differs");
        }
        for t in &tuples {
            let peaks: Vec<i16> = t.peak().values.iter().map(|v| v.get().to_bits()).collect();
            let inter: Option<(Vec<i16>, Vec<i16>)> = t
                .intermediate_start()
                .zip(t.intermediate_end())
                .map(|(s, e)| (s.values.iter().map(|v| v.get().to_bits()).collect(), e.values.iter().map(|v| v.get().to_bits()).collect()));
            if peaks.len() != axes || inter.as_ref().map(|(s, e)| s.len() != axes || e.len() != axes).unwrap_or(false) {
                st.count("apply.scalar_region_length_differs");
                continue;
            }
            let invalid = inter
                .as_ref()
                .map(|(s, e)| (0..axes).any(|i| s[i] > peaks[i] || peaks[i] > e[i] || (s[i] < 0 && e[i] > 0 && peaks[i] != 0)))
                .unwrap_or(false);
            // candidate coordinates per axis (all of them, and the ones inside the region)
            let region = |i: usize| -> (i64, i64, i64) {
                let p = peaks[i] as i64;
                match &inter {
                    Some((s, e)) => (s[i] as i64, p, e[i] as i64),
                    None => (p.min(0), p, p.max(0)),
                }
            };
            let inside: Vec<Vec<i16>> = (0..axes)
                .map(|i| {
                    let (s, p, e) = region(i);
                    let (lo, hi) = (s.min(e), s.max(e));
                    let mut v = vec![p, p, (s + p) / 2, (p + e) / 2, rng.range(lo, hi), rng.range(lo, hi)];
                    if p == 0 {
                        v.push(rng.range(-16384, 16384));
                    }
                    v.into_iter().map(|x| x.clamp(-32768, 32767) as i16).collect()
                })
                .collect();
            let cands: Vec<Vec<i16>> = (0..axes)
                .map(|i| {
                    let (s, p, e) = region(i);
                    let (lo, hi) = (s.min(e), s.max(e));
                    let mut v: Vec<i64> = vec![-16384, 0, 16384, p, s, e, s - 1, s + 1, p - 1, p + 1, e - 1, e + 1, (s + p) / 2, (p + e) / 2, rng.range(-16384, 16384), rng.range(lo, hi)];
                    if rng.chance(1, 8) {
                        v.push(rng.range(-32768, 32767));
                    }
                    let mut v: Vec<i16> = v.into_iter().map(|x| x.clamp(-32768, 32767) as i16).collect();
                    v.sort();
                    v.dedup();
                    v
                })
                .collect();
            let mut locs: Vec<Vec<i16>> = vec![];
            if axes == 1 {
                locs.extend(cands[0].iter().map(|c| vec![*c]));
                locs.push(vec![]); // shorter than the axis count
                locs.push(vec![*rng.pick(&cands[0]), rng.range(-16384, 16384) as i16]); // longer
                locs.push(vec![peaks[0], 16384, -16384]);
            } else {
                for k in 0..20 {
                    let mut loc: Vec<i16> = (0..axes).map(|i| *rng.pick(if k % 8 < 3 { &inside[i] } else { &cands[i] })).collect();
                    if rng.chance(1, 6) {
                        loc.truncate(rng.range(0, axes as i64 - 1) as usize);
                    } else if rng.chance(1, 10) {
                        for _ in 0..rng.range(1, 2) {
                            loc.push(rng.range(-16384, 16384) as i16);
                        }
                    }
                    locs.push(loc);
                }
                // the peak itself
                locs.push(peaks.clone());
            }
            for loc in locs {
                let coords: Vec<F2Dot14> = loc.iter().map(|c| f2(*c)).collect();
                let t2 = t.clone();
                st.evaluations += 1;
                let res = match catch(std::panic::AssertUnwindSafe(|| t2.compute_scalar(&coords).map(|f| f.to_bits()))) {
                    Ok(r) => r,
                    Err(e) => {
                        st.count("apply.scalar_panicked");
                        st.oracle_failure(json!({"key": format!("apply:scalar:p{:?}:i{:?}:c{:?}", peaks, inter, loc), "what": "compute_scalar panics", "panic": e}));
                        continue;
                    }
                };
                let key = format!("apply:scalar:p{:?}:i{:?}:c{:?}", peaks, inter, loc);
                st.count("apply.scalar_cases");
                match loc.len().cmp(&axes) {
                    std::cmp::Ordering::Less => st.count("apply.scalar_short_coords"),
                    std::cmp::Ordering::Greater => st.count("apply.scalar_extra_coords"),
                    _ => {}
                }
                st.count(match res {
                    None => "apply.scalar_none",
                    Some(65536) => "apply.scalar_one",
                    Some(_) => "apply.scalar_fraction",
                });
                if inter.is_some() {
                    st.count("apply.scalar_with_intermediate");
                }
                if invalid {
                    st.count("apply.scalar_invalid_region");
                    if res.is_some() {
                        st.count("apply.scalar_invalid_region_some");
                    }
                }
                if axes > 1 {
                    st.count("apply.scalar_multi_axis");
                }
                // oracle
                if let Some(v) = res {
                    if !(0 < v && v <= 65536) {
                        st.oracle_failure(json!({"key": key, "what": "compute_scalar returns a scalar outside (0, 1]", "peaks": peaks, "intermediate": format!("{:?}", inter), "coords": loc, "result_bits": v}));
                    }
                }
                let at_peak = (0..axes).all(|i| peaks[i] == 0 || loc.get(i).copied().unwrap_or(0) == peaks[i]);
                if at_peak {
                    st.count("apply.scalar_at_peak");
                    if res != Some(65536) {
                        st.oracle_failure(json!({"key": key, "what": "compute_scalar at the peak is not 1.0", "peaks": peaks, "intermediate": format!("{:?}", inter), "coords": loc, "result_bits": format!("{:?}", res)}));
                    }
                }
                if matches!(res, Some(v) if v != 65536) {
                    st.nontrivial(&key);
                }
                cw.push(format!(
                    "AScalar {} {} {} {}",
                    czlist(loc.iter().map(|c| *c as i128)),
                    czlist(peaks.iter().map(|c| *c as i128)),
                    copt(inter.as_ref().map(|(s, e)| format!("({}, {})", czlist(s.iter().map(|c| *c as i128)), czlist(e.iter().map(|c| *c as i128))))),
                    copt(res.map(|v| cz(v as i128)))
                ));
                made += 1;
            }
        }
    }
    made
}

const APPLY_SCALARS: [i32; 9] = [65536, 0, 1, -65536, 0x5EB8, -0x1_8000, 32768, 65535, 65537];

fn apply_scalar_arg(rng: &mut Rng, k: usize) -> i32 {
    if k % 11 < APPLY_SCALARS.len() {
        APPLY_SCALARS[k % 11]
    } else {
        rng.range(-131072, 131072) as i32
    }
}

fn apply_delta_value(rng: &mut Rng) -> i16 {
    match rng.below(10) {
        0..=3 => rng.range(-5, 5) as i16,
        4 => *rng.pick(&[127, 128, -127, -128, -129, 129]),
        5 => *rng.pick(&[32767, -32768, -32767, 32766]),
        6 => *rng.pick(&[255, 256, -255, -256, 16384, -16384]),
        7 => 0,
        _ => rng.range(-32768, 32767) as i16,
    }
}

fn apply_fixed_bits(rng: &mut Rng) -> i32 {
    match rng.below(8) {
        0 => i32::MIN + rng.range(0, 70000) as i32,
        1 => i32::MAX - rng.range(0, 70000) as i32,
        2 => rng.range(-300, 300) as i32,
        3 => (rng.range(-2000, 2000) as i32) << 16,
        4 => *rng.pick(&[i32::MIN, i32::MAX, 0, -1, 1, 0x7FFF_0000, -0x8000_0000 + 0x1_0000]),
        _ => rng.next_u32() as i32,
    }
}

/// a glyph with n points (n - 4 in one contour + 4 phantoms) and the given per-tuple deltas, one axis
fn apply_glyph(n: usize, tuple_deltas: Vec<Vec<GlyphDelta>>) -> GlyphIn {
    let nc = n - 4;
    let mut coords: Vec<(i64, i64)> = (0..nc).map(|i| ((i as i64 * 37) % 200, (i as i64 * 91) % 300)).collect();
    coords.extend([(0, 0), (500, 0), (0, 0), (0, 0)]);
    let ends = vec![nc - 1, nc, nc + 1, nc + 2, nc + 3];
    let peaks = [16384i16, 8192, -16384, -8192];
    let tuples = tuple_deltas
        .into_iter()
        .enumerate()
        .map(|(i, deltas)| TupleIn { tents: vec![(peaks[i % 4], None)], raw: deltas.iter().map(|d| (d.x as i64, d.y as i64)).collect(), deltas, tol: (0, 1) })
        .collect();
    GlyphIn { coords, ends, tuples }
}

/// (d as i64 * scalar) reduced to i32 two's complement, added to old with wrapping
fn apply_expected(old: i32, d: i32, scalar: i32) -> i32 {
    let prod = (d as i128) * (scalar as i128);
    ((old as i128 + prod) as i64) as i32
}

fn apply_dense_part(rng: &mut Rng, st: &mut Stats, cw: &mut CaseWriter, thorough: bool) -> usize {
    use read_fonts::types::{Fixed, Point as RPoint};
    let target = if thorough { 2800 } else { 700 };
    let mut made = 0usize;
    let mut guard = 0usize;
    while made < target && guard < 100 * target {
        guard += 1;
        let n = rng.range(7, 20) as usize;
        let ntuples = rng.range(1, 2) as usize;
        let tuple_deltas: Vec<Vec<GlyphDelta>> = (0..ntuples)
            .map(|_| {
                let mut v: Vec<GlyphDelta> = (0..n).map(|_| GlyphDelta::required(apply_delta_value(rng), apply_delta_value(rng))).collect();
                if v.iter().all(|d| d.x == 0 && d.y == 0) {
                    v[0] = GlyphDelta::required(3, -4);
                }
                v
            })
            .collect();
        let g = apply_glyph(n, tuple_deltas);
        let bytes = match build_gvar(&[g.clone()], 1) {
            Ok(Ok(b)) => b,
            _ => {
                st.count("apply.build_rejected");
                st.count("apply.dense_build_rejected");
                continue;
            }
        };
        let Some(tuples) = apply_read_tuples(&bytes) else {
            st.count("apply.dense_readback_failed");
            continue;
        };
        for t in &tuples {
            if !t.has_deltas_for_all_points() {
                st.count("apply.dense_not_written_dense");
                continue;
            }
            let mut xs = vec![];
            let mut ys = vec![];
            let mut in_order = true;
            for (i, d) in t.deltas().enumerate() {
                in_order &= d.position as usize == i;
                xs.push(d.x_delta);
                ys.push(d.y_delta);
            }
            if xs.len() != n || !in_order {
                st.count("apply.dense_delta_count_differs");
                continue;
            }
            for _ in 0..5 {
                let scalar = apply_scalar_arg(rng, made);
                let random_init = made % 2 == 1;
                let init: Vec<(i32, i32)> = (0..n).map(|_| if random_init { (apply_fixed_bits(rng), apply_fixed_bits(rng)) } else { (0, 0) }).collect();
                let mut acc: Vec<RPoint<Fixed>> = init.iter().map(|(x, y)| RPoint::new(Fixed::from_bits(*x), Fixed::from_bits(*y))).collect();
                let t2 = t.clone();
                st.evaluations += 1;
                let res = catch(std::panic::AssertUnwindSafe(|| t2.accumulate_dense_deltas(&mut acc, Fixed::from_bits(scalar)).is_ok()));
                let key = format!("apply:dense:s{}:x{:?}:y{:?}:i{:?}", scalar, xs, ys, init);
                let ok = match res {
                    Ok(ok) => ok,
                    Err(e) => {
                        st.count("apply.dense_panicked");
                        st.sample(json!({"apply_dense_panic": e, "key": key}));
                        continue;
                    }
                };
                let out: Vec<(i32, i32)> = acc.iter().map(|p| (p.x.to_bits(), p.y.to_bits())).collect();
                st.count("apply.dense_cases");
                st.count(if scalar == 65536 { "apply.dense_scalar_one_path" } else { "apply.dense_scaled_path" });
                st.count(if random_init { "apply.dense_random_init" } else { "apply.dense_zero_init" });
                if !ok {
                    st.count("apply.dense_err");
                }
                if ok {
                    let mut wrapped = false;
                    for i in 0..n {
                        let want = (apply_expected(init[i].0, xs[i], scalar), apply_expected(init[i].1, ys[i], scalar));
                        wrapped |= (init[i].0 as i128 + xs[i] as i128 * scalar as i128) != want.0 as i128 || (init[i].1 as i128 + ys[i] as i128 * scalar as i128) != want.1 as i128;
                        if xs[i].abs() < 32768 && ys[i].abs() < 32768 && out[i] != want {
                            st.oracle_failure(json!({"key": key, "what": "accumulate_dense_deltas: new value is not old + delta * scalar (wrapping, exact)", "point": i,
                                "scalar_bits": scalar, "delta": [xs[i], ys[i]], "old": [init[i].0, init[i].1], "got": [out[i].0, out[i].1], "want": [want.0, want.1]}));
                            break;
                        }
                    }
                    if wrapped {
                        st.count("apply.dense_wrapping_add");
                    }
                }
                if scalar != 65536 && scalar != 0 {
                    st.nontrivial(&key);
                }
                cw.push(format!(
                    "ADense {} {} {} {} {} {}",
                    cz(scalar as i128),
                    czlist(xs.iter().map(|v| *v as i128)),
                    czlist(ys.iter().map(|v| *v as i128)),
                    clist(init.iter(), |(x, y)| format!("({}, {})", cz(*x as i128), cz(*y as i128))),
                    cbool(ok),
                    clist(out.iter(), |(x, y)| format!("({}, {})", cz(*x as i128), cz(*y as i128)))
                ));
                made += 1;
            }
        }
    }
    made
}

fn apply_sparse_part(rng: &mut Rng, st: &mut Stats, cw: &mut CaseWriter, thorough: bool) -> usize {
    use read_fonts::tables::glyf::{PointFlags, PointMarker};
    use read_fonts::types::{Fixed, Point as RPoint};
    let target = if thorough { 3600 } else { 900 };
    let mut made = 0usize;
    let mut guard = 0usize;
    while made < target && guard < 100 * target {
        guard += 1;
        let n = rng.range(7, 20) as usize;
        let ntuples = rng.range(1, 2) as usize;
        let share = ntuples == 2 && rng.chance(1, 2);
        // required set: 1..n-1 points (few, so that the sparse form is the smaller one)
        let pick_req = |rng: &mut Rng| -> Vec<bool> {
            let k = rng.range(1, (n as i64 / 2).max(1)) as usize;
            let mut idx: Vec<usize> = (0..n).collect();
            rng.shuffle(&mut idx);
            let mut r = vec![false; n];
            for i in &idx[..k] {
                r[*i] = true;
            }
            r
        };
        let first_req = pick_req(rng);
        let tuple_deltas: Vec<Vec<GlyphDelta>> = (0..ntuples)
            .map(|ti| {
                let req = if ti == 0 || share { first_req.clone() } else { pick_req(rng) };
                (0..n)
                    .map(|i| {
                        if req[i] {
                            GlyphDelta::required(apply_delta_value(rng), apply_delta_value(rng))
                        } else {
                            // costly optional deltas: the dense form would need words for them
                            GlyphDelta::optional(rng.range(200, 3000) as i16, rng.range(-3000, -200) as i16)
                        }
                    })
                    .collect()
            })
            .collect();
        let g = apply_glyph(n, tuple_deltas);
        let bytes = match build_gvar(&[g.clone()], 1) {
            Ok(Ok(b)) => b,
            _ => {
                st.count("apply.build_rejected");
                st.count("apply.sparse_build_rejected");
                continue;
            }
        };
        let Some(tuples) = apply_read_tuples(&bytes) else {
            st.count("apply.sparse_readback_failed");
            continue;
        };
        for t in &tuples {
            if t.has_deltas_for_all_points() {
                st.count("apply.sparse_written_dense_skipped");
                continue;
            }
            let pts: Vec<u16> = t.point_numbers().collect();
            let ds: Vec<(u16, i32, i32)> = t.deltas().map(|d| (d.position, d.x_delta, d.y_delta)).collect();
            if ds.len() != pts.len() || ds.iter().zip(&pts).any(|(d, p)| d.0 != *p) {
                st.count("apply.sparse_points_and_deltas_differ");
                continue;
            }
            st.count(if share { "apply.sparse_tuples_shared_candidate" } else { "apply.sparse_tuples_private_candidate" });
            let xs: Vec<i32> = ds.iter().map(|d| d.1).collect();
            let ys: Vec<i32> = ds.iter().map(|d| d.2).collect();
            for _ in 0..6 {
                let scalar = apply_scalar_arg(rng, made);
                let len = match rng.below(10) {
                    0..=4 => n,
                    5 => n.saturating_sub(2),
                    6 => 1,
                    7 => 0,
                    8 => n + 3,
                    _ => rng.range(0, n as i64 + 3) as usize,
                };
                let random_init = rng.chance(1, 2);
                let premark = rng.chance(1, 3);
                let init: Vec<(i32, i32, bool)> = (0..len)
                    .map(|_| {
                        let (x, y) = if random_init { (apply_fixed_bits(rng), apply_fixed_bits(rng)) } else { (0, 0) };
                        (x, y, premark && rng.chance(1, 3))
                    })
                    .collect();
                let mut acc: Vec<RPoint<Fixed>> = init.iter().map(|(x, y, _)| RPoint::new(Fixed::from_bits(*x), Fixed::from_bits(*y))).collect();
                let mut flags: Vec<PointFlags> = init
                    .iter()
                    .map(|(_, _, m)| {
                        let mut f = PointFlags::default();
                        if *m {
                            f.set_marker(PointMarker::HAS_DELTA);
                        }
                        f
                    })
                    .collect();
                let t2 = t.clone();
                st.evaluations += 1;
                let res = catch(std::panic::AssertUnwindSafe(|| t2.accumulate_sparse_deltas(&mut acc, &mut flags, Fixed::from_bits(scalar)).is_ok()));
                let key = format!("apply:sparse:s{}:p{:?}:x{:?}:y{:?}:i{:?}", scalar, pts, xs, ys, init);
                let ok = match res {
                    Ok(ok) => ok,
                    Err(e) => {
                        st.count("apply.sparse_panicked");
                        st.sample(json!({"apply_sparse_panic": e, "key": key}));
                        continue;
                    }
                };
                let out: Vec<(i32, i32, bool)> = acc.iter().zip(&flags).map(|(p, f)| (p.x.to_bits(), p.y.to_bits(), f.has_marker(PointMarker::HAS_DELTA))).collect();
                st.count("apply.sparse_cases");
                st.count(if scalar == 65536 { "apply.sparse_scalar_one_path" } else { "apply.sparse_scaled_path" });
                match len.cmp(&n) {
                    std::cmp::Ordering::Less => st.count("apply.sparse_short_buffer"),
                    std::cmp::Ordering::Greater => st.count("apply.sparse_long_buffer"),
                    _ => st.count("apply.sparse_exact_buffer"),
                }
                if pts.iter().any(|p| *p as usize >= len) {
                    st.count("apply.sparse_point_out_of_range_skipped");
                }
                if premark {
                    st.count("apply.sparse_premarked_flags");
                }
                if !ok {
                    st.count("apply.sparse_err");
                }
                if ok {
                    let mut want: Vec<(i32, i32, bool)> = init.clone();
                    for (j, p) in pts.iter().enumerate() {
                        if let Some(w) = want.get_mut(*p as usize) {
                            *w = (apply_expected(w.0, xs[j], scalar), apply_expected(w.1, ys[j], scalar), true);
                        }
                    }
                    let small = xs.iter().chain(ys.iter()).all(|d| d.abs() < 32768);
                    if small && want != out {
                        let i = (0..len).find(|i| want[*i] != out[*i]).unwrap_or(0);
                        st.oracle_failure(json!({"key": key, "what": "accumulate_sparse_deltas: referenced entries must be old + delta * scalar (wrapping, exact) with HAS_DELTA set, all others untouched",
                            "entry": i, "scalar_bits": scalar, "points": pts, "xs": xs, "ys": ys, "old": format!("{:?}", init.get(i)), "got": format!("{:?}", out.get(i)), "want": format!("{:?}", want.get(i))}));
                    }
                }
                st.nontrivial(&key);
                let trip = |v: &[(i32, i32, bool)]| clist(v.iter(), |(x, y, m)| format!("({}, {}, {})", cz(*x as i128), cz(*y as i128), cbool(*m)));
                cw.push(format!(
                    "ASparse {} {} {} {} {} {} {}",
                    cz(scalar as i128),
                    czlist(pts.iter().map(|v| *v as i128)),
                    czlist(xs.iter().map(|v| *v as i128)),
                    czlist(ys.iter().map(|v| *v as i128)),
                    trip(&init),
                    cbool(ok),
                    trip(&out)
                ));
                made += 1;
            }
        }
    }
    made
}

/// Second family of shards (`acase`, checked by C10.ApplyModel.check_acase): the real `compute_scalar`,
/// `accumulate_dense_deltas` and `accumulate_sparse_deltas` on tuples built by write-fonts and read back by read-fonts.
/// Written as `cases_<first_shard_index + k>.v` next to the shards of the first writer. Returns (cases, shards).
fn apply_part(rng: &mut Rng, st: &mut Stats, dir: &std::path::Path, first_shard_index: usize, thorough: bool) -> (usize, usize) {
    let tmp = dir.join("apply_tmp");
    let mut cw = CaseWriter::new(
        &tmp,
        "From Coq Require Import ZArith List. Import ListNotations. Open Scope Z_scope.\nFrom FV Require Import Lib.Cases C10.ApplyModel.",
        "acase",
        "check_acase",
        400,
    );
    let ns = apply_scalar_part(rng, st, &mut cw, thorough);
    let nd = apply_dense_part(rng, st, &mut cw, thorough);
    let np = apply_sparse_part(rng, st, &mut cw, thorough);
    st.v.insert("apply_scalar_cases".into(), ns.into());
    st.v.insert("apply_dense_cases".into(), nd.into());
    st.v.insert("apply_sparse_cases".into(), np.into());
    let shards = cw.finish();
    for k in 0..shards {
        std::fs::rename(tmp.join(format!("cases_{}.v", k)), dir.join(format!("cases_{}.v", first_shard_index + k))).unwrap();
    }
    let _ = std::fs::remove_dir_all(&tmp);
    st.v.insert("apply_first_shard".into(), first_shard_index.into());
    st.v.insert("apply_shards".into(), shards.into());
    (cw.len(), shards)
}

fn main() {
    if std::env::var("C10_DEBUG").is_err() {
        silence_panics();
    }
    let args: Vec<String> = std::env::args().collect();
    let thorough = tier_is_thorough(&args);
    let seed = seed_from_env();
    let dir = out_dir(&args, "C10");
    let mut rng = Rng::new(seed);
    let mut st = Stats::new();
    let mut cw = CaseWriter::new(
        &dir,
        "From Coq Require Import ZArith List. Import ListNotations. Open Scope Z_scope.\nFrom FV Require Import Lib.Cases C10.Model.",
        "case",
        "check_case",
        if thorough { 400 } else { 260 },
    );
    codec_part(&mut rng, &mut st, &mut cw, thorough);
    iup_part(&mut rng, &mut st, &mut cw, thorough);
    gvar_part(&mut rng, &mut st, &mut cw, thorough);
    c10_draw::draw_part(&mut rng, &mut st, thorough);
    let shards = cw.finish();
    let (apply_cases, apply_shards) = apply_part(&mut rng, &mut st, &dir, shards, thorough);
    let shards = shards + apply_shards;
    let (iupapply_cases, iupapply_shards) = c10_draw::iup_apply_part(&mut rng, &mut st, &dir, shards, thorough);
    let shards = shards + iupapply_shards;
    st.v.insert("shards".into(), shards.into());
    st.v.insert("model_cases".into(), (cw.len() + apply_cases + iupapply_cases).into());
    st.write(
        &dir,
        "codecs: boundary vectors (runs of 62..66/127..130 per class, zeros in byte runs, bytes in word runs, i32) + random class-segmented vectors; point sets with gaps 0/1/127/128/254..257 and counts 126..130/255..257, unsorted sets, arbitrary byte streams through both readers; IUP: exhaustive 1-2 point contours over {-2..2}^2 x 3 tolerances (n=2 one third in quick), 3 points over {-1..1}^2, random 3-6 point and glyph-like 4-40 point contours; gvar: random glyph sets through Gvar::new/dump_table/read-fonts, one long-offset table; non-trivial = >2 values (codecs), some-but-not-all deltas optional (IUP), glyph with tuples (gvar); apply (round 7): real TupleVariation::compute_scalar at boundary locations (-1, 0, +1, start/peak/end and +-1 unit, invalid regions, short/long coords), accumulate_dense/sparse_deltas::<Fixed> with boundary scalars, wrapping accumulators, short/long buffers; iupapply: unscaled FreeType-style draws of simple glyphs with sparse tuples (single-reference contours, unreferenced contours, equal reference coordinates, phantom references) compared point-exactly with the model",
    );
    println!("cases={} (apply: {}, iupapply: {}) shards={} (apply: {}, iupapply: {}) oracle_failures={}", cw.len() + apply_cases + iupapply_cases, apply_cases, iupapply_cases, shards, apply_shards, iupapply_shards, st.oracle_failures.len());
}

/// drawing through skrifa (oracle only): a FontBuilder-assembled variable TrueType font is drawn unscaled and
/// unhinted at many normalized locations; every outline point must equal the default point plus the
/// region-weighted sum of the (stored or inferred) deltas, up to the scaler's final rounding to integers.
mod c10_draw {
    use super::*;
    use read_fonts::tables::glyf::CurvePoint;
    use skrifa::instance::{LocationRef, Size};
    use skrifa::outline::{DrawSettings, OutlinePen};
    use skrifa::MetadataProvider;
    use write_fonts::tables::glyf::{Bbox, Contour, GlyfLocaBuilder, SimpleGlyph};
    use write_fonts::tables::{fvar, head, hhea, hmtx, maxp};
    use write_fonts::types::{Fixed, NameId, Tag};
    use write_fonts::FontBuilder;

    #[derive(Default)]
    struct Pts(Vec<(f32, f32)>, usize);
    impl OutlinePen for Pts {
        fn move_to(&mut self, x: f32, y: f32) {
            self.0.push((x, y));
        }
        fn line_to(&mut self, x: f32, y: f32) {
            self.0.push((x, y));
        }
        fn quad_to(&mut self, _: f32, _: f32, x: f32, y: f32) {
            self.1 += 1;
            self.0.push((x, y));
        }
        fn curve_to(&mut self, _: f32, _: f32, _: f32, _: f32, x: f32, y: f32) {
            self.1 += 1;
            self.0.push((x, y));
        }
        fn close(&mut self) {}
    }

    /// `comps[g] = Some(components)` makes glyph g a composite of (glyph id, x offset, y offset) references (no transform);
    /// its GlyphIn then carries one coordinate per component (+ 4 phantoms) and the component-offset deltas.
    fn build_font(glyphs: &[GlyphIn], comps: &[Option<Vec<(usize, i64, i64)>>], axis_count: usize) -> Result<Vec<u8>, String> {
        let gvar_bytes = match build_gvar(glyphs, axis_count as u16) {
            Ok(Ok(b)) => b,
            other => return Err(format!("gvar: {:?}", other.map(|r| r.map(|b| b.len())))),
        };
        let glyphs = glyphs.to_vec();
        let comps = comps.to_vec();
        catch(move || -> Result<Vec<u8>, String> {
            let mut gb = GlyfLocaBuilder::new();
            let mut metrics = vec![];
            for (g, comp) in glyphs.iter().zip(&comps) {
                let npts = g.coords.len() - 4;
                if let Some(cs) = comp {
                    use write_fonts::tables::glyf::{Anchor, Component, ComponentFlags, CompositeGlyph, Transform};
                    let bb = Bbox { x_min: 0, y_min: 0, x_max: 0, y_max: 0 };
                    let mk = |c: &(usize, i64, i64)| Component::new(write_fonts::types::GlyphId16::new(c.0 as u16), Anchor::Offset { x: c.1 as i16, y: c.2 as i16 }, Transform::default(), ComponentFlags::default());
                    let mut cg = CompositeGlyph::new(mk(&cs[0]), bb);
                    for c in &cs[1..] {
                        cg.add_component(mk(c), bb);
                    }
                    metrics.push(hmtx::LongMetric::new(g.coords[npts + 1].0 as u16, 0));
                    gb.add_glyph(&cg).map_err(|e| format!("{e}"))?;
                    continue;
                }
                let mut contours = vec![];
                let mut start = 0;
                for &e in &g.ends {
                    if e >= npts {
                        break;
                    }
                    let c: Vec<CurvePoint> = g.coords[start..=e].iter().map(|p| CurvePoint::on_curve(p.0 as i16, p.1 as i16)).collect();
                    contours.push(Contour::from(c));
                    start = e + 1;
                }
                let xs = g.coords[..npts].iter().map(|p| p.0 as i16);
                let ys = g.coords[..npts].iter().map(|p| p.1 as i16);
                let bbox = Bbox { x_min: xs.clone().min().unwrap_or(0), x_max: xs.max().unwrap_or(0), y_min: ys.clone().min().unwrap_or(0), y_max: ys.max().unwrap_or(0) };
                metrics.push(hmtx::LongMetric::new(g.coords[npts + 1].0 as u16, bbox.x_min));
                gb.add_glyph(&SimpleGlyph { bbox, contours, instructions: vec![] }).map_err(|e| format!("{e}"))?;
            }
            let (glyf, loca, fmt) = gb.build();
            let mut hd = head::Head::default();
            hd.units_per_em = 1000;
            hd.magic_number = 0x5F0F3CF5;
            hd.index_to_loc_format = match fmt {
                write_fonts::tables::loca::LocaFormat::Short => 0,
                write_fonts::tables::loca::LocaFormat::Long => 1,
            };
            let mut mx = maxp::Maxp::new(glyphs.len() as u16);
            mx.max_points = Some(400);
            mx.max_contours = Some(40);
            mx.max_composite_points = Some(2000);
            mx.max_composite_contours = Some(200);
            mx.max_zones = Some(1);
            mx.max_twilight_points = Some(0);
            mx.max_storage = Some(0);
            mx.max_function_defs = Some(0);
            mx.max_instruction_defs = Some(0);
            mx.max_stack_elements = Some(0);
            mx.max_size_of_instructions = Some(0);
            mx.max_component_elements = Some(8);
            mx.max_component_depth = Some(4);
            let mut hh = hhea::Hhea::default();
            hh.number_of_h_metrics = glyphs.len() as u16;
            let hm = hmtx::Hmtx::new(metrics, vec![]);
            let axes: Vec<fvar::VariationAxisRecord> = (0..axis_count)
                .map(|i| fvar::VariationAxisRecord::new(Tag::new(&[b'a', b'x', b'0' + i as u8, b' ']), Fixed::from_f64(-100.0), Fixed::from_f64(0.0), Fixed::from_f64(100.0), 0, NameId::new(256 + i as u16)))
                .collect();
            let fv = fvar::Fvar::new(fvar::AxisInstanceArrays::new(axes, vec![]));
            let mut fb = FontBuilder::new();
            fb.add_table(&hd).map_err(|e| format!("{e}"))?;
            fb.add_table(&mx).map_err(|e| format!("{e}"))?;
            fb.add_table(&hh).map_err(|e| format!("{e}"))?;
            fb.add_table(&hm).map_err(|e| format!("{e}"))?;
            fb.add_table(&glyf).map_err(|e| format!("{e}"))?;
            fb.add_table(&loca).map_err(|e| format!("{e}"))?;
            fb.add_table(&fv).map_err(|e| format!("{e}"))?;
            fb.add_raw(Tag::new(b"gvar"), gvar_bytes);
            Ok(fb.build())
        })
        .and_then(|r| r)
    }

    /// the specification's tent scalar of one tuple at a location (F2Dot14 bits), exactly; None = not applicable
    fn tent_scalar(tents: &[(i16, Option<(i16, i16)>)], loc: &[i16]) -> Option<Fr> {
        let mut s = Fr::int(1);
        for (i, (peak, im)) in tents.iter().enumerate() {
            let (p, c) = (*peak as i128, loc[i] as i128);
            if p == 0 || c == p {
                continue;
            }
            if c == 0 {
                return None;
            }
            let (lo, hi) = match im {
                Some((a, b)) => (*a as i128, *b as i128),
                None => (p.min(0), p.max(0)),
            };
            if im.is_some() {
                if c <= lo || c >= hi {
                    return None;
                }
                s = s.mul(if c < p { Fr::new(c - lo, p - lo) } else { Fr::new(hi - c, hi - p) });
            } else {
                if c < lo || c > hi {
                    return None;
                }
                s = s.mul(Fr::new(c, p));
            }
        }
        (s.0 != 0).then_some(s)
    }

    fn to_f64(f: Fr) -> f64 {
        f.0 as f64 / f.1 as f64
    }

    pub const FINDING_1: &str = "F-C10-1:all-optional-tuple-written-as-all-points-without-data";

    /// deterministic minimal input of finding F-C10-1, and its control (tuple A left out)
    fn finding_1_repro(st: &mut Stats) {
        let coords = vec![(0i64, 0i64), (100, 0), (50, 80), (0, 0), (500, 0), (0, 0), (0, 0)];
        let ends = vec![2usize, 3, 4, 5, 6];
        let a = TupleIn { tents: vec![(16384, None)], raw: vec![(0, 0); 7], deltas: vec![GlyphDelta::optional(0, 0); 7], tol: (1, 2) };
        let mut bd = vec![GlyphDelta::required(10, 20); 3];
        bd.extend(vec![GlyphDelta::required(0, 0); 4]);
        let mut braw = vec![(10i64, 20i64); 3];
        braw.extend(vec![(0, 0); 4]);
        let b = TupleIn { tents: vec![(16384, None)], raw: braw, deltas: bd, tol: (1, 2) };
        for (name, tuples) in [("control", vec![b.clone()]), ("with-all-optional-tuple", vec![a, b.clone()])] {
            st.evaluations += 1;
            let g = GlyphIn { coords: coords.clone(), ends: ends.clone(), tuples };
            let Ok(bytes) = build_font(&[g], &[None], 1) else {
                st.oracle_failure(json!({"key": format!("draw:repro-{}", name), "what": "cannot build"}));
                continue;
            };
            let font = skrifa::FontRef::new(&bytes).unwrap();
            let glyph = font.outline_glyphs().get(GlyphId::new(0)).unwrap();
            let mut pen = Pts::default();
            let loc = [F2Dot14::from_bits(16384)];
            let r = glyph.draw(DrawSettings::unhinted(Size::unscaled(), LocationRef::new(&loc)), &mut pen);
            let want = vec![(10.0f32, 20.0f32), (110.0, 20.0), (60.0, 100.0)];
            st.count(&format!("draw.repro_{}_{}", name, if pen.0 == want { "ok" } else { "wrong" }));
            if r.is_err() || pen.0 != want {
                st.oracle_failure(json!({
                    "key": if name == "control" { "draw:repro-control".to_string() } else { FINDING_1.to_string() },
                    "what": "triangle (0,0),(100,0),(50,80); tuple A peak 1.0 = 7 x optional(0,0); tuple B peak 1.0 = required (10,20) x3 + required (0,0) x4; drawn unscaled at [1.0]",
                    "expected": format!("{:?}", want), "drawn": format!("{:?}", pen.0),
                }));
            }
        }
    }

    /// exact meaning of a glyph's variation data at a location: per point/entry sum of scalar * (stored or inferred) delta,
    /// the allowed |drawn - exact| (final rounding + 16.16 arithmetic + tolerance of optional deltas), number of active tuples
    fn exact_sum(g: &GlyphIn, loc: &[i16], infer: bool) -> (Vec<(Fr, Fr)>, f64, usize) {
        let n = g.coords.len();
        let mut sum: Vec<(Fr, Fr)> = vec![(Fr::int(0), Fr::int(0)); n];
        let mut active = 0;
        let mut slack = 0.5 + 0.02;
        for t in &g.tuples {
            let Some(s) = tent_scalar(&t.tents, loc) else { continue };
            active += 1;
            let dense = t.deltas.iter().all(|d| d.required);
            // what the compiled table means: stored values equal the inputs; for omitted points the meaning is the
            // specification's inference from the retained ones
            let inf = if dense || !infer {
                vec![]
            } else {
                let retained: Vec<Option<(i64, i64)>> = t.deltas.iter().map(|d| d.required.then_some((d.x as i64, d.y as i64))).collect();
                infer_all(&g.coords, &retained, &g.ends)
            };
            for i in 0..n {
                let d = if dense || !infer || t.deltas[i].required { (Fr::int(t.deltas[i].x as i128), Fr::int(t.deltas[i].y as i128)) } else { inf[i] };
                sum[i] = (sum[i].0.add(s.mul(d.0)), sum[i].1.add(s.mul(d.1)));
            }
            // 16.16 arithmetic: the scalar is rounded per axis (<= 2^-17 each, relative to the delta) and so is the product
            let maxd = t.deltas.iter().map(|d| (d.x as f64).abs().max((d.y as f64).abs())).fold(0.0, f64::max);
            slack += maxd * (loc.len() as f64 + 1.0) / 65536.0;
            // dense-or-sparse ambiguity: a tuple stored densely although some deltas are optional carries the (rounded)
            // input delta instead of the inferred one; both are within the tolerance of the wanted delta
            if !dense {
                slack += to_f64(s).abs() * (t.tol.0 as f64 / t.tol.1 as f64);
            }
        }
        (sum, slack, active)
    }

    /// exact reference of a (possibly nested) glyph: per emitted point (base point, exact delta), the allowed difference
    /// (one final rounding per nesting level that has active deltas + 16.16 terms) and the number of active tuples.
    /// A composite places each component at its own offset + exact offset-delta sum, recursively.
    fn expected_points(gi: usize, glyphs: &[GlyphIn], comps: &[Option<Vec<(usize, i64, i64)>>], loc: &[i16], st: &mut Stats, depth: usize)
        -> (Vec<((i64, i64), (Fr, Fr))>, f64, usize) {
        let g = &glyphs[gi];
        match &comps[gi] {
            None => {
                let (sum, sl, ac) = exact_sum(g, loc, true);
                if depth > 0 {
                    st.count(if g.tuples.is_empty() { "draw.component_without_data" } else { "draw.component_with_data" });
                }
                ((0..g.coords.len() - 4).map(|i| (g.coords[i], sum[i])).collect(), sl, ac)
            }
            Some(cs) => {
                let (osum, osl, oac) = exact_sum(g, loc, false);
                let mut out = vec![];
                let mut ac = oac;
                let mut child_slack: f64 = 0.0;
                for (ci, c) in cs.iter().enumerate() {
                    if comps[c.0].is_some() {
                        st.count(&format!("draw.nested_composite_component_depth{}_slot{}{}", depth + 1, ci.min(2), if oac > 0 && !glyphs[c.0].tuples.is_empty() { "_both_with_offset_deltas" } else { "" }));
                    }
                    let (pts, csl, cac) = expected_points(c.0, glyphs, comps, loc, st, depth + 1);
                    ac += cac;
                    child_slack = child_slack.max(csl);
                    for (b, d) in pts {
                        out.push(((b.0 + c.1, b.1 + c.2), (d.0.add(osum[ci].0), d.1.add(osum[ci].1))));
                    }
                }
                (out, child_slack + if oac > 0 { osl } else { 0.0 }, ac)
            }
        }
    }

    /// Fonts mixing simple glyphs WITH and WITHOUT variation data and composites whose components alternate between
    /// them (both orders, optional component-offset deltas), drawn unscaled at many locations in shuffled sequences, with
    /// fresh memory or through ONE reused caller-provided buffer, in both path styles (two scaler implementations).
    /// Expected = base outline + sum scalar * delta; nothing for glyphs without data.
    // --------------------------------------------------------------------------------------------
    // (e) inference of missing deltas through the unscaled draw (shards of type `gcase`, C10.IupApplyModel)
    // --------------------------------------------------------------------------------------------

    fn iupapply_delta(rng: &mut Rng) -> (i64, i64) {
        match rng.below(4) {
            0 => (rng.range(-20, 20), rng.range(-20, 20)),
            1 => (rng.range(-3000, 3000), rng.range(-3000, 3000)),
            2 => (rng.range(-300, 300), 0),
            _ => (rng.range(-100, 100), rng.range(-100, 100)),
        }
    }

    /// hand-made glyph: 1-3 contours of 3-8 points on a small grid (equal coordinates among points are frequent) and 1-4 tuples
    /// whose referenced (required) points follow a per-contour pattern: none / one (any, first, last) / a pair (preferably sharing
    /// x or y, with equal or different deltas) / a subset / all.
    fn iupapply_hand_glyph(rng: &mut Rng, axis_count: usize) -> GlyphIn {
        let ncont = rng.range(1, 3) as usize;
        let mut coords: Vec<(i64, i64)> = vec![];
        let mut ends = vec![];
        let grid = [-50i64, -20, 0, 10, 50];
        for _ in 0..ncont {
            let n = rng.range(3, 8) as usize;
            for _ in 0..n {
                let x = if rng.chance(1, 2) { *rng.pick(&grid) } else { rng.range(-50, 50) };
                let y = if rng.chance(1, 2) { *rng.pick(&grid) } else { rng.range(-50, 50) };
                coords.push((x, y));
            }
            ends.push(coords.len() - 1);
        }
        let npts = coords.len();
        coords.extend([(0, 0), (rng.range(60, 200), 0), (0, 0), (0, 0)]);
        let real_ends = ends.clone();
        for k in 0..4 {
            ends.push(npts + k);
        }
        let ntup = rng.range(1, 4) as usize;
        let mut tuples = vec![];
        for _ in 0..ntup {
            let tents: Vec<_> = loop {
                let t: Vec<_> = (0..axis_count).map(|_| random_tent(rng)).collect();
                if t.iter().any(|x| x.0 != 0) {
                    break t;
                }
            };
            let mut req = vec![false; npts + 4];
            let mut val: Vec<(i64, i64)> = (0..npts + 4).map(|_| (rng.range(200, 3000), rng.range(-3000, -200))).collect();
            let mut start = 0usize;
            for &e in &real_ends {
                let idx: Vec<usize> = (start..=e).collect();
                match rng.below(8) {
                    0 | 1 => {} // contour without any referenced point
                    2 => req[*rng.pick(&idx)] = true,
                    3 => req[start] = true,
                    4 => req[e] = true,
                    5 => {
                        // a pair, preferably sharing a coordinate
                        let mut pairs = vec![];
                        for a in &idx {
                            for b in &idx {
                                if a < b && (coords[*a].0 == coords[*b].0 || coords[*a].1 == coords[*b].1) {
                                    pairs.push((*a, *b));
                                }
                            }
                        }
                        let (a, b) = if pairs.is_empty() || rng.chance(1, 4) {
                            let a = *rng.pick(&idx);
                            let b = *rng.pick(&idx);
                            (a, b)
                        } else {
                            *rng.pick(&pairs)
                        };
                        req[a] = true;
                        req[b] = true;
                        val[a] = iupapply_delta(rng);
                        val[b] = if rng.chance(1, 2) { val[a] } else { iupapply_delta(rng) };
                        start = e + 1;
                        continue;
                    }
                    6 => {
                        for i in &idx {
                            if rng.chance(1, 2) {
                                req[*i] = true;
                            }
                        }
                    }
                    _ => {
                        for i in &idx {
                            req[*i] = true;
                        }
                    }
                }
                for i in &idx {
                    if req[*i] {
                        val[*i] = iupapply_delta(rng);
                    }
                }
                start = e + 1;
            }
            for k in 0..4 {
                if rng.chance(1, 5) {
                    req[npts + k] = true;
                    val[npts + k] = (rng.range(-40, 40), 0);
                }
            }
            if !req.iter().any(|r| *r) {
                let i = rng.range(0, npts as i64 - 1) as usize;
                req[i] = true;
                val[i] = iupapply_delta(rng);
            }
            if req.iter().all(|r| *r) {
                req[npts + 3] = false;
            }
            let deltas: Vec<GlyphDelta> = (0..npts + 4).map(|i| if req[i] { GlyphDelta::required(val[i].0 as i16, val[i].1 as i16) } else { GlyphDelta::optional(val[i].0 as i16, val[i].1 as i16) }).collect();
            tuples.push(TupleIn { tents, raw: val, deltas, tol: (1, 1) });
        }
        GlyphIn { coords, ends, tuples }
    }

    /// Third family of shards (`gcase`, checked by C10.IupApplyModel.check_gcase): simple glyphs drawn by skrifa unscaled,
    /// unhinted, PathStyle::FreeType, next to the active tuples (read back with read-fonts, scalar from the real compute_scalar).
    /// Returns (cases, shards).
    pub fn iup_apply_part(rng: &mut Rng, st: &mut Stats, dir: &std::path::Path, first_shard_index: usize, thorough: bool) -> (usize, usize) {
        use read_fonts::TableProvider;
        use skrifa::outline::pen::PathStyle;
        let tmp = dir.join("iupapply_tmp");
        let mut cw = CaseWriter::new(
            &tmp,
            "From Coq Require Import ZArith List. Import ListNotations. Open Scope Z_scope.\nFrom FV Require Import Lib.Cases C10.ApplyModel C10.IupApplyModel.",
            "gcase",
            "check_gcase",
            150,
        );
        let target = if thorough { 1800 } else { 600 };
        let mut made = 0usize;
        let mut no_active = 0usize;
        let mut guard = 0usize;
        while made < target && guard < 50 * target {
            guard += 1;
            let axis_count = rng.range(1, 2) as usize;
            let nglyphs = rng.range(1, 3) as usize;
            let mut glyphs: Vec<GlyphIn> = vec![];
            for _ in 0..nglyphs {
                let g = if rng.chance(3, 5) {
                    st.count("iupapply.hand_glyphs");
                    iupapply_hand_glyph(rng, axis_count)
                } else {
                    st.count("iupapply.random_glyphs");
                    let mut g = random_glyph(rng, axis_count, false);
                    g.tuples.truncate(4);
                    g
                };
                if g.coords.len() <= 28 && g.coords.len() > 4 {
                    glyphs.push(g);
                }
            }
            if glyphs.is_empty() {
                continue;
            }
            let comps = vec![None; glyphs.len()];
            let bytes = match build_font(&glyphs, &comps, axis_count) {
                Ok(b) => b,
                Err(_) => {
                    st.count("iupapply.font_build_failed");
                    continue;
                }
            };
            let Ok(font) = skrifa::FontRef::new(&bytes) else {
                st.count("iupapply.font_parse_failed");
                continue;
            };
            let Ok(gvar) = font.gvar() else {
                st.count("iupapply.gvar_missing");
                continue;
            };
            let og = font.outline_glyphs();
            for (gi, g) in glyphs.iter().enumerate() {
                let n = g.coords.len();
                let n_outline = n - 4;
                let real_ends: Vec<usize> = g.ends.iter().copied().filter(|e| *e < n_outline).collect();
                let Some(glyph) = og.get(GlyphId::new(gi as u32)) else {
                    st.count("iupapply.outline_glyph_missing");
                    continue;
                };
                let tuples: Vec<_> = match gvar.glyph_variation_data(GlyphId::new(gi as u32)) {
                    Ok(Some(d)) => d.tuples().collect(),
                    Ok(None) => vec![],
                    Err(_) => {
                        st.count("iupapply.glyph_variation_data_failed");
                        continue;
                    }
                };
                // locations: peaks, 0, halves, region bounds, random
                let mut cand: Vec<Vec<i16>> = vec![vec![0, 16384, -16384]; axis_count];
                for t in &g.tuples {
                    for (i, (p, im)) in t.tents.iter().enumerate() {
                        cand[i].extend([*p, *p, p / 2, p / 3]);
                        if let Some((a, b)) = im {
                            cand[i].extend([*a, *b, ((*a as i32 + *p as i32) / 2) as i16, ((*b as i32 + *p as i32) / 2) as i16]);
                        }
                    }
                }
                let nloc = 5;
                for _ in 0..nloc {
                    if made >= target {
                        break;
                    }
                    let loc: Vec<i16> = (0..axis_count).map(|i| if rng.chance(1, 5) { rng.range(-16384, 16384) as i16 } else { *rng.pick(&cand[i]) }).collect();
                    let locf: Vec<F2Dot14> = loc.iter().map(|b| F2Dot14::from_bits(*b)).collect();
                    // active tuples, in gvar order
                    let mut active: Vec<(i32, Option<Vec<u16>>, Vec<i32>, Vec<i32>)> = vec![];
                    for t in &tuples {
                        let Some(s) = t.compute_scalar(&locf) else { continue };
                        let pts = if t.has_deltas_for_all_points() { None } else { Some(t.point_numbers().collect::<Vec<u16>>()) };
                        let (xs, ys): (Vec<i32>, Vec<i32>) = t.deltas().map(|d| (d.x_delta, d.y_delta)).unzip();
                        active.push((s.to_bits(), pts, xs, ys));
                    }
                    if active.is_empty() {
                        if no_active * 12 > made + 12 {
                            continue;
                        }
                        no_active += 1;
                    }
                    st.evaluations += 1;
                    let mut pen = Pts::default();
                    let res = catch(std::panic::AssertUnwindSafe(|| {
                        let ds = DrawSettings::unhinted(Size::unscaled(), LocationRef::new(&locf)).with_path_style(PathStyle::FreeType);
                        glyph.draw(ds, &mut pen).map(|_| ()).map_err(|e| format!("{e}"))
                    }));
                    let key = format!("iupapply:{:?}:{:?}:{:?}:loc{:?}", &g.coords, real_ends, active, loc);
                    if !matches!(res, Ok(Ok(()))) {
                        st.count("iupapply.draw_failed");
                        st.oracle_failure(json!({"key": format!("{}:draw", key), "what": "unscaled draw of a simple glyph fails", "res": format!("{:?}", res)}));
                        continue;
                    }
                    if pen.0.len() != n_outline || pen.1 != 0 {
                        st.count("iupapply.skipped_point_count");
                        continue;
                    }
                    if pen.0.iter().any(|p| p.0.fract() != 0.0 || p.1.fract() != 0.0) {
                        st.count("iupapply.skipped_fractional");
                        continue;
                    }
                    let drawn: Vec<(i64, i64)> = pen.0.iter().map(|p| (p.0 as i64, p.1 as i64)).collect();
                    st.count("iupapply.cases");
                    if active.is_empty() {
                        st.count("iupapply.no_active_tuple");
                    }
                    if active.len() > 1 {
                        st.count("iupapply.several_active_tuples");
                    }
                    if drawn.iter().zip(&g.coords).any(|(a, b)| a != b) {
                        st.count("iupapply.outline_moved");
                    }
                    for (_, pts, _, _) in &active {
                        let Some(pts) = pts else {
                            st.count("iupapply.dense_tuples");
                            continue;
                        };
                        st.count("iupapply.sparse_tuples");
                        if pts.iter().any(|p| *p as usize >= n_outline) {
                            st.count("iupapply.sparse_refs_phantom");
                        }
                        let mut start = 0usize;
                        for &e in &real_ends {
                            let refs: Vec<usize> = (start..=e).filter(|i| pts.contains(&(*i as u16))).collect();
                            match refs.len() {
                                0 => st.count("iupapply.contour_without_ref"),
                                1 => st.count("iupapply.single_ref_contour"),
                                _ => {
                                    st.count("iupapply.multi_ref_contour");
                                    if refs.len() < e + 1 - start {
                                        st.count("iupapply.contour_with_inferred_points");
                                    }
                                    for k in 0..refs.len() {
                                        let (a, b) = (refs[k], refs[(k + 1) % refs.len()]);
                                        if g.coords[a].0 == g.coords[b].0 || g.coords[a].1 == g.coords[b].1 {
                                            st.count("iupapply.equal_ref_coords");
                                            break;
                                        }
                                    }
                                }
                            }
                            start = e + 1;
                        }
                    }
                    // oracle: a single active sparse tuple leaves its explicit deltas on the referenced points
                    if let [(scalar, Some(pts), xs, ys)] = &active[..] {
                        st.count("iupapply.oracle_single_sparse");
                        // ScaledOutline::new (skrifa outline.rs:142) subtracts the final phantom[0].x (base 0 in these fonts + its
                        // rounded delta; phantom points are in no contour, so only an explicit reference moves them) from every x
                        let ph0: i64 = pts.iter().enumerate().filter(|(_, p)| **p as usize == n_outline).map(|(j, _)| xs[j] as i64 * *scalar as i64).sum();
                        let ph0_shift = g.coords[n_outline].0 + ((ph0 + 0x8000) >> 16);
                        if ph0_shift != 0 {
                            st.count("iupapply.oracle_phantom0_shift");
                        }
                        for (j, p) in pts.iter().enumerate() {
                            let i = *p as usize;
                            if i >= n_outline || pts.iter().filter(|q| *q == p).count() != 1 {
                                continue;
                            }
                            let rnd = |d: i32| (d as i64 * *scalar as i64 + 0x8000) >> 16;
                            let want = (g.coords[i].0 + rnd(xs[j]) - ph0_shift, g.coords[i].1 + rnd(ys[j]));
                            if drawn[i] != want {
                                st.oracle_failure(json!({"key": format!("{}:ref", key), "what": "referenced point of the only active (sparse) tuple is not drawn at base + round(delta * scalar) - phantom[0].x", "phantom0_shift": ph0_shift,
                                    "point": i, "base": [g.coords[i].0, g.coords[i].1], "delta": [xs[j], ys[j]], "scalar_bits": scalar, "drawn": [drawn[i].0, drawn[i].1], "want": [want.0, want.1], "loc": loc}));
                                break;
                            }
                        }
                    }
                    st.nontrivial(&key);
                    let cpts = |v: &[(i64, i64)]| clist(v.iter(), |(x, y)| format!("({}, {})", cz(*x as i128), cz(*y as i128)));
                    cw.push(format!(
                        "GDraw {} {} {} {}",
                        cpts(&g.coords),
                        czlist(real_ends.iter().map(|e| *e as i128)),
                        clist(active.iter(), |(s, pts, xs, ys)| format!(
                            "({}, {}, {}, {})",
                            cz(*s as i128),
                            copt(pts.as_ref().map(|p| czlist(p.iter().map(|v| *v as i128)))),
                            czlist(xs.iter().map(|v| *v as i128)),
                            czlist(ys.iter().map(|v| *v as i128))
                        )),
                        cpts(&drawn)
                    ));
                    made += 1;
                }
            }
        }
        st.v.insert("iupapply_cases".into(), made.into());
        let shards = cw.finish();
        for k in 0..shards {
            std::fs::rename(tmp.join(format!("cases_{}.v", k)), dir.join(format!("cases_{}.v", first_shard_index + k))).unwrap();
        }
        let _ = std::fs::remove_dir_all(&tmp);
        st.v.insert("iupapply_first_shard".into(), first_shard_index.into());
        st.v.insert("iupapply_shards".into(), shards.into());
        (cw.len(), shards)
    }

    pub fn draw_part(rng: &mut Rng, st: &mut Stats, thorough: bool) {
        use skrifa::outline::pen::PathStyle;
        finding_1_repro(st);
        let nfonts = if thorough { 600 } else { 120 };
        let mut membuf = vec![0u8; 1 << 18];
        for fi in 0..nfonts {
            let axis_count = rng.range(1, 2) as usize;
            let nsimple = rng.range(2, 4) as usize;
            let mut glyphs: Vec<GlyphIn> = vec![];
            while glyphs.len() < nsimple {
                let mut g = if fi % 3 == 1 { sparse_word_glyph(rng, axis_count, fi % 12 == 1 && glyphs.is_empty(), false) } else { random_glyph(rng, axis_count, false) };
                // contours of at least 3 points
                let mut start = 0;
                let mut ok = true;
                for &e in &g.ends[..g.ends.len() - 4] {
                    if e + 1 - start < 3 {
                        ok = false;
                    }
                    start = e + 1;
                }
                if !ok {
                    continue;
                }
                // glyphs without any variation data, mixed with glyphs that have some
                if rng.chance(1, 3) || (fi % 2 == 0 && glyphs.len() == 1 && !glyphs[0].tuples.is_empty()) {
                    g.tuples.clear();
                }
                glyphs.push(g);
            }
            let mut comps: Vec<Option<Vec<(usize, i64, i64)>>> = vec![None; nsimple];
            let ncomposite = rng.range(0, 3) as usize;
            let mut depth_of: Vec<usize> = vec![0; nsimple];
            for _ in 0..ncomposite {
                let nc = rng.range(2, 3) as usize;
                // nested composites (depth <= 3): an earlier composite becomes the component in slot 0 / 1 / last
                let inner: Vec<usize> = (nsimple..glyphs.len()).filter(|i| depth_of[*i] < 3).collect();
                let nested_slot: Option<(usize, usize)> = if !inner.is_empty() && rng.chance(3, 4) { Some((rng.below(nc as u64) as usize, *rng.pick(&inner))) } else { None };
                // alternate varying / non-varying children when both kinds exist, in either order
                let with: Vec<usize> = (0..nsimple).filter(|i| !glyphs[*i].tuples.is_empty()).collect();
                let without: Vec<usize> = (0..nsimple).filter(|i| glyphs[*i].tuples.is_empty()).collect();
                let first_varies = rng.chance(1, 2);
                let cs: Vec<(usize, i64, i64)> = (0..nc)
                    .map(|k| {
                        let pool = if with.is_empty() || without.is_empty() || rng.chance(1, 5) {
                            (0..nsimple).collect::<Vec<_>>()
                        } else if (k % 2 == 0) == first_varies {
                            with.clone()
                        } else {
                            without.clone()
                        };
                        let child = match nested_slot {
                            Some((slot, inner_gid)) if slot == k => inner_gid,
                            _ => *rng.pick(&pool),
                        };
                        (child, rng.range(-300, 300), rng.range(-300, 300))
                    })
                    .collect();
                depth_of.push(1 + cs.iter().map(|c| depth_of[c.0]).max().unwrap_or(0));
                let mut coords: Vec<(i64, i64)> = cs.iter().map(|c| (c.1, c.2)).collect();
                coords.extend([(0, 0), (rng.range(200, 900), 0), (0, 0), (0, 0)]);
                let ends: Vec<usize> = (0..nc + 4).collect();
                let ntup = if rng.chance(1, 3) { 0 } else { rng.range(1, 2) as usize };
                let tuples: Vec<TupleIn> = (0..ntup)
                    .map(|_| {
                        let tents: Vec<_> = loop {
                            let t: Vec<_> = (0..axis_count).map(|_| random_tent(rng)).collect();
                            if t.iter().any(|x| x.0 != 0) {
                                break t;
                            }
                        };
                        let mut raw: Vec<(i64, i64)> = (0..nc).map(|_| (rng.range(-80, 80), rng.range(-80, 80))).collect();
                        raw.extend([(0, 0), (rng.range(-30, 30), 0), (0, 0), (0, 0)]);
                        let deltas = raw.iter().map(|d| GlyphDelta::required(d.0 as i16, d.1 as i16)).collect();
                        TupleIn { tents, raw, deltas, tol: (0, 1) }
                    })
                    .collect();
                glyphs.push(GlyphIn { coords, ends, tuples });
                comps.push(Some(cs));
            }
            let key = format!("draw:seed-font-{}", fi);
            st.evaluations += 1;
            st.count("draw.fonts");
            st.add("draw.glyphs_without_variation_data", glyphs.iter().filter(|g| g.tuples.is_empty()).count() as u64);
            st.add("draw.glyphs_with_variation_data", glyphs.iter().filter(|g| !g.tuples.is_empty()).count() as u64);
            st.add("draw.composite_glyphs", ncomposite as u64);
            let bytes = match build_font(&glyphs, &comps, axis_count) {
                Ok(b) => b,
                Err(e) => {
                    st.count("draw.font_build_failed");
                    st.oracle_failure(json!({"key": key, "what": "cannot assemble the variable font", "err": e}));
                    continue;
                }
            };
            let Ok(font) = skrifa::FontRef::new(&bytes) else {
                st.oracle_failure(json!({"key": key, "what": "assembled font does not parse"}));
                continue;
            };
            let og = font.outline_glyphs();
            // locations: per axis from {0, peaks, starts, ends, midpoints, +-1, random}
            let mut cand: Vec<Vec<i16>> = vec![vec![0, 16384, -16384, 8192, -8192, 1, -1]; axis_count];
            for g in &glyphs {
                for t in &g.tuples {
                    for (i, (p, im)) in t.tents.iter().enumerate() {
                        cand[i].push(*p);
                        if let Some((a, b)) = im {
                            cand[i].extend([*a, *b, ((*a as i32 + *p as i32) / 2) as i16, ((*b as i32 + *p as i32) / 2) as i16]);
                        } else {
                            cand[i].push(p / 2);
                            cand[i].push(p / 3);
                        }
                    }
                }
            }
            let reuse_memory = fi % 2 == 0;
            st.count(if reuse_memory { "draw.fonts_reused_memory_buffer" } else { "draw.fonts_fresh_memory" });
            let nloc = if thorough { 40 } else { 24 };
            let mut prev_had_data = false;
            for li in 0..nloc {
                let loc: Vec<i16> = (0..axis_count).map(|i| if rng.chance(1, 6) { rng.range(-16384, 16384) as i16 } else { *rng.pick(&cand[i]) }).collect();
                let locf: Vec<F2Dot14> = loc.iter().map(|b| F2Dot14::from_bits(*b)).collect();
                let mut order: Vec<usize> = (0..glyphs.len()).collect();
                rng.shuffle(&mut order);
                for gi in order {
                    let g = &glyphs[gi];
                    st.evaluations += 1;
                    st.count("draw.draws");
                    let Some(glyph) = og.get(GlyphId::new(gi as u32)) else {
                        st.oracle_failure(json!({"key": key, "glyph": gi, "what": "outline glyph missing"}));
                        continue;
                    };
                    let style = if rng.chance(1, 2) { PathStyle::FreeType } else { PathStyle::HarfBuzz };
                    let mut pen = Pts::default();
                    let res = catch(std::panic::AssertUnwindSafe(|| {
                        let mut ds = DrawSettings::unhinted(Size::unscaled(), LocationRef::new(&locf)).with_path_style(style);
                        if reuse_memory {
                            ds = ds.with_memory(Some(&mut membuf[..]));
                        }
                        glyph.draw(ds, &mut pen).map(|_| ()).map_err(|e| format!("{e}"))
                    }));
                    match res {
                        Ok(Ok(())) => {}
                        other => {
                            st.oracle_failure(json!({"key": key, "glyph": gi, "loc": loc, "what": "draw failed", "res": format!("{:?}", other)}));
                            continue;
                        }
                    }
                    // exact reference: (base point, exact delta) per emitted point, and the allowed difference
                    let (expect, slack, active) = expected_points(gi, &glyphs, &comps, &loc, st, 0);
                    if active > 0 {
                        st.count("draw.draws_with_active_tuples");
                    }
                    if g.tuples.is_empty() && comps[gi].is_none() {
                        st.count(if prev_had_data { "draw.no_data_glyph_drawn_after_glyph_with_active_deltas" } else { "draw.no_data_glyph_drawn" });
                    }
                    prev_had_data = active > 0;
                    if pen.0.len() != expect.len() || pen.1 != 0 {
                        st.count("draw.unexpected_path_shape");
                        st.oracle_failure(json!({"key": key, "glyph": gi, "loc": loc, "what": "path has unexpected shape", "points": pen.0.len(), "expected": expect.len()}));
                        continue;
                    }
                    for (i, (base, d)) in expect.iter().enumerate() {
                        let ex = base.0 as f64 + to_f64(d.0);
                        let ey = base.1 as f64 + to_f64(d.1);
                        let (dx, dy) = (pen.0[i].0 as f64 - ex, pen.0[i].1 as f64 - ey);
                        if dx.abs() > slack || dy.abs() > slack {
                            // finding F-C10-1: an active tuple none of whose deltas is required is written as
                            // "all points" without delta data; skrifa then drops every delta of the glyph
                            let f1 = comps[gi].is_none()
                                && g.tuples.iter().any(|t| t.deltas.iter().all(|d| !d.required))
                                && pen.0.iter().zip(&g.coords).all(|(a, b)| (a.0 as f64, a.1 as f64) == (b.0 as f64, b.1 as f64));
                            let fkey = if f1 { FINDING_1.to_string() } else { format!("{}:glyph{}:loc{:?}", key, gi, loc) };
                            if f1 {
                                // keep the (capped) failure list free for anything new
                                st.count("draw.finding_1_random_hits");
                                if st.counters["draw.finding_1_random_hits"] > 2 {
                                    break;
                                }
                            }
                            st.oracle_failure(json!({
                                "key": fkey,
                                "font": key, "glyph": gi, "loc": loc, "point": i,
                                "what": "drawn point differs from base outline + sum(scalar * delta) by more than the final rounding",
                                "drawn": [pen.0[i].0, pen.0[i].1], "expected": [ex, ey], "base": [base.0, base.1],
                                "composite": format!("{:?}", comps[gi]), "glyph_has_variation_data": !g.tuples.is_empty(),
                                "reused_memory_buffer": reuse_memory, "path_style": format!("{:?}", style),
                                "tuples": g.tuples.iter().map(|t| json!({"tents": format!("{:?}", t.tents), "all_zero": t.raw.iter().all(|d| *d == (0, 0)), "required": t.deltas.iter().filter(|d| d.required).count()})).collect::<Vec<_>>(),
                            }));
                            break;
                        }
                    }
                    if li == 0 {
                        st.nontrivial(&format!("{}:{}:{:?}", key, gi, loc));
                    }
                }
            }
        }
    }
}
