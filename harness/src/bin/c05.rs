//! C05 harness: arbitrary object DAGs compiled through the PUBLIC write-fonts API
//! (`FontWrite` + `TableWriter::{write_slice, write_offset}` + `dump_table`), compared with the
//! Coq model (coq/C05/Model.v `check_case`) and checked by an implementation-only oracle: an
//! independent walker that follows the INPUT description through the OUTPUT bytes (the `Resolves`
//! predicate of coq/C05/Proofs.v re-implemented in Rust).
//!
//! This file is also included as a module by c07.rs (`#[path] mod`), hence the `pub` items.
#![allow(dead_code)]
use serde_json::json;
use std::collections::HashSet;
use vh::*;
use write_fonts::validate::{Validate, ValidationCtx};
use write_fonts::{dump_table, FontWrite, TableWriter};

#[derive(Clone, Debug, PartialEq, Eq, Hash)]
pub enum Item {
    /// write_slice(&vec![b; n])
    Run(u8, usize),
    /// write_slice(&l)
    Lit(Vec<u8>),
    /// write_offset(&node[child], width)
    Link(usize, usize),
}

/// node 0 is the root; links only go to larger indices (so the description is a DAG)
#[derive(Clone, Debug, PartialEq, Eq, Hash)]
pub struct Dag {
    pub nodes: Vec<Vec<Item>>,
}

pub struct NodeRef<'a> {
    pub dag: &'a Dag,
    pub idx: usize,
}

impl FontWrite for NodeRef<'_> {
    fn write_into(&self, w: &mut TableWriter) {
        for it in &self.dag.nodes[self.idx] {
            match it {
                Item::Run(b, n) => w.write_slice(&vec![*b; *n]),
                Item::Lit(l) => w.write_slice(l),
                Item::Link(width, c) => w.write_offset(&NodeRef { dag: self.dag, idx: *c }, *width),
            }
        }
    }
}
impl Validate for NodeRef<'_> {
    fn validate_impl(&self, _ctx: &mut ValidationCtx) {}
}

#[derive(Clone, Debug, PartialEq, Eq)]
pub enum Outcome {
    Bytes(Vec<u8>),
    PackingFailed,
    OtherErr(String),
    Panic(String),
}

pub fn compile(dag: &Dag) -> Outcome {
    let r = catch(std::panic::AssertUnwindSafe(|| dump_table(&NodeRef { dag, idx: 0 })));
    match r {
        Ok(Ok(b)) => Outcome::Bytes(b),
        Ok(Err(write_fonts::error::Error::PackingFailed(_))) => Outcome::PackingFailed,
        Ok(Err(e)) => Outcome::OtherErr(format!("{e}")),
        Err(p) => Outcome::Panic(p),
    }
}

impl Dag {
    pub fn node_size(&self, i: usize) -> usize {
        self.nodes[i]
            .iter()
            .map(|it| match it {
                Item::Run(_, n) => *n,
                Item::Lit(l) => l.len(),
                Item::Link(w, _) => (*w).min(4),
            })
            .sum()
    }
    pub fn has_width(&self, w: usize) -> bool {
        self.nodes.iter().flatten().any(|it| matches!(it, Item::Link(x, _) if *x == w))
    }
    pub fn misuse_width(&self) -> bool {
        self.nodes.iter().flatten().any(|it| matches!(it, Item::Link(x, _) if !(2..=4).contains(x)))
    }
    pub fn n_links(&self) -> usize {
        self.nodes.iter().flatten().filter(|it| matches!(it, Item::Link(..))).count()
    }
    /// nodes reachable from the root
    pub fn reachable(&self) -> Vec<bool> {
        let mut seen = vec![false; self.nodes.len()];
        let mut st = vec![0usize];
        while let Some(i) = st.pop() {
            if seen[i] {
                continue;
            }
            seen[i] = true;
            for it in &self.nodes[i] {
                if let Item::Link(_, c) = it {
                    st.push(*c);
                }
            }
        }
        seen
    }
    /// number of root-to-node paths (= number of add_table calls the tree expansion makes)
    pub fn expansion(&self) -> u64 {
        let n = self.nodes.len();
        let mut cnt = vec![0u64; n];
        for i in (0..n).rev() {
            let mut c = 1u64;
            for it in &self.nodes[i] {
                if let Item::Link(_, ch) = it {
                    c = c.saturating_add(cnt[*ch]);
                }
            }
            cnt[i] = c;
        }
        cnt[0]
    }
    /// bytes written by the tree expansion (cost of one compilation)
    pub fn expansion_bytes(&self) -> u64 {
        let n = self.nodes.len();
        let mut cnt = vec![0u64; n];
        for i in (0..n).rev() {
            let mut c = self.node_size(i) as u64;
            for it in &self.nodes[i] {
                if let Item::Link(_, ch) = it {
                    c = c.saturating_add(cnt[*ch]);
                }
            }
            cnt[i] = c;
        }
        cnt[0]
    }
    pub fn coq(&self) -> String {
        clist(self.nodes.iter(), |items| {
            clist(items.iter(), |it| match it {
                Item::Run(b, n) => format!("IRun {} {}", b, n),
                Item::Lit(l) => format!("ILit {}", cbytes(l)),
                Item::Link(w, c) => format!("ILink {} {}%nat", w, c),
            })
        })
    }
    pub fn canon(&self) -> String {
        format!("{:?}", self.nodes)
    }
    pub fn key(&self) -> String {
        format!("dag-{:016x}", fnv(self.canon().as_bytes()))
    }
}

pub fn rle(b: &[u8]) -> Vec<(u8, usize)> {
    let mut v: Vec<(u8, usize)> = vec![];
    for x in b {
        match v.last_mut() {
            Some((c, n)) if *c == *x => *n += 1,
            _ => v.push((*x, 1)),
        }
    }
    v
}

/// Coq term of one correspondence case: (dag, (base, step), (tag, rle))
pub fn case_term(dag: &Dag, base: u64, step: u64, out: &Outcome) -> Option<String> {
    let (tag, r) = match out {
        Outcome::Bytes(b) => (0, rle(b)),
        Outcome::PackingFailed => (1, vec![]),
        Outcome::Panic(_) => (2, vec![]),
        Outcome::OtherErr(_) => return None,
    };
    Some(format!(
        "({}, ({}, {}), ({}, {}))",
        dag.coq(),
        base,
        step,
        tag,
        clist(r.iter(), |(b, n)| format!("({},{})", b, n))
    ))
}

// ---------------------------------------------------------------------------------------------
// implementation-only oracle: Resolves(out, pos, node) by following the INPUT description

pub struct Walk<'a> {
    pub dag: &'a Dag,
    pub out: &'a [u8],
    pub ok: HashSet<(usize, usize)>,
    pub visited_nodes: HashSet<usize>,
    pub max_off: [u64; 5],
}

impl<'a> Walk<'a> {
    pub fn new(dag: &'a Dag, out: &'a [u8]) -> Self {
        Walk { dag, out, ok: HashSet::new(), visited_nodes: HashSet::new(), max_off: [0; 5] }
    }
    /// Err(description) when the object `idx` is not correctly present at `pos`
    pub fn resolves(&mut self, idx: usize, pos: usize) -> Result<(), String> {
        if self.ok.contains(&(idx, pos)) {
            return Ok(());
        }
        self.visited_nodes.insert(idx);
        let mut cur = pos;
        for (k, it) in self.dag.nodes[idx].iter().enumerate() {
            match it {
                Item::Run(b, n) => {
                    let sl = self.out.get(cur..cur + n).ok_or_else(|| format!("node {idx} item {k}: run beyond end of output at {cur}"))?;
                    if let Some(j) = sl.iter().position(|x| x != b) {
                        return Err(format!("node {idx} at {pos}: byte {} differs (run item {k})", cur + j));
                    }
                    cur += n;
                }
                Item::Lit(l) => {
                    let sl = self.out.get(cur..cur + l.len()).ok_or_else(|| format!("node {idx} item {k}: literal beyond end of output at {cur}"))?;
                    if sl != &l[..] {
                        return Err(format!("node {idx} at {pos}: literal item {k} differs at {cur}"));
                    }
                    cur += l.len();
                }
                Item::Link(w, c) => {
                    let sl = self.out.get(cur..cur + w).ok_or_else(|| format!("node {idx} item {k}: offset field beyond end of output at {cur}"))?;
                    let v = sl.iter().fold(0u64, |a, b| a * 256 + *b as u64);
                    self.max_off[*w] = self.max_off[*w].max(v);
                    let target = pos as u64 + v;
                    if target > self.out.len() as u64 {
                        return Err(format!("node {idx} at {pos}: offset{} item {k} = {v} points beyond the output", w * 8));
                    }
                    self.resolves(*c, target as usize)
                        .map_err(|e| format!("node {idx} at {pos}: offset{} item {k} = {v} does not land on node {c}: {e}", w * 8))?;
                    cur += w;
                }
            }
        }
        self.ok.insert((idx, pos));
        Ok(())
    }
}

/// The property's wording on one compilation. Some(why) = violated.
pub fn oracle(dag: &Dag, out: &Outcome) -> Option<String> {
    match out {
        Outcome::Bytes(b) => {
            let mut w = Walk::new(dag, b);
            if let Err(e) = w.resolves(0, 0) {
                return Some(e);
            }
            // every object reachable from the root is present (the walk reached it)
            let reach = dag.reachable();
            for (i, r) in reach.iter().enumerate() {
                if *r && !w.visited_nodes.contains(&i) {
                    return Some(format!("reachable node {i} never reached through the output"));
                }
            }
            None
        }
        Outcome::PackingFailed => None,
        Outcome::OtherErr(e) => Some(format!("unexpected error kind: {e}")),
        Outcome::Panic(p) => Some(format!("panic instead of bytes or PackingFailed: {p}")),
    }
}

// ---------------------------------------------------------------------------------------------
// generators

pub const SIZES: [usize; 12] = [0, 1, 2, 3, 100, 32766, 32767, 32768, 65534, 65535, 65536, 70000];
pub const SMALL: [usize; 5] = [0, 1, 2, 3, 100];

fn pick_width(rng: &mut Rng, mix: u32) -> usize {
    match mix {
        0 => 2,
        1 => *rng.pick(&[2, 2, 2, 3]),
        2 => *rng.pick(&[2, 2, 3, 4]),
        _ => *rng.pick(&[2, 4, 4, 3]),
    }
}

/// label + filler of `size` bytes in total (size 0 => no items at all)
fn body(label: Option<u8>, fill: u8, size: usize) -> Vec<Item> {
    let mut v = vec![];
    match label {
        Some(l) if size > 0 => {
            v.push(Item::Lit(vec![l]));
            if size > 1 {
                v.push(Item::Run(fill, size - 1));
            }
        }
        _ => {
            if size > 0 {
                v.push(Item::Run(fill, size));
            }
        }
    }
    v
}

/// random DAG: `n` nodes, node i links to larger indices; every node > 0 gets at least one parent
pub fn gen_random(rng: &mut Rng, n: usize, big_budget: usize, mix: u32, labelled: bool) -> Dag {
    let mut nodes: Vec<Vec<Item>> = vec![vec![]; n];
    let mut big_left = big_budget;
    // choose parents: for each node j>0 a set of parents < j
    let mut links: Vec<Vec<(usize, usize)>> = vec![vec![]; n]; // per parent: (child, width)
    let shape = rng.below(4);
    for j in 1..n {
        let np = match shape {
            0 => 1,                                   // tree / chain / fan
            1 => 1 + rng.below(2) as usize,           // some sharing
            2 => 1 + rng.below(3) as usize,           // diamonds
            _ => if rng.chance(1, 3) { j.min(3) } else { 1 },
        };
        let mut ps = HashSet::new();
        for _ in 0..np {
            let p = match shape {
                0 if rng.chance(1, 2) => j - 1,       // chain
                0 => 0,                               // fan
                _ => rng.below(j as u64) as usize,
            };
            ps.insert(p);
        }
        let mut ps: Vec<usize> = ps.into_iter().collect();
        ps.sort();
        for p in ps {
            links[p].push((j, pick_width(rng, mix)));
            // occasionally a second link from the same parent to the same child
            if rng.chance(1, 12) {
                links[p].push((j, pick_width(rng, mix)));
            }
        }
    }
    for i in 0..n {
        let size = if big_left > 0 && rng.chance(1, 2) {
            big_left -= 1;
            *rng.pick(&SIZES)
        } else {
            *rng.pick(&SMALL)
        };
        // boundary jitter
        let size = if size > 1000 && rng.chance(1, 3) { (size as i64 + rng.range(-12, 12)) as usize } else { size };
        let label = if labelled { Some(i as u8 + 1) } else { None };
        let fill = if labelled { 0x40 + i as u8 } else { 0x40 };
        let mut items = vec![];
        let b = body(label, fill, size);
        let ls = &mut links[i];
        if rng.chance(1, 4) {
            rng.shuffle(ls);
        }
        // interleave: links first / last / in the middle of the filler
        match rng.below(3) {
            0 => {
                items.extend(b);
                for (c, w) in ls.iter() {
                    items.push(Item::Link(*w, *c));
                }
            }
            1 => {
                if let Some(Item::Lit(l)) = b.first() {
                    items.push(Item::Lit(l.clone()));
                }
                for (c, w) in ls.iter() {
                    items.push(Item::Link(*w, *c));
                }
                items.extend(b.into_iter().filter(|x| !matches!(x, Item::Lit(_))));
            }
            _ => {
                let mut bi = b.into_iter();
                if let Some(x) = bi.next() {
                    items.push(x);
                }
                for (k, (c, w)) in ls.iter().enumerate() {
                    items.push(Item::Link(*w, *c));
                    if k == 0 {
                        items.push(Item::Lit(vec![0xee, i as u8]));
                    }
                }
                items.extend(bi);
            }
        }
        nodes[i] = items;
    }
    Dag { nodes }
}

/// straddling templates: the distance root -> last child is exactly max(width) + delta
pub fn gen_straddle(rng: &mut Rng) -> Dag {
    let w = *rng.pick(&[2usize, 2, 2, 3]);
    let max = if w == 2 { 65535i64 } else { 16777215 };
    let delta = rng.range(-2, 2);
    let w_first = *rng.pick(&[2usize, 3, 4]);
    let k = rng.below(3) as usize; // extra small children between
    // root: label + link(w_first -> A) + k links to small nodes + link(w -> B)
    let mut root = vec![Item::Lit(vec![1])];
    root.push(Item::Link(w_first, 1));
    for j in 0..k {
        root.push(Item::Link(2, 3 + j));
    }
    root.push(Item::Link(w, 2));
    let root_size = 1 + w_first + 2 * k + w;
    let small: Vec<usize> = (0..k).map(|_| *rng.pick(&[0usize, 1, 3, 100])).collect();
    // Kahn order: root, A(1), B(2), smalls...  => B at root_size + |A|. With shortest distance the
    // small ones go first. Aim at one of the two layouts.
    let before_b: i64 = if rng.chance(1, 2) { 0 } else { small.iter().map(|s| *s as i64).sum() };
    let a_size = (max + delta - root_size as i64 - before_b).max(0) as usize;
    if w == 3 && a_size > 200_000 {
        // keep 24-bit straddles cheap: use several chained big nodes instead? no: skip to 16-bit
        return gen_straddle(rng);
    }
    let mut nodes = vec![root, body(Some(2), 0x51, a_size), body(Some(3), 0x52, *rng.pick(&[1usize, 2, 100, 65535, 65536]))];
    for (j, s) in small.iter().enumerate() {
        nodes.push(body(Some(4 + j as u8), 0x60 + j as u8, *s));
    }
    // sometimes A also links B (diamond), sometimes B links a small node (chain)
    if rng.chance(1, 3) {
        nodes[1].push(Item::Link(*rng.pick(&[2usize, 3, 4]), 2));
    }
    if k > 0 && rng.chance(1, 3) {
        nodes[2].push(Item::Link(2, 3));
    }
    Dag { nodes }
}

/// graphs that need the advanced path: a wide (32-bit) link to a big subgraph that shares nodes
/// with the 16-bit part, so that space assignment has to duplicate them
pub fn gen_wide(rng: &mut Rng) -> Dag {
    let n_shared = 1 + rng.below(3) as usize;
    let n_roots = 1 + rng.below(3) as usize;
    let mut nodes: Vec<Vec<Item>> = vec![vec![Item::Lit(vec![1])]];
    // layout of indices: 0 root, 1 = short child S, then wide roots W_i, then big fillers, then shared leaves
    let s_idx = 1;
    let w0 = 2;
    let big0 = w0 + n_roots;
    let sh0 = big0 + n_roots;
    nodes.push(vec![Item::Lit(vec![2]), Item::Run(0x42, *rng.pick(&[10usize, 100, 32768]))]);
    for i in 0..n_roots {
        let mut v = vec![Item::Lit(vec![10 + i as u8])];
        v.push(Item::Link(2, big0 + i));
        v
            .extend((0..n_shared).filter(|_| rng.chance(2, 3)).map(|k| Item::Link(2, sh0 + k)));
        nodes.push(v);
    }
    for i in 0..n_roots {
        nodes.push(body(Some(20 + i as u8), 0x70 + i as u8, *rng.pick(&[32768usize, 65535, 65536, 70000, 40000])));
    }
    for k in 0..n_shared {
        nodes.push(body(Some(30 + k as u8), 0x7a, *rng.pick(&[1usize, 3, 100, 30000])));
    }
    // root: short link to S, wide links to W_i; S links the shared leaves with 16-bit offsets
    nodes[0].push(Item::Link(2, s_idx));
    for i in 0..n_roots {
        let w = if rng.chance(5, 6) { 4 } else { 2 };
        nodes[0].push(Item::Link(w, w0 + i));
    }
    for k in 0..n_shared {
        if rng.chance(3, 4) {
            nodes[s_idx].push(Item::Link(2, sh0 + k));
        }
    }
    // sometimes a wide root is also reachable through a 16-bit link (root duplication case)
    if rng.chance(1, 4) {
        nodes[s_idx].push(Item::Link(2, w0));
    }
    // sometimes one wide root links another
    if n_roots > 1 && rng.chance(1, 4) {
        nodes[w0].push(Item::Link(*rng.pick(&[2usize, 4]), w0 + 1));
    }
    Dag { nodes }
}

/// >= 2 distinct 32-bit spaces, each with >= 2 roots, each overflowing in the same isolation round:
/// pairs of wide roots W (32.8k) that share one 32.8k leaf through 16-bit links (the shape of a GSUB with
/// big single-subst lookups pairwise sharing a coverage table, all promoted to extension lookups)
pub fn gen_two_spaces(rng: &mut Rng) -> Dag {
    let pairs = 2 + rng.below(2) as usize; // 2 or 3 spaces
    let mut nodes: Vec<Vec<Item>> = vec![vec![Item::Lit(vec![1])]];
    let mut next = 1usize;
    let mut root_links = vec![];
    for p in 0..pairs {
        let k = 2 + rng.below(2) as usize; // roots in this space
        let shared = next + k;
        let cov = 32_790 + 10 * p + rng.below(8) as usize;
        for r in 0..k {
            let sz = 32_800 + 7 * r + rng.below(40) as usize;
            nodes.push(vec![Item::Lit(vec![10 + (p * 4 + r) as u8]), Item::Link(2, shared), Item::Run(0x50 + p as u8, sz)]);
            root_links.push(next);
            next += 1;
        }
        nodes.push(vec![Item::Lit(vec![40 + p as u8]), Item::Run(0x60 + p as u8, cov)]);
        next += 1;
    }
    if rng.chance(1, 2) {
        rng.shuffle(&mut root_links);
    }
    for w in root_links {
        nodes[0].push(Item::Link(4, w));
    }
    Dag { nodes }
}

/// ill-formed use of the API: offset widths outside {2,3,4}
pub fn gen_misuse(rng: &mut Rng) -> Dag {
    let n = 2 + rng.below(3) as usize;
    let mut d = gen_random(rng, n, 0, 1, true);
    let w = *rng.pick(&[0usize, 1, 5, 8]);
    let mut done = false;
    for items in d.nodes.iter_mut() {
        for it in items.iter_mut() {
            if let Item::Link(x, _) = it {
                if !done {
                    *x = w;
                    done = true;
                }
            }
        }
    }
    d
}

/// all DAG shapes on `n` nodes (each pair i<j: no link / 16 / 32 (n<=3: also 24)), sizes from `sizes`
pub fn exhaustive(n: usize, sizes: &[usize], widths: &[usize], mut f: impl FnMut(Dag)) {
    let pairs: Vec<(usize, usize)> = (0..n).flat_map(|i| (i + 1..n).map(move |j| (i, j))).collect();
    let opts = widths.len() + 1;
    let total_shapes = opts.pow(pairs.len() as u32);
    let total_sizes = sizes.len().pow(n as u32);
    for sh in 0..total_shapes {
        // decode
        let mut x = sh;
        let mut links: Vec<Vec<(usize, usize)>> = vec![vec![]; n];
        let mut has_parent = vec![false; n];
        for (i, j) in &pairs {
            let o = x % opts;
            x /= opts;
            if o > 0 {
                links[*i].push((*j, widths[o - 1]));
                has_parent[*j] = true;
            }
        }
        if (1..n).any(|j| !has_parent[j]) {
            continue;
        }
        for sz in 0..total_sizes {
            let mut y = sz;
            let mut nodes = vec![];
            for i in 0..n {
                let s = sizes[y % sizes.len()];
                y /= sizes.len();
                let mut items = body(Some(i as u8 + 1), 0x40 + i as u8, s);
                for (c, w) in &links[i] {
                    items.push(Item::Link(*w, *c));
                }
                nodes.push(items);
            }
            f(Dag { nodes });
        }
    }
}

/// fixed corpus: inputs of past findings (regression) and hand-made corner shapes
pub fn corpus() -> Vec<Dag> {
    use Item::*;
    vec![
        // finding "panic:cycle-or-something" (isolate_subgraph_hb did not redirect the wide links to a
        // duplicated space root; fixed in /repo e7f5dfb): minimal input
        Dag { nodes: vec![vec![Link(2, 1), Link(4, 2), Link(4, 3)], vec![Link(2, 2)], vec![Link(2, 4), Link(2, 5)], vec![Link(2, 5)], vec![Run(112, 65530)], vec![]] },
        // same, the root of the wide space is linked 16-bit AND 32-bit by the same parent
        Dag { nodes: vec![vec![Link(2, 2), Link(4, 2), Link(4, 3), Link(2, 1)], vec![Link(2, 2)], vec![Link(2, 4), Link(2, 5)], vec![Link(2, 5)], vec![Run(112, 65530)], vec![]] },
        Dag { nodes: vec![vec![Lit(vec![1]), Link(4, 2), Link(2, 2), Link(4, 3)], vec![Lit(vec![2])], vec![Lit(vec![3]), Link(2, 4), Link(2, 5)], vec![Lit(vec![4]), Link(2, 5)], vec![Run(112, 65530)], vec![Lit(vec![9])]] },
        // other shrunk inputs of the same finding
        Dag { nodes: vec![vec![Link(2, 1), Link(4, 4), Run(64, 65530)], vec![Link(2, 2), Link(4, 3)], vec![Link(2, 3)], vec![Link(2, 5)], vec![Link(4, 5)], vec![]] },
        Dag { nodes: vec![vec![Link(2, 1), Link(2, 3), Link(4, 4)], vec![Link(2, 2)], vec![Link(4, 3)], vec![Link(2, 5), Link(2, 6)], vec![Link(2, 6)], vec![Run(113, 65530)], vec![]] },
        Dag { nodes: vec![vec![Link(2, 1), Link(2, 2), Link(4, 3), Link(4, 4)], vec![], vec![Link(2, 5), Link(2, 3)], vec![Link(2, 6), Link(2, 7)], vec![Link(2, 7)], vec![Run(112, 32747)], vec![Run(113, 32767)], vec![]] },
        // after the first fix: a parent with a 16-bit AND a wide link to the same space root
        Dag { nodes: vec![vec![Link(2, 1), Link(4, 1), Link(2, 2), Run(64, 65525)], vec![Link(3, 2)], vec![]] },
        Dag { nodes: vec![vec![Link(2, 1), Link(2, 3)], vec![Link(2, 2), Link(4, 2)], vec![Link(2, 4)], vec![Run(67, 65531), Link(3, 4)], vec![]] },
        // after the second fix: a space root that is also a descendant of another duplicated space root
        Dag { nodes: vec![vec![Link(2, 1), Link(4, 2), Link(4, 3)], vec![Link(2, 2)], vec![Link(2, 4), Link(2, 5), Link(4, 3)], vec![Link(2, 5)], vec![Run(112, 65526)], vec![]] },
        // "index out of bounds" in find_root_of_space
        Dag { nodes: vec![vec![Lit(vec![1]), Link(4, 1), Link(4, 2), Link(2, 3), Link(4, 3), Link(4, 4), Link(3, 5), Link(4, 10), Run(64, 65535)], vec![], vec![Lit(vec![3]), Link(2, 3), Link(3, 4), Link(4, 6), Link(3, 7), Run(66, 1)], vec![Lit(vec![4]), Link(2, 7), Run(67, 65533)], vec![Lit(vec![5]), Run(68, 2)], vec![Lit(vec![6]), Run(69, 2), Link(4, 10)], vec![Lit(vec![7]), Link(2, 8), Link(2, 11), Link(3, 12), Run(70, 99)], vec![Lit(vec![8]), Link(4, 9), Lit(vec![238, 7]), Run(71, 32766)], vec![], vec![Lit(vec![10]), Run(73, 2)], vec![Lit(vec![11]), Run(74, 2)], vec![Lit(vec![12]), Run(75, 99)], vec![Lit(vec![13]), Run(76, 99)]] },
        // two 32-bit spaces with two roots each, both overflowing in the same isolation round
        // (seeded C07/m3: to_isolate BTreeMap -> HashMap)
        Dag { nodes: vec![
            vec![Lit(vec![1]), Link(4, 1), Link(4, 2), Link(4, 4), Link(4, 5)],
            vec![Lit(vec![10]), Link(2, 3), Run(0x50, 32840)], vec![Lit(vec![11]), Link(2, 3), Run(0x50, 32846)],
            vec![Lit(vec![40]), Run(0x60, 32844)],
            vec![Lit(vec![12]), Link(2, 6), Run(0x51, 32800)], vec![Lit(vec![13]), Link(2, 6), Run(0x51, 32806)],
            vec![Lit(vec![41]), Run(0x61, 32804)],
        ] },
        // single object, empty object, object of exactly 65535/65536 bytes behind a 16-bit link
        Dag { nodes: vec![vec![]] },
        Dag { nodes: vec![vec![Lit(vec![1, 2, 3])]] },
        Dag { nodes: vec![vec![Link(2, 1), Run(7, 65533)], vec![Lit(vec![5])]] },
        Dag { nodes: vec![vec![Link(2, 1), Run(7, 65534)], vec![Lit(vec![5])]] },
        Dag { nodes: vec![vec![Link(3, 1), Run(7, 65534)], vec![Lit(vec![5])]] },
    ]
}

pub struct Ctx {
    pub st: Stats,
    pub cw: CaseWriter,
    pub seen: HashSet<u64>,
}

/// run one case: real code, oracle, Coq term
pub fn run_case(cx: &mut Ctx, dag: &Dag, kind: &str, to_coq: bool) -> Outcome {
    let out = compile(dag);
    cx.st.evaluations += 1;
    cx.st.count(&format!("kind.{kind}"));
    cx.st.count(match &out {
        Outcome::Bytes(_) => "result.ok",
        Outcome::PackingFailed => "result.packing_failed",
        Outcome::OtherErr(_) => "result.other_error",
        Outcome::Panic(_) => "result.panic",
    });
    let wide = dag.has_width(4);
    cx.st.count(match (&out, wide) {
        (Outcome::Bytes(_), true) => "ok.with_32bit_links",
        (Outcome::Bytes(_), false) => "ok.only_16_24",
        (Outcome::PackingFailed, true) => "failed.with_32bit_links",
        (Outcome::PackingFailed, false) => "failed.only_16_24",
        _ => "other",
    });
    if dag.misuse_width() {
        cx.st.count("oracle.skipped_misuse_width");
    } else if let Some(why) = oracle(dag, &out) {
        // one stable key per failure class (known_findings.json matches on it); the input is in "dag"
        let key = if why.contains("cycle or something") {
            "panic:cycle-or-something".to_string()
        } else if why.contains("panic") && why.contains("index out of bounds") {
            "panic:index-out-of-bounds".to_string()
        } else {
            dag.key()
        };
        cx.st.count(&format!("oracle_failure.{key}"));
        cx.st.oracle_failure(json!({"key": key, "kind": kind, "dag": dag.canon(), "why": why}));
    } else if let Outcome::Bytes(b) = &out {
        // duplication happened iff the output is longer than the sum of distinct reachable objects
        let reach = dag.reachable();
        let distinct: usize = (0..dag.nodes.len()).filter(|i| reach[*i]).map(|i| dag.node_size(i)).sum();
        if b.len() > distinct {
            cx.st.count("ok.output_longer_than_objects(duplication)");
        }
        if b.len() < distinct {
            cx.st.count("ok.output_shorter_than_objects(dedup)");
        }
    }
    let canon = dag.canon();
    if dag.nodes.len() > 1 && dag.n_links() > 0 {
        cx.st.nontrivial(&canon);
    }
    cx.st.sample(json!({"kind": kind, "dag": if canon.len() < 400 { canon.clone() } else { format!("{}...", &canon[..400]) },
        "result": match &out { Outcome::Bytes(b) => format!("Ok({} bytes)", b.len()), o => format!("{:?}", o) }}));
    if to_coq && cx.seen.insert(fnv(canon.as_bytes())) {
        if let Some(t) = case_term(dag, 1000, 1, &out) {
            cx.cw.push(t);
        }
    }
    out
}

/// greedy shrinking of a failing input (keeps "oracle fails")
pub fn shrink(d: &Dag) -> Dag {
    let fails = |x: &Dag| x.expansion() < 5000 && oracle(x, &compile(x)).is_some();
    let mut cur = d.clone();
    loop {
        let mut progressed = false;
        // remove items
        'outer: for i in 0..cur.nodes.len() {
            for k in 0..cur.nodes[i].len() {
                let mut c = cur.clone();
                c.nodes[i].remove(k);
                if fails(&c) {
                    cur = c;
                    progressed = true;
                    break 'outer;
                }
            }
        }
        if progressed { continue; }
        // shrink runs / narrow widths
        'outer2: for i in 0..cur.nodes.len() {
            for k in 0..cur.nodes[i].len() {
                let cands: Vec<Item> = match &cur.nodes[i][k] {
                    Item::Run(b, n) if *n > 1 => vec![Item::Run(*b, n / 2), Item::Run(*b, n - 1)],
                    Item::Link(4, c) => vec![Item::Link(2, *c)],
                    Item::Link(3, c) => vec![Item::Link(2, *c)],
                    _ => vec![],
                };
                for it in cands {
                    let mut c = cur.clone();
                    c.nodes[i][k] = it;
                    if fails(&c) {
                        cur = c;
                        progressed = true;
                        break 'outer2;
                    }
                }
            }
        }
        if !progressed { break; }
    }
    // drop unreachable nodes (renumber)
    let reach = cur.reachable();
    let mut map = vec![usize::MAX; cur.nodes.len()];
    let mut nodes = vec![];
    for i in 0..cur.nodes.len() {
        if reach[i] { map[i] = nodes.len(); nodes.push(cur.nodes[i].clone()); }
    }
    for items in nodes.iter_mut() {
        for it in items.iter_mut() {
            if let Item::Link(_, c) = it { *c = map[*c]; }
        }
    }
    let c = Dag { nodes };
    if fails(&c) { c } else { cur }
}

/// development aid: `c05 minimize` prints the smallest small-shape inputs on which the real code
/// panics / fails the oracle
fn minimize() {
    let mut best: Vec<(usize, String, String)> = vec![];
    let mut total = 0u64;
    let mut visit = |d: Dag| {
        total += 1;
        let out = compile(&d);
        if let Some(why) = oracle(&d, &out) {
            let cost = d.n_links() * 1_000_000 + (0..d.nodes.len()).map(|i| d.node_size(i)).sum::<usize>();
            best.push((cost, d.canon(), why));
        }
    };
    let _ = &mut visit;
    // random failing inputs, greedily shrunk (a few per failure class)
    let mut rng = Rng::new(seed_from_env());
    let mut per_class: std::collections::HashMap<String, usize> = Default::default();
    for _ in 0..6000 {
        let d = if rng.chance(1, 2) { gen_wide(&mut rng) } else {
            let n = 3 + rng.below(9) as usize;
            let (bb, mix) = (1 + rng.below(3) as usize, 2 + rng.below(2) as u32);
            gen_random(&mut rng, n, bb, mix, true)
        };
        if d.expansion() > 500 || d.expansion_bytes() > 3_000_000 { continue; }
        total += 1;
        if let Some(why) = oracle(&d, &compile(&d)) {
            let class = why.chars().take(60).collect::<String>();
            let c = per_class.entry(class).or_insert(0);
            if *c >= 2 { continue; }
            *c += 1;
            let m = shrink(&d);
            let why = oracle(&m, &compile(&m)).unwrap();
            let cost = m.n_links() * 1_000_000 + (0..m.nodes.len()).map(|i| m.node_size(i)).sum::<usize>();
            best.push((cost, m.canon(), why));
        }
    }
    best.sort();
    best.dedup();
    println!("inputs tried {total}, failing {}", best.len());
    for b in best.iter().take(8) {
        println!("{} :: {}", b.1, b.2);
    }
}

fn main() {
    silence_panics();
    let args: Vec<String> = std::env::args().collect();
    if args.iter().any(|a| a == "minimize") {
        return minimize();
    }
    let thorough = tier_is_thorough(&args);
    let seed = seed_from_env();
    let dir = out_dir(&args, "C05");
    let mut rng = Rng::new(seed);
    let cw = CaseWriter::new(
        &dir,
        "From Coq Require Import ZArith List. Import ListNotations. Open Scope Z_scope.\nFrom FV Require Import Lib.Cases C05.Model.",
        "case_ty",
        "check_case",
        if thorough { 200 } else { 80 },
    );
    let mut cx = Ctx { st: Stats::new(), cw, seen: HashSet::new() };
    let scale = if thorough { 8 } else { 1 };

    // 0. fixed corpus (regressions of past findings)
    for d in corpus() {
        run_case(&mut cx, &d, "corpus", true);
    }
    // 1. small random DAGs, small sizes (cheap; dedup-heavy when unlabelled)
    for _ in 0..500 * scale {
        let n = 1 + rng.below(7) as usize;
        let labelled = rng.chance(3, 4);
        let mix = rng.below(3) as u32;
        let d = gen_random(&mut rng, n, 0, mix, labelled);
        if d.expansion() < 2000 {
            run_case(&mut cx, &d, "random_small", true);
        }
    }
    // 2. random DAGs with sizes from the straddling alphabet
    for _ in 0..450 * scale {
        let n = 2 + rng.below(6) as usize;
        let (bb, mix, lab) = (1 + rng.below(3) as usize, rng.below(4) as u32, rng.chance(9, 10));
        let d = gen_random(&mut rng, n, bb, mix, lab);
        if d.expansion() < 500 && d.expansion_bytes() < 3_000_000 {
            run_case(&mut cx, &d, "random_big", true);
        }
    }
    // 3. straddling templates: distance = max +- 2
    for _ in 0..400 * scale {
        let d = gen_straddle(&mut rng);
        run_case(&mut cx, &d, "straddle", true);
    }
    // 4. wide-link graphs that take the advanced path (space assignment / isolation / duplication;
    //    modelled since round 2: exact bytes compared; the oracle applies as well)
    for _ in 0..110 * scale {
        let d = gen_wide(&mut rng);
        run_case(&mut cx, &d, "wide", true);
    }
    // 4b. several spaces overflowing in the same isolation round
    for _ in 0..12 * scale {
        let d = gen_two_spaces(&mut rng);
        run_case(&mut cx, &d, "two_spaces", true);
    }
    // 5. API misuse widths (model correspondence only)
    for _ in 0..60 * scale {
        let d = gen_misuse(&mut rng);
        run_case(&mut cx, &d, "misuse_width", true);
    }
    // 6. bounded-exhaustive shapes
    let ex_widths: &[usize] = if thorough { &[2, 3, 4] } else { &[2, 4] };
    exhaustive(3, &[0, 65533, 65536], ex_widths, |d| {
        run_case(&mut cx, &d, "exhaustive3", true);
    });
    if thorough {
        exhaustive(4, &[1, 32768, 65535], &[2, 4], |d| {
            run_case(&mut cx, &d, "exhaustive4", true);
        });
    }
    // 7. oracle-only: larger graphs (not sent to Coq)
    for _ in 0..1500 * scale {
        let n = 4 + rng.below(10) as usize;
        let (bb, mix, lab) = (1 + rng.below(4) as usize, rng.below(4) as u32, rng.chance(9, 10));
        let d = gen_random(&mut rng, n, bb, mix, lab);
        if d.expansion() < 3000 && d.expansion_bytes() < 4_000_000 {
            run_case(&mut cx, &d, "oracle_only_large", false);
        }
    }
    for _ in 0..300 * scale {
        let d = gen_wide(&mut rng);
        run_case(&mut cx, &d, "oracle_only_wide", false);
    }

    let shards = cx.cw.finish();
    cx.st.v.insert("shards".into(), shards.into());
    cx.st.v.insert("model_cases".into(), cx.cw.len().into());
    cx.st.write(&dir, "object DAGs (chains, fans, diamonds, duplicated content) with sizes from {0,1,2,3,100,32766..32768,65534..65536,70000}+-12, mixed 16/24/32-bit links, straddling templates (distance = max+-2), wide-link graphs forcing space assignment/duplication, all 3-node shapes; non-trivial = at least two nodes and one link (distinct by description)");
    println!("cases={} shards={} oracle_failures={}", cx.cw.len(), shards, cx.st.oracle_failures.len());
}
