//! C05 harness: arbitrary object DAGs compiled through the PUBLIC write-fonts API
//! (`FontWrite` + `TableWriter::{write_slice, write_offset}` + `dump_table`), compared with the
//! Coq model (coq/C05/Model.v `check_case`) and checked by an implementation-only oracle: an
//! independent walker that follows the INPUT description through the OUTPUT bytes (the `Resolves`
//! predicate of coq/C05/Proofs.v re-implemented in Rust).
//!
//! This file is also included as a module by c07.rs (`#[path] mod`), hence the `pub` items.
#![allow(dead_code)]
use serde_json::json;
use std::collections::HashSet;
use vh::*;
use write_fonts::validate::{Validate, ValidationCtx};
use write_fonts::{dump_table, FontWrite, TableWriter};

#[derive(Clone, Debug, PartialEq, Eq, Hash)]
pub enum Item {
    /// write_slice(&vec![b; n])
    Run(u8, usize),
    /// write_slice(&l)
    Lit(Vec<u8>),
    /// write_offset(&node[child], width)
    Link(usize, usize),
}

/// node 0 is the root; links only go to larger indices (so the description is a DAG)
#[derive(Clone, Debug, PartialEq, Eq, Hash)]
pub struct Dag {
    pub nodes: Vec<Vec<Item>>,
}

pub struct NodeRef<'a> {
    pub dag: &'a Dag,
    pub idx: usize,
}

impl FontWrite for NodeRef<'_> {
    fn write_into(&self, w: &mut TableWriter) {
        for it in &self.dag.nodes[self.idx] {
            match it {
                Item::Run(b, n) => w.write_slice(&vec![*b; *n]),
                Item::Lit(l) => w.write_slice(l),
                Item::Link(width, c) => w.write_offset(&NodeRef { dag: self.dag, idx: *c }, *width),
            }
        }
    }
}
impl Validate for NodeRef<'_> {
    fn validate_impl(&self, _ctx: &mut ValidationCtx) {}
}

#[derive(Clone, Debug, PartialEq, Eq)]
pub enum Outcome {
    Bytes(Vec<u8>),
    PackingFailed,
    OtherErr(String),
    Panic(String),
}

pub fn compile(dag: &Dag) -> Outcome {
    let r = catch(std::panic::AssertUnwindSafe(|| dump_table(&NodeRef { dag, idx: 0 })));
    match r {
        Ok(Ok(b)) => Outcome::Bytes(b),
        Ok(Err(write_fonts::error::Error::PackingFailed(_))) => Outcome::PackingFailed,
        Ok(Err(e)) => Outcome::OtherErr(format!("{e}")),
        Err(p) => Outcome::Panic(p),
    }
}

impl Dag {
    pub fn node_size(&self, i: usize) -> usize {
        self.nodes[i]
            .iter()
            .map(|it| match it {
                Item::Run(_, n) => *n,
                Item::Lit(l) => l.len(),
                Item::Link(w, _) => (*w).min(4),
            })
            .sum()
    }
    pub fn has_width(&self, w: usize) -> bool {
        self.nodes.iter().flatten().any(|it| matches!(it, Item::Link(x, _) if *x == w))
    }
    pub fn misuse_width(&self) -> bool {
        self.nodes.iter().flatten().any(|it| matches!(it, Item::Link(x, _) if !(2..=4).contains(x)))
    }
    pub fn n_links(&self) -> usize {
        self.nodes.iter().flatten().filter(|it| matches!(it, Item::Link(..))).count()
    }
    /// nodes reachable from the root
    pub fn reachable(&self) -> Vec<bool> {
        let mut seen = vec![false; self.nodes.len()];
        let mut st = vec![0usize];
        while let Some(i) = st.pop() {
            if seen[i] {
                continue;
            }
            seen[i] = true;
            for it in &self.nodes[i] {
                if let Item::Link(_, c) = it {
                    st.push(*c);
                }
            }
        }
        seen
    }
    /// number of root-to-node paths (= number of add_table calls the tree expansion makes)
    pub fn expansion(&self) -> u64 {
        let n = self.nodes.len();
        let mut cnt = vec![0u64; n];
        for i in (0..n).rev() {
            let mut c = 1u64;
            for it in &self.nodes[i] {
                if let Item::Link(_, ch) = it {
                    c = c.saturating_add(cnt[*ch]);
                }
            }
            cnt[i] = c;
        }
        cnt[0]
    }
    /// bytes written by the tree expansion (cost of one compilation)
    pub fn expansion_bytes(&self) -> u64 {
        let n = self.nodes.len();
        let mut cnt = vec![0u64; n];
        for i in (0..n).rev() {
            let mut c = self.node_size(i) as u64;
            for it in &self.nodes[i] {
                if let Item::Link(_, ch) = it {
                    c = c.saturating_add(cnt[*ch]);
                }
            }
            cnt[i] = c;
        }
        cnt[0]
    }
    pub fn coq(&self) -> String {
        clist(self.nodes.iter(), |items| {
            clist(items.iter(), |it| match it {
                Item::Run(b, n) => format!("IRun {} {}", b, n),
                Item::Lit(l) => format!("ILit {}", cbytes(l)),
                Item::Link(w, c) => format!("ILink {} {}%nat", w, c),
            })
        })
    }
    pub fn canon(&self) -> String {
        format!("{:?}", self.nodes)
    }
    pub fn key(&self) -> String {
        format!("dag-{:016x}", fnv(self.canon().as_bytes()))
    }
}

pub fn rle(b: &[u8]) -> Vec<(u8, usize)> {
    let mut v: Vec<(u8, usize)> = vec![];
    for x in b {
        match v.last_mut() {
            Some((c, n)) if *c == *x => *n += 1,
            _ => v.push((*x, 1)),
        }
    }
    v
}

/// Coq term of one correspondence case: (dag, (base, step), (tag, rle))
pub fn case_term(dag: &Dag, base: u64, step: u64, out: &Outcome) -> Option<String> {
    let (tag, r) = match out {
        Outcome::Bytes(b) => (0, rle(b)),
        Outcome::PackingFailed => (1, vec![]),
        Outcome::Panic(_) => (2, vec![]),
        Outcome::OtherErr(_) => return None,
    };
    Some(format!(
        "({}, ({}, {}), ({}, {}))",
        dag.coq(),
        base,
        step,
        tag,
        clist(r.iter(), |(b, n)| format!("({},{})", b, n))
    ))
}

// ---------------------------------------------------------------------------------------------
// implementation-only oracle: Resolves(out, pos, node) by following the INPUT description

pub struct Walk<'a> {
    pub dag: &'a Dag,
    pub out: &'a [u8],
    pub ok: HashSet<(usize, usize)>,
    pub visited_nodes: HashSet<usize>,
    pub max_off: [u64; 5],
}

impl<'a> Walk<'a> {
    pub fn new(dag: &'a Dag, out: &'a [u8]) -> Self {
        Walk { dag, out, ok: HashSet::new(), visited_nodes: HashSet::new(), max_off: [0; 5] }
    }
    /// Err(description) when the object `idx` is not correctly present at `pos`
    pub fn resolves(&mut self, idx: usize, pos: usize) -> Result<(), String> {
        if self.ok.contains(&(idx, pos)) {
            return Ok(());
        }
        self.visited_nodes.insert(idx);
        let mut cur = pos;
        for (k, it) in self.dag.nodes[idx].iter().enumerate() {
            match it {
                Item::Run(b, n) => {
                    let sl = self.out.get(cur..cur + n).ok_or_else(|| format!("node {idx} item {k}: run beyond end of output at {cur}"))?;
                    if let Some(j) = sl.iter().position(|x| x != b) {
                        return Err(format!("node {idx} at {pos}: byte {} differs (run item {k})", cur + j));
                    }
                    cur += n;
                }
                Item::Lit(l) => {
                    let sl = self.out.get(cur..cur + l.len()).ok_or_else(|| format!("node {idx} item {k}: literal beyond end of output at {cur}"))?;
                    if sl != &l[..] {
                        return Err(format!("node {idx} at {pos}: literal item {k} differs at {cur}"));
                    }
                    cur += l.len();
                }
                Item::Link(w, c) => {
                    let sl = self.out.get(cur..cur + w).ok_or_else(|| format!("node {idx} item {k}: offset field beyond end of output at {cur}"))?;
                    let v = sl.iter().fold(0u64, |a, b| a * 256 + *b as u64);
                    self.max_off[*w] = self.max_off[*w].max(v);
                    let target = pos as u64 + v;
                    if target > self.out.len() as u64 {
                        return Err(format!("node {idx} at {pos}: offset{} item {k} = {v} points beyond the output", w * 8));
                    }
                    self.resolves(*c, target as usize)
                        .map_err(|e| format!("node {idx} at {pos}: offset{} item {k} = {v} does not land on node {c}: {e}", w * 8))?;
                    cur += w;
                }
            }
        }
        self.ok.insert((idx, pos));
        Ok(())
    }
}

/// The property's wording on one compilation. Some(why) = violated.
pub fn oracle(dag: &Dag, out: &Outcome) -> Option<String> {
    match out {
        Outcome::Bytes(b) => {
            let mut w = Walk::new(dag, b);
            if let Err(e) = w.resolves(0, 0) {
                return Some(e);
            }
            // every object reachable from the root is present (the walk reached it)
            let reach = dag.reachable();
            for (i, r) in reach.iter().enumerate() {
                if *r && !w.visited_nodes.contains(&i) {
                    return Some(format!("reachable node {i} never reached through the output"));
                }
            }
            None
        }
        Outcome::PackingFailed => None,
        Outcome::OtherErr(e) => Some(format!("unexpected error kind: {e}")),
        Outcome::Panic(p) => Some(format!("panic instead of bytes or PackingFailed: {p}")),
    }
}

// ---------------------------------------------------------------------------------------------
// generators

pub const SIZES: [usize; 12] = [0, 1, 2, 3, 100, 32766, 32767, 32768, 65534, 65535, 65536, 70000];
pub const SMALL: [usize; 5] = [0, 1, 2, 3, 100];

fn pick_width(rng: &mut Rng, mix: u32) -> usize {
    match mix {
        0 => *rng.pick(&[2, 2, 2, 2, 3]),
        1 => *rng.pick(&[2, 2, 3, 3]),
        2 => *rng.pick(&[2, 2, 3, 4]),
        _ => *rng.pick(&[2, 4, 4, 3]),
    }
}

/// label + filler of `size` bytes in total (size 0 => no items at all)
fn body(label: Option<u8>, fill: u8, size: usize) -> Vec<Item> {
    let mut v = vec![];
    match label {
        Some(l) if size > 0 => {
            v.push(Item::Lit(vec![l]));
            if size > 1 {
                v.push(Item::Run(fill, size - 1));
            }
        }
        _ => {
            if size > 0 {
                v.push(Item::Run(fill, size));
            }
        }
    }
    v
}

/// random DAG: `n` nodes, node i links to larger indices; every node > 0 gets at least one parent
pub fn gen_random(rng: &mut Rng, n: usize, big_budget: usize, mix: u32, labelled: bool) -> Dag {
    let mut nodes: Vec<Vec<Item>> = vec![vec![]; n];
    let mut big_left = big_budget;
    // choose parents: for each node j>0 a set of parents < j
    let mut links: Vec<Vec<(usize, usize)>> = vec![vec![]; n]; // per parent: (child, width)
    let shape = rng.below(4);
    for j in 1..n {
        let np = match shape {
            0 => 1,                                   // tree / chain / fan
            1 => 1 + rng.below(2) as usize,           // some sharing
            2 => 1 + rng.below(3) as usize,           // diamonds
            _ => if rng.chance(1, 3) { j.min(3) } else { 1 },
        };
        let mut ps = HashSet::new();
        for _ in 0..np {
            let p = match shape {
                0 if rng.chance(1, 2) => j - 1,       // chain
                0 => 0,                               // fan
                _ => rng.below(j as u64) as usize,
            };
            ps.insert(p);
        }
        let mut ps: Vec<usize> = ps.into_iter().collect();
        ps.sort();
        for p in ps {
            links[p].push((j, pick_width(rng, mix)));
            // occasionally a second link from the same parent to the same child
            if rng.chance(1, 12) {
                links[p].push((j, pick_width(rng, mix)));
            }
        }
    }
    for i in 0..n {
        let size = if big_left > 0 && rng.chance(1, 2) {
            big_left -= 1;
            *rng.pick(&SIZES)
        } else {
            *rng.pick(&SMALL)
        };
        // boundary jitter
        let size = if size > 1000 && rng.chance(1, 3) { (size as i64 + rng.range(-12, 12)) as usize } else { size };
        let label = if labelled { Some(i as u8 + 1) } else { None };
        let fill = if labelled { 0x40 + i as u8 } else { 0x40 };
        let mut items = vec![];
        let b = body(label, fill, size);
        let ls = &mut links[i];
        if rng.chance(1, 4) {
            rng.shuffle(ls);
        }
        // interleave: links first / last / in the middle of the filler
        match rng.below(3) {
            0 => {
                items.extend(b);
                for (c, w) in ls.iter() {
                    items.push(Item::Link(*w, *c));
                }
            }
            1 => {
                if let Some(Item::Lit(l)) = b.first() {
                    items.push(Item::Lit(l.clone()));
                }
                for (c, w) in ls.iter() {
                    items.push(Item::Link(*w, *c));
                }
                items.extend(b.into_iter().filter(|x| !matches!(x, Item::Lit(_))));
            }
            _ => {
                let mut bi = b.into_iter();
                if let Some(x) = bi.next() {
                    items.push(x);
                }
                for (k, (c, w)) in ls.iter().enumerate() {
                    items.push(Item::Link(*w, *c));
                    if k == 0 {
                        items.push(Item::Lit(vec![0xee, i as u8]));
                    }
                }
                items.extend(bi);
            }
        }
        nodes[i] = items;
    }
    Dag { nodes }
}

/// straddling templates: the distance root -> last child is exactly max(width) + delta
pub fn gen_straddle(rng: &mut Rng) -> Dag {
    let w = *rng.pick(&[2usize, 2, 2, 3]);
    let max = if w == 2 { 65535i64 } else { 16777215 };
    let delta = rng.range(-2, 2);
    let w_first = *rng.pick(&[2usize, 3, 4]);
    let k = rng.below(3) as usize; // extra small children between
    // root: label + link(w_first -> A) + k links to small nodes + link(w -> B)
    let mut root = vec![Item::Lit(vec![1])];
    root.push(Item::Link(w_first, 1));
    for j in 0..k {
        root.push(Item::Link(2, 3 + j));
    }
    root.push(Item::Link(w, 2));
    let root_size = 1 + w_first + 2 * k + w;
    let small: Vec<usize> = (0..k).map(|_| *rng.pick(&[0usize, 1, 3, 100])).collect();
    // Kahn order: root, A(1), B(2), smalls...  => B at root_size + |A|. With shortest distance the
    // small ones go first. Aim at one of the two layouts.
    let before_b: i64 = if rng.chance(1, 2) { 0 } else { small.iter().map(|s| *s as i64).sum() };
    let a_size = (max + delta - root_size as i64 - before_b).max(0) as usize;
    if w == 3 && a_size > 200_000 {
        // keep 24-bit straddles cheap: use several chained big nodes instead? no: skip to 16-bit
        return gen_straddle(rng);
    }
    let mut nodes = vec![root, body(Some(2), 0x51, a_size), body(Some(3), 0x52, *rng.pick(&[1usize, 2, 100, 65535, 65536]))];
    for (j, s) in small.iter().enumerate() {
        nodes.push(body(Some(4 + j as u8), 0x60 + j as u8, *s));
    }
    // sometimes A also links B (diamond), sometimes B links a small node (chain)
    if rng.chance(1, 3) {
        nodes[1].push(Item::Link(*rng.pick(&[2usize, 3, 4]), 2));
    }
    if k > 0 && rng.chance(1, 3) {
        nodes[2].push(Item::Link(2, 3));
    }
    Dag { nodes }
}

/// graphs that need the advanced path: a wide (32-bit) link to a big subgraph that shares nodes
/// with the 16-bit part, so that space assignment has to duplicate them
pub fn gen_wide(rng: &mut Rng) -> Dag {
    let n_shared = 1 + rng.below(3) as usize;
    let n_roots = 1 + rng.below(3) as usize;
    let mut nodes: Vec<Vec<Item>> = vec![vec![Item::Lit(vec![1])]];
    // layout of indices: 0 root, 1 = short child S, then wide roots W_i, then big fillers, then shared leaves
    let s_idx = 1;
    let w0 = 2;
    let big0 = w0 + n_roots;
    let sh0 = big0 + n_roots;
    nodes.push(vec![Item::Lit(vec![2]), Item::Run(0x42, *rng.pick(&[10usize, 100, 32768]))]);
    for i in 0..n_roots {
        let mut v = vec![Item::Lit(vec![10 + i as u8])];
        v.push(Item::Link(2, big0 + i));
        v
            .extend((0..n_shared).filter(|_| rng.chance(2, 3)).map(|k| Item::Link(2, sh0 + k)));
        nodes.push(v);
    }
    for i in 0..n_roots {
        nodes.push(body(Some(20 + i as u8), 0x70 + i as u8, *rng.pick(&[32768usize, 65535, 65536, 70000, 40000])));
    }
    for k in 0..n_shared {
        nodes.push(body(Some(30 + k as u8), 0x7a, *rng.pick(&[1usize, 3, 100, 30000])));
    }
    // root: short link to S, wide links to W_i; S links the shared leaves with 16-bit offsets
    nodes[0].push(Item::Link(2, s_idx));
    for i in 0..n_roots {
        let w = if rng.chance(5, 6) { 4 } else { 2 };
        nodes[0].push(Item::Link(w, w0 + i));
    }
    for k in 0..n_shared {
        if rng.chance(3, 4) {
            nodes[s_idx].push(Item::Link(2, sh0 + k));
        }
    }
    // sometimes a wide root is also reachable through a 16-bit link (root duplication case)
    if rng.chance(1, 4) {
        nodes[s_idx].push(Item::Link(2, w0));
    }
    // sometimes one wide root links another
    if n_roots > 1 && rng.chance(1, 4) {
        nodes[w0].push(Item::Link(*rng.pick(&[2usize, 4]), w0 + 1));
    }
    Dag { nodes }
}

/// >= 2 distinct 32-bit spaces, each with >= 2 roots, each overflowing in the same isolation round:
/// pairs of wide roots W (32.8k) that share one 32.8k leaf through 16-bit links (the shape of a GSUB with
/// big single-subst lookups pairwise sharing a coverage table, all promoted to extension lookups)
pub fn gen_two_spaces(rng: &mut Rng) -> Dag {
    let pairs = 2 + rng.below(2) as usize; // 2 or 3 spaces
    let mut nodes: Vec<Vec<Item>> = vec![vec![Item::Lit(vec![1])]];
    let mut next = 1usize;
    let mut root_links = vec![];
    for p in 0..pairs {
        let k = 2 + rng.below(2) as usize; // roots in this space
        let shared = next + k;
        let cov = 32_790 + 10 * p + rng.below(8) as usize;
        for r in 0..k {
            let sz = 32_800 + 7 * r + rng.below(40) as usize;
            nodes.push(vec![Item::Lit(vec![10 + (p * 4 + r) as u8]), Item::Link(2, shared), Item::Run(0x50 + p as u8, sz)]);
            root_links.push(next);
            next += 1;
        }
        nodes.push(vec![Item::Lit(vec![40 + p as u8]), Item::Run(0x60 + p as u8, cov)]);
        next += 1;
    }
    if rng.chance(1, 2) {
        rng.shuffle(&mut root_links);
    }
    for w in root_links {
        nodes[0].push(Item::Link(4, w));
    }
    Dag { nodes }
}

/// TWIN objects: siblings whose BYTES coincide but whose offset records differ (width and/or position of the
/// offset to the same child; the filler next to the narrower offset repeats the 0xff placeholder), plus twins
/// that differ only in the target. ObjectStore must keep them apart: content = bytes AND offset records.
pub fn gen_twins(rng: &mut Rng) -> Dag {
    let mut nodes: Vec<Vec<Item>> = vec![vec![Item::Lit(vec![1])]];
    let n_children = 1 + rng.below(2) as usize;
    let child0 = 1;
    for c in 0..n_children {
        nodes.push(body(Some(60 + c as u8), 0x30 + c as u8, *rng.pick(&[1usize, 2, 5, 100])));
    }
    let groups = 1 + rng.below(3) as usize;
    for gi in 0..groups {
        let c = child0 + rng.below(n_children as u64) as usize;
        let pre: Vec<u8> = if rng.chance(1, 2) { vec![] } else { vec![0xA0 + gi as u8; 1 + rng.below(3) as usize] };
        let post: Vec<u8> = if rng.chance(1, 2) { vec![] } else { vec![0xB0 + gi as u8; 1 + rng.below(3) as usize] };
        let mk = |mid: Vec<Item>| -> Vec<Item> {
            let mut v = vec![];
            if !pre.is_empty() { v.push(Item::Lit(pre.clone())); }
            v.extend(mid);
            if !post.is_empty() { v.push(Item::Lit(post.clone())); }
            v
        };
        let ff = |n: usize| Item::Lit(vec![0xff; n]);
        let mut variants: Vec<Vec<Item>> = match rng.below(4) {
            // same 4 placeholder bytes: offset16 + ff ff / offset24 + ff / offset32 / ff ff + offset16 / ff + offset24
            0 => vec![mk(vec![Item::Link(2, c), ff(2)]), mk(vec![Item::Link(3, c), ff(1)]), mk(vec![Item::Link(4, c)]),
                      mk(vec![ff(2), Item::Link(2, c)]), mk(vec![ff(1), Item::Link(3, c)])],
            // same 3 bytes
            1 => vec![mk(vec![Item::Link(2, c), ff(1)]), mk(vec![Item::Link(3, c)]), mk(vec![ff(1), Item::Link(2, c)])],
            // two offsets: 16+16 vs 32 vs 16+ff ff vs 24+ff
            2 => vec![mk(vec![Item::Link(2, c), Item::Link(2, c)]), mk(vec![Item::Link(4, c)]), mk(vec![Item::Link(2, c), ff(2)]), mk(vec![Item::Link(3, c), ff(1)])],
            // same offset records shape, different target (when there are two children) or identical twins (must merge)
            _ => {
                let c2 = child0 + (c - child0 + 1) % n_children;
                vec![mk(vec![Item::Link(2, c)]), mk(vec![Item::Link(2, c2)]), mk(vec![Item::Link(2, c)])]
            }
        };
        rng.shuffle(&mut variants);
        let keep = 2 + rng.below((variants.len() - 1) as u64) as usize;
        for v in variants.into_iter().take(keep) {
            let idx = nodes.len();
            nodes.push(v);
            let w = *rng.pick(&[2usize, 2, 3, 4]);
            nodes[0].push(Item::Link(w, idx));
        }
    }
    // children must come after their parents in index order: renumber (children were created first)
    let n = nodes.len();
    let map = |i: usize| -> usize { if i == 0 { 0 } else if i <= n_children { n - n_children + (i - 1) } else { i - n_children } };
    let mut out = vec![vec![]; n];
    for (i, items) in nodes.into_iter().enumerate() {
        out[map(i)] = items.into_iter().map(|it| match it { Item::Link(w, c) => Item::Link(w, map(c)), x => x }).collect();
    }
    Dag { nodes: out }
}

/// ill-formed use of the API: offset widths outside {2,3,4}
pub fn gen_misuse(rng: &mut Rng) -> Dag {
    let n = 2 + rng.below(3) as usize;
    let mut d = gen_random(rng, n, 0, 1, true);
    let w = *rng.pick(&[0usize, 1, 5, 8]);
    let mut done = false;
    for items in d.nodes.iter_mut() {
        for it in items.iter_mut() {
            if let Item::Link(x, _) = it {
                if !done {
                    *x = w;
                    done = true;
                }
            }
        }
    }
    d
}

/// all DAG shapes on `n` nodes (each pair i<j: no link / 16 / 32 (n<=3: also 24)), sizes from `sizes`
pub fn exhaustive(n: usize, sizes: &[usize], widths: &[usize], mut f: impl FnMut(Dag)) {
    let pairs: Vec<(usize, usize)> = (0..n).flat_map(|i| (i + 1..n).map(move |j| (i, j))).collect();
    let opts = widths.len() + 1;
    let total_shapes = opts.pow(pairs.len() as u32);
    let total_sizes = sizes.len().pow(n as u32);
    for sh in 0..total_shapes {
        // decode
        let mut x = sh;
        let mut links: Vec<Vec<(usize, usize)>> = vec![vec![]; n];
        let mut has_parent = vec![false; n];
        for (i, j) in &pairs {
            let o = x % opts;
            x /= opts;
            if o > 0 {
                links[*i].push((*j, widths[o - 1]));
                has_parent[*j] = true;
            }
        }
        if (1..n).any(|j| !has_parent[j]) {
            continue;
        }
        for sz in 0..total_sizes {
            let mut y = sz;
            let mut nodes = vec![];
            for i in 0..n {
                let s = sizes[y % sizes.len()];
                y /= sizes.len();
                let mut items = body(Some(i as u8 + 1), 0x40 + i as u8, s);
                for (c, w) in &links[i] {
                    items.push(Item::Link(*w, *c));
                }
                nodes.push(items);
            }
            f(Dag { nodes });
        }
    }
}

/// fixed corpus: inputs of past findings (regression) and hand-made corner shapes
pub fn corpus() -> Vec<Dag> {
    use Item::*;
    vec![
        // finding "panic:cycle-or-something" (isolate_subgraph_hb did not redirect the wide links to a
        // duplicated space root; fixed in /repo e7f5dfb): minimal input
        Dag { nodes: vec![vec![Link(2, 1), Link(4, 2), Link(4, 3)], vec![Link(2, 2)], vec![Link(2, 4), Link(2, 5)], vec![Link(2, 5)], vec![Run(112, 65530)], vec![]] },
        // same, the root of the wide space is linked 16-bit AND 32-bit by the same parent
        Dag { nodes: vec![vec![Link(2, 2), Link(4, 2), Link(4, 3), Link(2, 1)], vec![Link(2, 2)], vec![Link(2, 4), Link(2, 5)], vec![Link(2, 5)], vec![Run(112, 65530)], vec![]] },
        Dag { nodes: vec![vec![Lit(vec![1]), Link(4, 2), Link(2, 2), Link(4, 3)], vec![Lit(vec![2])], vec![Lit(vec![3]), Link(2, 4), Link(2, 5)], vec![Lit(vec![4]), Link(2, 5)], vec![Run(112, 65530)], vec![Lit(vec![9])]] },
        // other shrunk inputs of the same finding
        Dag { nodes: vec![vec![Link(2, 1), Link(4, 4), Run(64, 65530)], vec![Link(2, 2), Link(4, 3)], vec![Link(2, 3)], vec![Link(2, 5)], vec![Link(4, 5)], vec![]] },
        Dag { nodes: vec![vec![Link(2, 1), Link(2, 3), Link(4, 4)], vec![Link(2, 2)], vec![Link(4, 3)], vec![Link(2, 5), Link(2, 6)], vec![Link(2, 6)], vec![Run(113, 65530)], vec![]] },
        Dag { nodes: vec![vec![Link(2, 1), Link(2, 2), Link(4, 3), Link(4, 4)], vec![], vec![Link(2, 5), Link(2, 3)], vec![Link(2, 6), Link(2, 7)], vec![Link(2, 7)], vec![Run(112, 32747)], vec![Run(113, 32767)], vec![]] },
        // after the first fix: a parent with a 16-bit AND a wide link to the same space root
        Dag { nodes: vec![vec![Link(2, 1), Link(4, 1), Link(2, 2), Run(64, 65525)], vec![Link(3, 2)], vec![]] },
        Dag { nodes: vec![vec![Link(2, 1), Link(2, 3)], vec![Link(2, 2), Link(4, 2)], vec![Link(2, 4)], vec![Run(67, 65531), Link(3, 4)], vec![]] },
        // after the second fix: a space root that is also a descendant of another duplicated space root
        Dag { nodes: vec![vec![Link(2, 1), Link(4, 2), Link(4, 3)], vec![Link(2, 2)], vec![Link(2, 4), Link(2, 5), Link(4, 3)], vec![Link(2, 5)], vec![Run(112, 65526)], vec![]] },
        // "index out of bounds" in find_root_of_space
        Dag { nodes: vec![vec![Lit(vec![1]), Link(4, 1), Link(4, 2), Link(2, 3), Link(4, 3), Link(4, 4), Link(3, 5), Link(4, 10), Run(64, 65535)], vec![], vec![Lit(vec![3]), Link(2, 3), Link(3, 4), Link(4, 6), Link(3, 7), Run(66, 1)], vec![Lit(vec![4]), Link(2, 7), Run(67, 65533)], vec![Lit(vec![5]), Run(68, 2)], vec![Lit(vec![6]), Run(69, 2), Link(4, 10)], vec![Lit(vec![7]), Link(2, 8), Link(2, 11), Link(3, 12), Run(70, 99)], vec![Lit(vec![8]), Link(4, 9), Lit(vec![238, 7]), Run(71, 32766)], vec![], vec![Lit(vec![10]), Run(73, 2)], vec![Lit(vec![11]), Run(74, 2)], vec![Lit(vec![12]), Run(75, 99)], vec![Lit(vec![13]), Run(76, 99)]] },
        // two 32-bit spaces with two roots each, both overflowing in the same isolation round
        // (seeded C07/m3: to_isolate BTreeMap -> HashMap)
        Dag { nodes: vec![
            vec![Lit(vec![1]), Link(4, 1), Link(4, 2), Link(4, 4), Link(4, 5)],
            vec![Lit(vec![10]), Link(2, 3), Run(0x50, 32840)], vec![Lit(vec![11]), Link(2, 3), Run(0x50, 32846)],
            vec![Lit(vec![40]), Run(0x60, 32844)],
            vec![Lit(vec![12]), Link(2, 6), Run(0x51, 32800)], vec![Lit(vec![13]), Link(2, 6), Run(0x51, 32806)],
            vec![Lit(vec![41]), Run(0x61, 32804)],
        ] },
        // single object, empty object, object of exactly 65535/65536 bytes behind a 16-bit link
        Dag { nodes: vec![vec![]] },
        Dag { nodes: vec![vec![Lit(vec![1, 2, 3])]] },
        Dag { nodes: vec![vec![Link(2, 1), Run(7, 65533)], vec![Lit(vec![5])]] },
        Dag { nodes: vec![vec![Link(2, 1), Run(7, 65534)], vec![Lit(vec![5])]] },
        Dag { nodes: vec![vec![Link(3, 1), Run(7, 65534)], vec![Lit(vec![5])]] },
    ]
}


// ---------------------------------------------------------------------------------------------
// real GPOS lookups that the packer has to SPLIT (and promote), embedded under a custom root with
// sibling blobs behind 16-bit links whose size sweeps the window where the layout stops fitting.
// Oracle: read the output back by the declared formats (read-fonts) and compare every record,
// incl. every device / VariationIndex offset inside value records, with the INPUT description.
pub mod gpos_split {
    use super::*;
    use read_fonts::tables::gpos as rg;
    use read_fonts::{FontData, FontRead};
    use write_fonts::tables::gpos as wg;
    use write_fonts::tables::layout as wl;
    use write_fonts::types::GlyphId16;

    pub const PP1: u8 = 1;
    pub const PP2: u8 = 2;
    pub const MARKBASE: u8 = 3;

    /// semantic description of one splittable lookup
    #[derive(Clone, Debug)]
    pub struct Spec {
        pub kind: u8,
        pub fmt1: u16,
        pub fmt2: u16,
        /// first glyphs / class1 count / base glyphs
        pub n1: u16,
        /// second glyphs per first / class2 count / mark classes
        pub n2: u16,
        pub salt: u32,
        /// out of 8: how many records carry a device where the format has one
        pub dev_density: u32,
        /// PairPos1: the first glyphs (ascending); empty = the contiguous range G1.. (a single coverage range).
        /// Runs with gaps give a format 2 coverage with many range records.
        pub g1_list: Vec<u16>,
    }

    pub fn first_glyph(spec: &Spec, i: u16) -> u16 {
        if spec.g1_list.is_empty() { G1 + i } else { spec.g1_list[i as usize] }
    }
    pub fn first_index(spec: &Spec, g: u16) -> u32 {
        if spec.g1_list.is_empty() { g.wrapping_sub(G1) as u32 } else { spec.g1_list.binary_search(&g).map(|i| i as u32).unwrap_or(u32::MAX) }
    }
    /// glyph list of `n` glyphs with a gap (of 2 ids) before every index in `gaps_before`
    pub fn glyphs_with_gaps(n: u16, gaps_before: &std::collections::BTreeSet<u16>) -> Vec<u16> {
        let mut v = Vec::with_capacity(n as usize);
        let mut shift = 0u16;
        for i in 0..n {
            if gaps_before.contains(&i) { shift += 2; }
            v.push(G1 + i + shift);
        }
        v
    }

    fn h(spec: &Spec, a: u32, b: u32, c: u32) -> u32 {
        let mut x = spec.salt ^ a.wrapping_mul(0x9E37_79B1) ^ b.wrapping_mul(0x85EB_CA6B) ^ c.wrapping_mul(0xC2B2_AE35);
        x ^= x >> 15;
        x = x.wrapping_mul(0x2C1B_3C6D);
        x ^= x >> 12;
        x
    }

    /// resolved value record: scalar fields and devices as declared by the format
    #[derive(Clone, Debug, PartialEq, Eq)]
    pub struct Val {
        pub scalars: [Option<i16>; 4],
        /// Some(None) = field in format with a null offset
        pub devices: [Option<Option<(u16, u16)>>; 4],
    }

    pub fn expected_val(spec: &Spec, a: u32, b: u32, which: u32) -> Val {
        let fmt = if which == 1 { spec.fmt1 } else { spec.fmt2 };
        let mut v = Val { scalars: [None; 4], devices: [None; 4] };
        for f in 0..4u32 {
            if fmt & (1 << f) != 0 {
                v.scalars[f as usize] = Some((h(spec, a, b, which * 16 + f) % 2001) as i16 - 1000);
            }
            if fmt & (0x10 << f) != 0 {
                let x = h(spec, a, b, which * 16 + 8 + f);
                v.devices[f as usize] = Some(if x % 8 < spec.dev_density { Some(((x >> 8) % 23) as u16).map(|o| (o, ((x >> 16) % 311) as u16)) } else { None });
            }
        }
        v
    }

    fn to_write_rec(v: &Val, fmt: u16) -> wg::ValueRecord {
        let mut r = wg::ValueRecord::new().with_explicit_value_format(rg::ValueFormat::from_bits_truncate(fmt));
        if let Some(x) = v.scalars[0] { r = r.with_x_placement(x); }
        if let Some(x) = v.scalars[1] { r = r.with_y_placement(x); }
        if let Some(x) = v.scalars[2] { r = r.with_x_advance(x); }
        if let Some(x) = v.scalars[3] { r = r.with_y_advance(x); }
        let vi = |d: (u16, u16)| wl::VariationIndex::new(d.0, d.1);
        if let Some(Some(d)) = v.devices[0] { r = r.with_x_placement_device(vi(d)); }
        if let Some(Some(d)) = v.devices[1] { r = r.with_y_placement_device(vi(d)); }
        if let Some(Some(d)) = v.devices[2] { r = r.with_x_advance_device(vi(d)); }
        if let Some(Some(d)) = v.devices[3] { r = r.with_y_advance_device(vi(d)); }
        r
    }

    const G1: u16 = 10; // first glyph of the first-glyph range
    const G2: u16 = 3000; // first glyph of the second-glyph range
    const PER_CLASS1: u16 = 2;

    pub fn anchor_xy(spec: &Spec, a: u32, b: u32, c: u32) -> Option<(i16, i16)> {
        let x = h(spec, a, b, c);
        if c == 7 && x % 16 == 0 { return None; } // a few null base anchors
        Some(((x % 4001) as i16 - 2000, ((x >> 12) % 4001) as i16 - 2000))
    }

    pub fn build_lookup(spec: &Spec) -> wg::PositionLookup {
        use read_fonts::tables::layout::LookupFlag;
        match spec.kind {
            PP1 => {
                let coverage = (0..spec.n1).map(|i| GlyphId16::new(first_glyph(spec, i))).collect();
                let pair_sets = (0..spec.n1).map(|a| {
                    wg::PairSet::new((0..spec.n2).map(|b| {
                        wg::PairValueRecord::new(GlyphId16::new(G2 + b),
                            to_write_rec(&expected_val(spec, a as u32, b as u32, 1), spec.fmt1),
                            to_write_rec(&expected_val(spec, a as u32, b as u32, 2), spec.fmt2))
                    }).collect())
                }).collect();
                wg::PositionLookup::Pair(wl::Lookup::new(LookupFlag::empty(), vec![wg::PairPos::format_1(coverage, pair_sets)]))
            }
            PP2 => {
                let class_def1: wl::ClassDef = (0..spec.n1 * PER_CLASS1).map(|i| (GlyphId16::new(G1 + i), i / PER_CLASS1)).collect();
                let class_def2: wl::ClassDef = (0..spec.n2).map(|i| (GlyphId16::new(G2 + i), i)).collect();
                let coverage: wl::CoverageTable = (0..spec.n1 * PER_CLASS1).map(|i| GlyphId16::new(G1 + i)).collect();
                let recs = (0..spec.n1).map(|a| {
                    wg::Class1Record::new((0..spec.n2).map(|b| {
                        wg::Class2Record::new(to_write_rec(&expected_val(spec, a as u32, b as u32, 1), spec.fmt1),
                                              to_write_rec(&expected_val(spec, a as u32, b as u32, 2), spec.fmt2))
                    }).collect())
                }).collect();
                wg::PositionLookup::Pair(wl::Lookup::new(LookupFlag::empty(), vec![wg::PairPos::format_2(coverage, class_def1, class_def2, recs)]))
            }
            _ => {
                // n1 base glyphs, n2 mark classes, 3 mark glyphs per class
                let n_marks = spec.n2 * 3;
                let mark_cov: wl::CoverageTable = (0..n_marks).map(|m| GlyphId16::new(G2 + m)).collect();
                let base_cov: wl::CoverageTable = (0..spec.n1).map(|b| GlyphId16::new(G1 + b)).collect();
                let marks = (0..n_marks).map(|m| {
                    let (x, y) = anchor_xy(spec, m as u32, 0, 1).unwrap();
                    wg::MarkRecord::new(m % spec.n2, wg::AnchorTable::format_1(x, y))
                }).collect();
                let bases = (0..spec.n1).map(|b| {
                    wg::BaseRecord::new((0..spec.n2).map(|c| anchor_xy(spec, b as u32, c as u32, 7).map(|(x, y)| wg::AnchorTable::format_1(x, y))).collect())
                }).collect();
                wg::PositionLookup::MarkToBase(wl::Lookup::new(LookupFlag::empty(),
                    vec![wg::MarkBasePosFormat1::new(mark_cov, base_cov, wg::MarkArray::new(marks), wg::BaseArray::new(bases))]))
            }
        }
    }

    /// root object: 16-bit offsets to the lookup list and to sibling blobs, in a given order
    pub struct GRoot {
        pub lookups: wg::PositionLookupList,
        /// (blob before the lookup-list offset?, fill, size)
        pub blobs: Vec<(bool, u8, usize)>,
    }
    pub struct Blob(pub u8, pub usize);
    impl FontWrite for Blob {
        fn write_into(&self, w: &mut TableWriter) {
            let v: Vec<u8> = (0..self.1).map(|i| (i as u8).wrapping_mul(13).wrapping_add(self.0) | 1).collect();
            w.write_slice(&v);
        }
    }
    impl Validate for Blob {
        fn validate_impl(&self, _ctx: &mut ValidationCtx) {}
    }
    impl FontWrite for GRoot {
        fn write_into(&self, w: &mut TableWriter) {
            for (before, fill, size) in &self.blobs {
                if *before { w.write_offset(&Blob(*fill, *size), 2); }
            }
            w.write_offset(&self.lookups, 2);
            for (before, fill, size) in &self.blobs {
                if !*before { w.write_offset(&Blob(*fill, *size), 2); }
            }
        }
    }
    impl Validate for GRoot {
        fn validate_impl(&self, _ctx: &mut ValidationCtx) {}
    }

    fn read_val(r: &read_fonts::tables::gpos::ValueRecord, data: FontData) -> Result<Val, String> {
        let dev = |d: Option<Result<rg::DeviceOrVariationIndex, read_fonts::ReadError>>, present: bool| -> Result<Option<Option<(u16, u16)>>, String> {
            if !present { return Ok(None); }
            match d {
                None => Ok(Some(None)),
                Some(Ok(rg::DeviceOrVariationIndex::VariationIndex(v))) => Ok(Some(Some((v.delta_set_outer_index(), v.delta_set_inner_index())))),
                Some(Ok(_)) => Err("device offset lands on something that is not a VariationIndex table".into()),
                Some(Err(e)) => Err(format!("device offset does not resolve: {e}")),
            }
        };
        let f = r.format.bits();
        Ok(Val {
            scalars: [r.x_placement(), r.y_placement(), r.x_advance(), r.y_advance()],
            devices: [dev(r.x_placement_device(data), f & 0x10 != 0)?, dev(r.y_placement_device(data), f & 0x20 != 0)?,
                      dev(r.x_advance_device(data), f & 0x40 != 0)?, dev(r.y_advance_device(data), f & 0x80 != 0)?],
        })
    }

    /// Err((class, detail)) when the output does not contain the input
    pub fn verify(spec: &Spec, root: &GRoot, out: &[u8]) -> Result<usize, (String, String)> {
        let e = |c: &str, d: String| (c.to_string(), d);
        let rd = |pos: usize| -> Result<usize, (String, String)> {
            out.get(pos..pos + 2).map(|b| u16::from_be_bytes([b[0], b[1]]) as usize).ok_or_else(|| e("root", format!("root offset field {pos} beyond output")))
        };
        // root fields in writing order
        let mut pos = 0;
        let mut lookups_off = 0;
        let mut order: Vec<Option<(u8, usize)>> = vec![];
        for (b, f, s) in &root.blobs { if *b { order.push(Some((*f, *s))); } }
        order.push(None);
        for (b, f, s) in &root.blobs { if !*b { order.push(Some((*f, *s))); } }
        for it in order {
            let off = rd(pos)?;
            pos += 2;
            match it {
                None => lookups_off = off,
                Some((fill, size)) => {
                    let sl = out.get(off..off + size).ok_or_else(|| e("blob", format!("blob offset {off} + {size} beyond output")))?;
                    if let Some(i) = sl.iter().enumerate().position(|(i, x)| *x != ((i as u8).wrapping_mul(13).wrapping_add(fill) | 1)) {
                        return Err(e("blob", format!("offset to blob {fill} lands on different bytes (index {i})")));
                    }
                }
            }
        }
        let list = rg::PositionLookupList::read(FontData::new(out.get(lookups_off..).ok_or_else(|| e("root", "lookup list offset beyond output".into()))?))
            .map_err(|x| e("read", format!("lookup list: {x}")))?;
        if list.lookup_count() != 1 { return Err(e("structure", format!("{} lookups", list.lookup_count()))); }
        let lookup = list.lookups().get(0).map_err(|x| e("read", format!("lookup: {x}")))?;
        let subs = lookup.subtables().map_err(|x| e("read", format!("subtables: {x}")))?;
        let fmt1 = rg::ValueFormat::from_bits_truncate(spec.fmt1);
        let fmt2 = rg::ValueFormat::from_bits_truncate(spec.fmt2);
        match (spec.kind, subs) {
            (PP1, rg::PositionSubtables::Pair(subs)) => {
                let mut seen = std::collections::HashSet::new();
                let mut nsub = 0;
                for sub in subs.iter() {
                    nsub += 1;
                    let rg::PairPos::Format1(sub) = sub.map_err(|x| e("read", format!("subtable: {x}")))? else { return Err(e("structure", "format changed".into())); };
                    if sub.value_format1() != fmt1 || sub.value_format2() != fmt2 { return Err(e("structure", "value formats changed".into())); }
                    let cov = sub.coverage().map_err(|x| e("read", format!("coverage: {x}")))?;
                    let sets = sub.pair_sets();
                    if cov.iter().count() != sub.pair_set_count() as usize { return Err(e("coverage", "coverage count != pair set count".into())); }
                    for (i, g1) in cov.iter().enumerate() {
                        let a = first_index(spec, g1.to_u16());
                        let set = sets.get(i).map_err(|x| e("read", format!("pair set {i}: {x}")))?;
                        for rec in set.pair_value_records().iter() {
                            let rec = rec.map_err(|x| e("read", format!("pair value record: {x}")))?;
                            let b = rec.second_glyph().to_u16().wrapping_sub(G2) as u32;
                            if a >= spec.n1 as u32 || b >= spec.n2 as u32 { return Err(e("value", format!("unknown pair {a}/{b}"))); }
                            if !seen.insert((a, b)) { return Err(e("coverage", format!("pair {a}/{b} present twice"))); }
                            let v1 = read_val(rec.value_record1(), set.offset_data()).map_err(|d| e("device", format!("pair {a}/{b}: {d}")))?;
                            let v2 = read_val(rec.value_record2(), set.offset_data()).map_err(|d| e("device", format!("pair {a}/{b}: {d}")))?;
                            if v1 != expected_val(spec, a, b, 1) || v2 != expected_val(spec, a, b, 2) {
                                let cls = if v1.scalars != expected_val(spec, a, b, 1).scalars || v2.scalars != expected_val(spec, a, b, 2).scalars { "value" } else { "device" };
                                return Err(e(cls, format!("pair {a}/{b}: got {:?} {:?}", v1, v2)));
                            }
                        }
                    }
                }
                if seen.len() != spec.n1 as usize * spec.n2 as usize { return Err(e("coverage", format!("{} of {} pairs present", seen.len(), spec.n1 as usize * spec.n2 as usize))); }
                Ok(nsub)
            }
            (PP2, rg::PositionSubtables::Pair(subs)) => {
                let mut parsed = vec![];
                for sub in subs.iter() {
                    let rg::PairPos::Format2(sub) = sub.map_err(|x| e("read", format!("subtable: {x}")))? else { return Err(e("structure", "format changed".into())); };
                    parsed.push(sub);
                }
                for a in 0..spec.n1 {
                    for k in 0..PER_CLASS1 {
                        let g1 = GlyphId16::new(G1 + a * PER_CLASS1 + k);
                        let mut covering = parsed.iter().filter(|s| s.coverage().map(|c| c.get(g1).is_some()).unwrap_or(false));
                        let sub = covering.next().ok_or_else(|| e("coverage", format!("glyph of class1 {a} not covered")))?;
                        if covering.next().is_some() { return Err(e("coverage", format!("glyph of class1 {a} covered twice"))); }
                        if sub.value_format1() != fmt1 || sub.value_format2() != fmt2 || sub.class2_count() != spec.n2 { return Err(e("structure", "formats / class2 count changed".into())); }
                        if k > 0 { continue; }
                        let c1 = sub.class_def1().map_err(|x| e("read", format!("classdef1: {x}")))?.get(g1);
                        let cd2 = sub.class_def2().map_err(|x| e("read", format!("classdef2: {x}")))?;
                        let c1rec = sub.class1_records().get(c1 as usize).map_err(|x| e("read", format!("class1 record {c1}: {x}")))?;
                        for b in 0..spec.n2 {
                            let c2 = cd2.get(GlyphId16::new(G2 + b));
                            if c2 != b { return Err(e("value", format!("class2 of glyph {b} is {c2}"))); }
                            let rec = c1rec.class2_records().get(c2 as usize).map_err(|x| e("read", format!("class2 record: {x}")))?;
                            let v1 = read_val(rec.value_record1(), sub.offset_data()).map_err(|d| e("device", format!("classes {a}/{b}: {d}")))?;
                            let v2 = read_val(rec.value_record2(), sub.offset_data()).map_err(|d| e("device", format!("classes {a}/{b}: {d}")))?;
                            let (e1, e2) = (expected_val(spec, a as u32, b as u32, 1), expected_val(spec, a as u32, b as u32, 2));
                            if v1 != e1 || v2 != e2 {
                                let cls = if v1.scalars != e1.scalars || v2.scalars != e2.scalars { "value" } else { "device" };
                                return Err(e(cls, format!("classes {a}/{b}: got {:?} {:?} expected {:?} {:?}", v1, v2, e1, e2)));
                            }
                        }
                    }
                }
                Ok(parsed.len())
            }
            (MARKBASE, rg::PositionSubtables::MarkToBase(subs)) => {
                let mut parsed = vec![];
                for sub in subs.iter() {
                    parsed.push(sub.map_err(|x| e("read", format!("subtable: {x}")))?);
                }
                let anchor = |a: Result<rg::AnchorTable, read_fonts::ReadError>| -> Result<(i16, i16), (String, String)> {
                    match a.map_err(|x| e("read", format!("anchor: {x}")))? {
                        rg::AnchorTable::Format1(t) => Ok((t.x_coordinate(), t.y_coordinate())),
                        _ => Err(e("value", "anchor format changed".into())),
                    }
                };
                for m in 0..spec.n2 * 3 {
                    let gm = GlyphId16::new(G2 + m);
                    let mut covering = parsed.iter().filter(|s| s.mark_coverage().map(|c| c.get(gm).is_some()).unwrap_or(false));
                    let sub = covering.next().ok_or_else(|| e("coverage", format!("mark {m} not covered")))?;
                    if covering.next().is_some() { return Err(e("coverage", format!("mark {m} covered twice"))); }
                    let mi = sub.mark_coverage().unwrap().get(gm).unwrap() as usize;
                    let marr = sub.mark_array().map_err(|x| e("read", format!("mark array: {x}")))?;
                    let mrec = marr.mark_records().get(mi).ok_or_else(|| e("read", "mark record index".into()))?;
                    let cls = mrec.mark_class();
                    if cls >= sub.mark_class_count() { return Err(e("value", format!("mark {m}: class {cls} >= count"))); }
                    if anchor(mrec.mark_anchor(marr.offset_data()))? != anchor_xy(spec, m as u32, 0, 1).unwrap() { return Err(e("value", format!("mark {m}: anchor differs"))); }
                    let orig_class = (m % spec.n2) as u32;
                    let bcov = sub.base_coverage().map_err(|x| e("read", format!("base coverage: {x}")))?;
                    let barr = sub.base_array().map_err(|x| e("read", format!("base array: {x}")))?;
                    for b in 0..spec.n1 {
                        let exp = anchor_xy(spec, b as u32, orig_class, 7);
                        let got = match bcov.get(GlyphId16::new(G1 + b)) {
                            None => None,
                            Some(bi) => {
                                let brec = barr.base_records().get(bi as usize).map_err(|x| e("read", format!("base record: {x}")))?;
                                match brec.base_anchors(barr.offset_data()).get(cls as usize) {
                                    None => None,
                                    Some(a) => Some(anchor(a)?),
                                }
                            }
                        };
                        if got != exp { return Err(e("value", format!("mark {m} base {b}: got {:?} expected {:?}", got, exp))); }
                    }
                }
                Ok(parsed.len())
            }
            _ => Err(e("structure", "lookup type changed".into())),
        }
    }

    /// number of first glyphs in each PairPos1 piece of a compiled lookup list (for the two-pass run alignment)
    pub fn pp1_piece_sizes(out: &[u8], lookups_off: usize) -> Option<Vec<usize>> {
        let list = rg::PositionLookupList::read(FontData::new(out.get(lookups_off..)?)).ok()?;
        let lookup = list.lookups().get(0).ok()?;
        let rg::PositionSubtables::Pair(subs) = lookup.subtables().ok()? else { return None };
        let mut v = vec![];
        for sub in subs.iter() {
            let rg::PairPos::Format1(sub) = sub.ok()? else { return None };
            v.push(sub.pair_set_count() as usize);
        }
        Some(v)
    }

    #[derive(Debug)]
    pub enum Res { Ok(usize), Err, Fail(String, String) }

    pub fn run_one(spec: &Spec, lookup: &wg::PositionLookup, blobs: &[(bool, u8, usize)]) -> Res {
        let root = GRoot { lookups: wl::LookupList::new(vec![lookup.clone()]), blobs: blobs.to_vec() };
        match catch(std::panic::AssertUnwindSafe(|| dump_table(&root))) {
            Err(p) => Res::Fail(format!("panic:{}", p.chars().take(48).collect::<String>()), p),
            Ok(Err(write_fonts::error::Error::PackingFailed(_))) => Res::Err,
            Ok(Err(x)) => Res::Fail("other-error".into(), format!("{x}")),
            Ok(Ok(bytes)) => match verify(spec, &root, &bytes) {
                Ok(n) => Res::Ok(n),
                Err((c, d)) => Res::Fail(c, d),
            },
        }
    }

    pub fn gen_spec(rng: &mut Rng) -> Spec {
        let kind = *rng.pick(&[PP1, PP1, PP2, PP2, PP2, MARKBASE]);
        let scalar_sets = [0x4u16, 0x5, 0xF, 0x1, 0x6, 0x0];
        let dev_sets = [0u16, 0, 0x10, 0x20, 0x40, 0x80, 0x30, 0xC0, 0x50, 0xA0, 0xF0];
        let mut fmt1 = *rng.pick(&scalar_sets) | *rng.pick(&dev_sets);
        if fmt1 == 0 { fmt1 = 0x4; }
        let fmt2 = if rng.chance(1, 2) { 0 } else { *rng.pick(&scalar_sets) | if rng.chance(1, 3) { *rng.pick(&dev_sets) } else { 0 } };
        let rec_len = 2 * (fmt1.count_ones() + fmt2.count_ones()) as usize;
        let target = 70_000 + rng.below(60_000) as usize;
        let (n1, n2) = match kind {
            PP1 => { let n2 = 3 + rng.below(6) as usize; ((target / (n2 * (2 + rec_len) + 4)).clamp(50, 4000), n2) }
            PP2 => { let n2 = 20 + rng.below(90) as usize; ((target / (n2 * rec_len.max(2))).clamp(4, 1500), n2) }
            _ => { let n2 = 4 + rng.below(8) as usize; ((target / (n2 * 8)).clamp(100, 3000), n2) }
        };
        Spec { kind, fmt1, fmt2, n1: n1 as u16, n2: n2 as u16, salt: rng.next_u32(), dev_density: *rng.pick(&[0u32, 1, 4, 7, 8]), g1_list: vec![] }
    }

    /// boundary-seeking sweep: find where the sibling blob's size makes packing stop to fit, then probe densely
    pub fn stream(cx: &mut Ctx, rng: &mut Rng, n_specs: usize) {
        // (1) format matrix: every subset of the four device flags, in the first and in the second value record,
        //     for both PairPos formats, with null and non-null devices mixed: one compilation each (must split)
        for kind in [PP1, PP2] {
            for devbits in 0..16u16 {
                for which in [1u32, 2] {
                    let scal = *rng.pick(&[0u16, 0x4, 0x1, 0x5, 0x6, 0xF]);
                    let this = scal | (devbits << 4);
                    let other = *rng.pick(&[0u16, 0x4, 0x5]);
                    let (mut fmt1, fmt2) = if which == 1 { (this, other) } else { (other, this) };
                    if fmt1 == 0 && fmt2 == 0 { fmt1 = 0x4; }
                    let rec_len = 2 * (fmt1.count_ones() + fmt2.count_ones()) as usize;
                    let target = 68_000 + rng.below(20_000) as usize;
                    let (n1, n2) = if kind == PP1 { let n2 = 3 + rng.below(4) as usize; (target / (n2 * (2 + rec_len) + 4), n2) }
                                   else { let n2 = 20 + rng.below(60) as usize; (target / (n2 * rec_len.max(2)), n2) };
                    let spec = Spec { kind, fmt1, fmt2, n1: n1.clamp(4, 4000) as u16, n2: n2 as u16, salt: rng.next_u32(), dev_density: *rng.pick(&[1u32, 4, 7]), g1_list: vec![] };
                    let lookup = build_lookup(&spec);
                    let blobs = vec![(rng.chance(1, 2), 5u8, *rng.pick(&[8usize, 1000, 20_000]))];
                    let r = run_one(&spec, &lookup, &blobs);
                    let kindname = if kind == PP1 { "pairpos1" } else { "pairpos2" };
                    cx.st.evaluations += 1;
                    cx.st.count(&format!("gpos.matrix.{kindname}.{}", match &r { Res::Ok(n) if *n > 1 => "ok_split", Res::Ok(_) => "ok_unsplit", Res::Err => "packing_failed", Res::Fail(..) => "FAIL" }));
                    if let Res::Fail(class, detail) = &r {
                        cx.st.oracle_failure(json!({"key": format!("gpos:{kindname}:{class}"), "spec": format!("{:?}", spec), "blobs": format!("{:?}", blobs), "why": detail}));
                    }
                    cx.st.nontrivial(&format!("{:?}", spec));
                }
            }
        }
        // (1b) many pieces: sizes that force 3, 4 and 5+ split-off subtables for every splittable kind
        //      (PairPos1; PairPos2 with devices in record 1 / record 2 / both; MarkBase with many classes)
        for target in [140_000usize, 200_000, 270_000] {
            for shape in 0..5u32 {
                let dev = *rng.pick(&[0x10u16, 0x20, 0x40, 0x80, 0x30, 0xC0, 0x50, 0xF0]);
                let scal = *rng.pick(&[0x4u16, 0x5, 0x1, 0x0]);
                let (kind, fmt1, fmt2) = match shape {
                    0 => (PP1, scal | if rng.chance(1, 2) { dev } else { 0 } | 0x4, *rng.pick(&[0u16, 0x4])),
                    1 => (PP2, scal | dev, *rng.pick(&[0u16, 0x4])),
                    2 => (PP2, *rng.pick(&[0x4u16, 0x5]), scal | dev),
                    3 => (PP2, 0x4 | dev, *rng.pick(&[0x10u16, 0x20, 0x40, 0x80])),
                    _ => (MARKBASE, 0, 0),
                };
                let rec_len = 2 * (fmt1.count_ones() + fmt2.count_ones()) as usize;
                let (n1, n2) = match kind {
                    PP1 => { let n2 = 4 + rng.below(5) as usize; ((target / (n2 * (2 + rec_len) + 4)).clamp(50, 12_000), n2) }
                    PP2 => { let n2 = 30 + rng.below(60) as usize; ((target * 6 / 10 / (n2 * rec_len.max(2))).clamp(4, 4000), n2) }
                    _ => { let n2 = 10 + rng.below(7) as usize; ((target / (n2 * 8)).clamp(100, 4000), n2) }
                };
                let spec = Spec { kind, fmt1, fmt2, n1: n1 as u16, n2: n2 as u16, salt: rng.next_u32(), dev_density: *rng.pick(&[4u32, 7, 8]), g1_list: vec![] };
                let lookup = build_lookup(&spec);
                let blobs = vec![(rng.chance(1, 2), 6u8, *rng.pick(&[8usize, 500]))];
                let r = run_one(&spec, &lookup, &blobs);
                let kindname = match kind { PP1 => "pairpos1", PP2 => "pairpos2", _ => "markbase" };
                cx.st.evaluations += 1;
                cx.st.count(&format!("gpos.pieces.{kindname}.{}", match &r { Res::Ok(n) if *n >= 5 => "ok_5plus".to_string(), Res::Ok(n) => format!("ok_{n}"), Res::Err => "packing_failed".into(), Res::Fail(..) => "FAIL".into() }));
                if let Res::Fail(class, detail) = &r {
                    cx.st.oracle_failure(json!({"key": format!("gpos:{kindname}:{class}"), "spec": format!("{:?}", spec), "blobs": format!("{:?}", blobs), "why": detail}));
                }
                cx.st.nontrivial(&format!("{:?}", spec));
            }
        }
        // (1c) one table carrying >= 65536 non-null 16-bit offsets (offset-record indices beyond u16), split and read back in full
        for shape in 0..3u32 {
            let spec = match shape {
                0 => Spec { kind: MARKBASE, fmt1: 0, fmt2: 0, n1: 300 + rng.below(8) as u16, n2: 220 + rng.below(6) as u16, salt: rng.next_u32(), dev_density: 0, g1_list: vec![] },
                1 => Spec { kind: MARKBASE, fmt1: 0, fmt2: 0, n1: 258 + rng.below(8) as u16, n2: 256, salt: rng.next_u32(), dev_density: 0, g1_list: vec![] },
                _ => { let dev = *rng.pick(&[0x30u16, 0xC0, 0x50, 0xA0]);
                       Spec { kind: PP2, fmt1: 0x4 | dev, fmt2: 0, n1: 300 + rng.below(20) as u16, n2: 112 + rng.below(10) as u16, salt: rng.next_u32(), dev_density: 8, g1_list: vec![] } }
            };
            let lookup = build_lookup(&spec);
            let r = run_one(&spec, &lookup, &[(rng.chance(1, 2), 6u8, 8usize)]);
            let kindname = if spec.kind == PP2 { "pairpos2" } else { "markbase" };
            cx.st.evaluations += 1;
            cx.st.count(&format!("gpos.offsets65536.{kindname}.{}", match &r { Res::Ok(n) => format!("ok_{n}_pieces"), Res::Err => "packing_failed".into(), Res::Fail(..) => "FAIL".into() }));
            if let Res::Fail(class, detail) = &r {
                cx.st.oracle_failure(json!({"key": format!("gpos:{kindname}:{class}"), "spec": format!("kind {} n1 {} n2 {} fmt1 {}", spec.kind, spec.n1, spec.n2, spec.fmt1), "why": detail}));
            }
            cx.st.nontrivial(&format!("big {} {} {}", spec.kind, spec.n1, spec.n2));
        }
        // (1d) PairPos1 whose first glyphs are RUNS with gaps (format 2 coverage, many range records).
        //      pass A: runs of length 1,2,3,.. at several phases; pass B (two-pass): learn the split points from the contiguous
        //      compilation, then put run starts / run ends / one-glyph runs exactly at the split points and next to them.
        for rep in 0..(n_specs.min(12) / 2).max(3) {
            let n2 = 3 + rng.below(5) as usize;
            let fmt1 = *rng.pick(&[0x4u16, 0x5, 0xF]);
            let fmt2 = *rng.pick(&[0u16, 0x4]);
            let rec_len = 2 * (fmt1.count_ones() + fmt2.count_ones()) as usize;
            let target = 90_000 + rng.below(120_000) as usize;
            let n1 = (target / (n2 * (2 + rec_len) + 4)).clamp(50, 9000) as u16;
            let base = Spec { kind: PP1, fmt1, fmt2, n1, n2: n2 as u16, salt: rng.next_u32(), dev_density: 0, g1_list: vec![] };
            let mut gap_sets: Vec<std::collections::BTreeSet<u16>> = vec![];
            // pass A: cyclic run lengths 1..=k starting at a phase
            let k = 1 + rng.below(5) as u16;
            let mut set = std::collections::BTreeSet::new();
            let (mut i, mut len) = ((rep as u16) % (k + 1), 1u16);
            while i < n1 { set.insert(i); i += len; len = if len >= k { 1 } else { len + 1 }; }
            gap_sets.push(set);
            // pass B: split points of the contiguous version
            let lookup0 = build_lookup(&base);
            let root0 = GRoot { lookups: wl::LookupList::new(vec![lookup0]), blobs: vec![] };
            if let Ok(Ok(bytes)) = catch(std::panic::AssertUnwindSafe(|| dump_table(&root0))) {
                let off = u16::from_be_bytes([bytes[0], bytes[1]]) as usize;
                if let Some(sizes) = pp1_piece_sizes(&bytes, off) {
                    let mut cuts = vec![];
                    let mut acc = 0usize;
                    for sz in &sizes[..sizes.len().saturating_sub(1)] { acc += sz; cuts.push(acc as u16); }
                    for variant in 0..4u16 {
                        let mut set = std::collections::BTreeSet::new();
                        for c in &cuts {
                            for d in [-2i32, -1, 0, 1, 2] {
                                // which boundaries around the cut get a gap, by variant
                                let put = match variant { 0 => d == 0, 1 => d == 0 || d == 1, 2 => d == 1 || d == -1, _ => d != 2 };
                                let idx = *c as i32 + d;
                                if put && idx > 0 && (idx as u16) < n1 { set.insert(idx as u16); }
                            }
                        }
                        // plus sparse background runs
                        let mut j = 7 + variant;
                        while j < n1 { set.insert(j); j += 11 + variant; }
                        gap_sets.push(set);
                    }
                    cx.st.count("gpos.runs.two_pass_specs");
                }
            }
            for set in gap_sets {
                let mut spec = base.clone();
                spec.g1_list = glyphs_with_gaps(n1, &set);
                let lookup = build_lookup(&spec);
                let r = run_one(&spec, &lookup, &[]);
                cx.st.evaluations += 1;
                cx.st.count(&format!("gpos.runs.pairpos1.{}", match &r { Res::Ok(n) if *n > 1 => "ok_split", Res::Ok(_) => "ok_unsplit", Res::Err => "packing_failed", Res::Fail(..) => "FAIL" }));
                if let Res::Fail(class, detail) = &r {
                    cx.st.oracle_failure(json!({"key": format!("gpos:pairpos1:{class}"), "spec": format!("n1 {} n2 {} fmt1 {} fmt2 {} gaps_before {:?}", spec.n1, spec.n2, fmt1, fmt2, set.iter().take(40).collect::<Vec<_>>()), "why": detail}));
                }
            }
            cx.st.nontrivial(&format!("runs {:?} {}", base.salt, rep));
        }
        // (2) boundary-seeking sweeps
        for _ in 0..n_specs {
            let spec = gen_spec(rng);
            let lookup = build_lookup(&spec);
            let before = rng.chance(1, 2);
            let extra: Vec<(bool, u8, usize)> = if rng.chance(1, 3) { vec![(rng.chance(1, 2), 9, *rng.pick(&[1usize, 100, 3000]))] } else { vec![] };
            let mk = |size: usize| { let mut b = extra.clone(); b.push((before, 3, size)); b };
            let kindname = match spec.kind { PP1 => "pairpos1", PP2 => "pairpos2", _ => "markbase" };
            let mut report = |cx: &mut Ctx, size: usize, r: &Res| {
                cx.st.evaluations += 1;
                cx.st.count(&format!("gpos.{kindname}.{}", match r { Res::Ok(n) if *n > 1 => "ok_split", Res::Ok(_) => "ok_unsplit", Res::Err => "packing_failed", Res::Fail(..) => "FAIL" }));
                if let Res::Fail(class, detail) = r {
                    cx.st.oracle_failure(json!({"key": format!("gpos:{kindname}:{class}"), "spec": format!("{:?}", spec), "blob_size": size, "blob_before": before, "extra": format!("{:?}", extra), "why": detail}));
                }
            };
            cx.st.nontrivial(&format!("{:?}", spec));
            // without sibling pressure
            let r0 = run_one(&spec, &lookup, &mk(8));
            report(cx, 8, &r0);
            cx.st.sample(json!({"kind": "gpos_split", "spec": format!("{:?}", spec), "result": format!("{:?}", r0)}));
            // binary search for the largest blob size that still packs
            let (mut lo, mut hi) = (60_000usize, 65_600usize);
            let rlo = run_one(&spec, &lookup, &mk(lo));
            report(cx, lo, &rlo);
            if !matches!(rlo, Res::Ok(_)) { continue; }
            while hi - lo > 1 {
                let mid = (lo + hi) / 2;
                let r = run_one(&spec, &lookup, &mk(mid));
                report(cx, mid, &r);
                if matches!(r, Res::Ok(_)) { lo = mid } else { hi = mid }
            }
            // dense probe around the boundary (every size: the gate's arithmetic must agree with serialize byte for byte)
            for size in lo.saturating_sub(4)..=(lo + 24).min(65_700) {
                let r = run_one(&spec, &lookup, &mk(size));
                report(cx, size, &r);
            }
            cx.st.count("gpos.boundaries_probed");
        }
    }
}

pub struct Ctx {
    pub st: Stats,
    pub cw: CaseWriter,
    pub seen: HashSet<u64>,
}

/// run one case: real code, oracle, Coq term
pub fn run_case(cx: &mut Ctx, dag: &Dag, kind: &str, to_coq: bool) -> Outcome {
    let out = compile(dag);
    cx.st.evaluations += 1;
    cx.st.count(&format!("kind.{kind}"));
    cx.st.count(match &out {
        Outcome::Bytes(_) => "result.ok",
        Outcome::PackingFailed => "result.packing_failed",
        Outcome::OtherErr(_) => "result.other_error",
        Outcome::Panic(_) => "result.panic",
    });
    let wide = dag.has_width(4);
    cx.st.count(match (&out, wide) {
        (Outcome::Bytes(_), true) => "ok.with_32bit_links",
        (Outcome::Bytes(_), false) => "ok.only_16_24",
        (Outcome::PackingFailed, true) => "failed.with_32bit_links",
        (Outcome::PackingFailed, false) => "failed.only_16_24",
        _ => "other",
    });
    if dag.misuse_width() {
        cx.st.count("oracle.skipped_misuse_width");
    } else if let Some(why) = oracle(dag, &out) {
        // one stable key per failure class (known_findings.json matches on it); the input is in "dag"
        let key = if why.contains("cycle or something") {
            "panic:cycle-or-something".to_string()
        } else if why.contains("panic") && why.contains("index out of bounds") {
            "panic:index-out-of-bounds".to_string()
        } else {
            dag.key()
        };
        cx.st.count(&format!("oracle_failure.{key}"));
        cx.st.oracle_failure(json!({"key": key, "kind": kind, "dag": dag.canon(), "why": why}));
    } else if let Outcome::Bytes(b) = &out {
        // duplication happened iff the output is longer than the sum of distinct reachable objects
        let reach = dag.reachable();
        let distinct: usize = (0..dag.nodes.len()).filter(|i| reach[*i]).map(|i| dag.node_size(i)).sum();
        if b.len() > distinct {
            cx.st.count("ok.output_longer_than_objects(duplication)");
        }
        if b.len() < distinct {
            cx.st.count("ok.output_shorter_than_objects(dedup)");
        }
    }
    let canon = dag.canon();
    if dag.nodes.len() > 1 && dag.n_links() > 0 {
        cx.st.nontrivial(&canon);
    }
    cx.st.sample(json!({"kind": kind, "dag": if canon.len() < 400 { canon.clone() } else { format!("{}...", &canon[..400]) },
        "result": match &out { Outcome::Bytes(b) => format!("Ok({} bytes)", b.len()), o => format!("{:?}", o) }}));
    if to_coq && cx.seen.insert(fnv(canon.as_bytes())) {
        if let Some(t) = case_term(dag, 1000, 1, &out) {
            cx.cw.push(t);
        }
    }
    out
}

/// greedy shrinking of a failing input (keeps "oracle fails")
pub fn shrink(d: &Dag) -> Dag {
    let fails = |x: &Dag| x.expansion() < 5000 && oracle(x, &compile(x)).is_some();
    let mut cur = d.clone();
    loop {
        let mut progressed = false;
        // remove items
        'outer: for i in 0..cur.nodes.len() {
            for k in 0..cur.nodes[i].len() {
                let mut c = cur.clone();
                c.nodes[i].remove(k);
                if fails(&c) {
                    cur = c;
                    progressed = true;
                    break 'outer;
                }
            }
        }
        if progressed { continue; }
        // shrink runs / narrow widths
        'outer2: for i in 0..cur.nodes.len() {
            for k in 0..cur.nodes[i].len() {
                let cands: Vec<Item> = match &cur.nodes[i][k] {
                    Item::Run(b, n) if *n > 1 => vec![Item::Run(*b, n / 2), Item::Run(*b, n - 1)],
                    Item::Link(4, c) => vec![Item::Link(2, *c)],
                    Item::Link(3, c) => vec![Item::Link(2, *c)],
                    _ => vec![],
                };
                for it in cands {
                    let mut c = cur.clone();
                    c.nodes[i][k] = it;
                    if fails(&c) {
                        cur = c;
                        progressed = true;
                        break 'outer2;
                    }
                }
            }
        }
        if !progressed { break; }
    }
    // drop unreachable nodes (renumber)
    let reach = cur.reachable();
    let mut map = vec![usize::MAX; cur.nodes.len()];
    let mut nodes = vec![];
    for i in 0..cur.nodes.len() {
        if reach[i] { map[i] = nodes.len(); nodes.push(cur.nodes[i].clone()); }
    }
    for items in nodes.iter_mut() {
        for it in items.iter_mut() {
            if let Item::Link(_, c) = it { *c = map[*c]; }
        }
    }
    let c = Dag { nodes };
    if fails(&c) { c } else { cur }
}

/// development aid: `c05 minimize` prints the smallest small-shape inputs on which the real code
/// panics / fails the oracle
fn minimize() {
    let mut best: Vec<(usize, String, String)> = vec![];
    let mut total = 0u64;
    let mut visit = |d: Dag| {
        total += 1;
        let out = compile(&d);
        if let Some(why) = oracle(&d, &out) {
            let cost = d.n_links() * 1_000_000 + (0..d.nodes.len()).map(|i| d.node_size(i)).sum::<usize>();
            best.push((cost, d.canon(), why));
        }
    };
    let _ = &mut visit;
    // random failing inputs, greedily shrunk (a few per failure class)
    let mut rng = Rng::new(seed_from_env());
    let mut per_class: std::collections::HashMap<String, usize> = Default::default();
    for _ in 0..6000 {
        let d = if rng.chance(1, 2) { gen_wide(&mut rng) } else {
            let n = 3 + rng.below(9) as usize;
            let (bb, mix) = (1 + rng.below(3) as usize, 2 + rng.below(2) as u32);
            gen_random(&mut rng, n, bb, mix, true)
        };
        if d.expansion() > 500 || d.expansion_bytes() > 3_000_000 { continue; }
        total += 1;
        if let Some(why) = oracle(&d, &compile(&d)) {
            let class = why.chars().take(60).collect::<String>();
            let c = per_class.entry(class).or_insert(0);
            if *c >= 2 { continue; }
            *c += 1;
            let m = shrink(&d);
            let why = oracle(&m, &compile(&m)).unwrap();
            let cost = m.n_links() * 1_000_000 + (0..m.nodes.len()).map(|i| m.node_size(i)).sum::<usize>();
            best.push((cost, m.canon(), why));
        }
    }
    best.sort();
    best.dedup();
    println!("inputs tried {total}, failing {}", best.len());
    for b in best.iter().take(8) {
        println!("{} :: {}", b.1, b.2);
    }
}

fn main() {
    silence_panics();
    let args: Vec<String> = std::env::args().collect();
    if args.iter().any(|a| a == "minimize") {
        return minimize();
    }
    let thorough = tier_is_thorough(&args);
    let seed = seed_from_env();
    let dir = out_dir(&args, "C05");
    let mut rng = Rng::new(seed);
    let cw = CaseWriter::new(
        &dir,
        "From Coq Require Import ZArith List. Import ListNotations. Open Scope Z_scope.\nFrom FV Require Import Lib.Cases C05.Model C05.SortTotal.",
        "case_ty",
        // check_case (model = implementation) && totality_hypsb (the hypotheses of c05_sort_shortest_total /
        // c05_kahn_order_topological hold of the object map of the case): coq/C05/SortTotal.v
        "check_case_t",
        if thorough { 200 } else { 80 },
    );
    let mut cx = Ctx { st: Stats::new(), cw, seen: HashSet::new() };
    let scale = if thorough { 8 } else { 1 };

    // 0. fixed corpus (regressions of past findings)
    for d in corpus() {
        run_case(&mut cx, &d, "corpus", true);
    }
    // 1. small random DAGs, small sizes (cheap; dedup-heavy when unlabelled)
    for _ in 0..500 * scale {
        let n = 1 + rng.below(7) as usize;
        let labelled = rng.chance(3, 4);
        let mix = rng.below(3) as u32;
        let d = gen_random(&mut rng, n, 0, mix, labelled);
        if d.expansion() < 2000 {
            run_case(&mut cx, &d, "random_small", true);
        }
    }
    // 2. random DAGs with sizes from the straddling alphabet
    for _ in 0..450 * scale {
        let n = 2 + rng.below(6) as usize;
        let (bb, mix, lab) = (1 + rng.below(3) as usize, rng.below(4) as u32, rng.chance(9, 10));
        let d = gen_random(&mut rng, n, bb, mix, lab);
        if d.expansion() < 500 && d.expansion_bytes() < 3_000_000 {
            run_case(&mut cx, &d, "random_big", true);
        }
    }
    // 3. straddling templates: distance = max +- 2
    for _ in 0..400 * scale {
        let d = gen_straddle(&mut rng);
        run_case(&mut cx, &d, "straddle", true);
    }
    // 4. wide-link graphs that take the advanced path (space assignment / isolation / duplication;
    //    modelled since round 2: exact bytes compared; the oracle applies as well)
    for _ in 0..110 * scale {
        let d = gen_wide(&mut rng);
        run_case(&mut cx, &d, "wide", true);
    }
    // 4b. several spaces overflowing in the same isolation round
    for _ in 0..12 * scale {
        let d = gen_two_spaces(&mut rng);
        run_case(&mut cx, &d, "two_spaces", true);
    }
    // 4c. twin objects: identical bytes, different offset records
    for _ in 0..80 * scale {
        let d = gen_twins(&mut rng);
        run_case(&mut cx, &d, "twins", true);
    }
    // 4d. per-width boundary: a child at distance max-1, max, max+1 (and +-2) behind a 16- and a 24-bit offset, in Kahn
    //     order and with a sibling that forbids reordering. 16 MiB objects: implementation-only (walker).
    for w in [2usize, 3] {
        let max: usize = if w == 2 { 65535 } else { 16_777_215 };
        for delta in -2i64..=2 {
            for variant in 0..3 {
                // root: [label, L(wp)->pad, L(w)->child (, L16->child2)] ; Kahn order root, pad, child
                let wp = *rng.pick(&[2usize, 3, 4]);
                let root_size = 1 + wp + w + if variant == 2 { 2 } else { 0 };
                let pad = (max as i64 + delta) as usize - root_size;
                let mut root = vec![Item::Lit(vec![1]), Item::Link(wp, 1), Item::Link(w, 2)];
                let mut nodes = vec![vec![], body(Some(2), 0x00, pad), body(Some(3), 0x33, *rng.pick(&[1usize, 4, 100]))];
                match variant {
                    1 => nodes[1].push(Item::Link(2, 2)), // pad also links the child: the child cannot move before pad
                    2 => { root.push(Item::Link(2, 3)); nodes.push(body(Some(4), 0x44, 7)); }
                    _ => {}
                }
                nodes[0] = root;
                let d = Dag { nodes };
                run_case(&mut cx, &d, if w == 2 { "width_boundary16" } else { "width_boundary24" }, w == 2);
            }
        }
    }
    // 5. API misuse widths (model correspondence only)
    for _ in 0..60 * scale {
        let d = gen_misuse(&mut rng);
        run_case(&mut cx, &d, "misuse_width", true);
    }
    // 6. bounded-exhaustive shapes
    let ex_widths: &[usize] = if thorough { &[2, 3, 4] } else { &[2, 4] };
    exhaustive(3, &[0, 65533, 65536], ex_widths, |d| {
        run_case(&mut cx, &d, "exhaustive3", true);
    });
    if thorough {
        exhaustive(4, &[1, 32768, 65535], &[2, 4], |d| {
            run_case(&mut cx, &d, "exhaustive4", true);
        });
    }
    // 6b. real GPOS lookups that must be split/promoted, under a custom root with sibling blobs (oracle only)
    gpos_split::stream(&mut cx, &mut rng, if thorough { 60 } else { 8 });
    // 7. oracle-only: larger graphs (not sent to Coq)
    for _ in 0..1500 * scale {
        let n = 4 + rng.below(10) as usize;
        let (bb, mix, lab) = (1 + rng.below(4) as usize, rng.below(4) as u32, rng.chance(9, 10));
        let d = gen_random(&mut rng, n, bb, mix, lab);
        if d.expansion() < 3000 && d.expansion_bytes() < 4_000_000 {
            run_case(&mut cx, &d, "oracle_only_large", false);
        }
    }
    for _ in 0..300 * scale {
        let d = gen_wide(&mut rng);
        run_case(&mut cx, &d, "oracle_only_wide", false);
    }

    let shards = cx.cw.finish();
    cx.st.v.insert("shards".into(), shards.into());
    cx.st.v.insert("model_cases".into(), cx.cw.len().into());
    cx.st.write(&dir, "object DAGs (chains, fans, diamonds, duplicated content) with sizes from {0,1,2,3,100,32766..32768,65534..65536,70000}+-12, mixed 16/24/32-bit links, straddling templates (distance = max+-2), wide-link graphs forcing space assignment/duplication, all 3-node shapes; non-trivial = at least two nodes and one link (distinct by description)");
    println!("cases={} shards={} oracle_failures={}", cx.cw.len(), shards, cx.st.oracle_failures.len());
}
