//! C06 harness: drives the real `write_fonts::FontBuilder` (add_raw / copy_missing_tables / build) and the
//! real reader (`FontRef::new`, `table_directory`, `table_data`) on generated tag->bytes maps, insertion
//! orders and add-then-copy sequences; records (ops, built file, reader answers) for the Coq model
//! (coq/C06/Model.v `check_case`, byte-for-byte on the whole file); and re-checks the property's own
//! wording on the real bytes with an independent directory parser and checksum routine (the oracle).
use read_fonts::{FontRef, types::Tag};
use serde_json::json;
use std::collections::BTreeMap;
use vh::*;
use std::panic::AssertUnwindSafe;
use std::sync::Arc;
use write_fonts::tables::{
    gasp::{Gasp, GaspRange, GaspRangeBehavior},
    head::Head,
    hhea::Hhea,
    maxp::Maxp,
    name::{Name, NameRecord},
};
use write_fonts::types::{FWord, NameId, UfWord};
use write_fonts::FontBuilder;

const HEAD: u32 = u32::from_be_bytes(*b"head");
const CFF: u32 = u32::from_be_bytes(*b"CFF ");
const DSIG: u32 = u32::from_be_bytes(*b"DSIG");
const TTF_ORDER: [&[u8; 4]; 19] = [
    b"head", b"hhea", b"maxp", b"OS/2", b"hmtx", b"LTSH", b"VDMX", b"hdmx", b"cmap", b"fpgm", b"prep", b"cvt ",
    b"loca", b"glyf", b"kern", b"name", b"post", b"gasp", b"PCLT",
];
const CFF_ORDER: [&[u8; 4]; 8] = [b"head", b"hhea", b"maxp", b"OS/2", b"name", b"cmap", b"post", b"CFF "];

fn tag(t: u32) -> Tag {
    Tag::from_be_bytes(t.to_be_bytes())
}
fn tag_u32(t: Tag) -> u32 {
    u32::from_be_bytes(t.to_be_bytes())
}
fn tag_str(t: u32) -> String {
    t.to_be_bytes().iter().map(|b| if (0x20..0x7f).contains(b) { (*b as char).to_string() } else { format!("\\x{:02x}", b) }).collect()
}

#[derive(Clone, Debug)]
enum Op {
    Add(u32, Vec<u8>),
    /// copy_missing_tables(FontRef::new(bytes)) — bytes always open successfully
    Copy(Vec<u8>),
    /// add_table(&pool.tables[i]) — a typed table whose compilation succeeds or fails
    Table(usize),
    /// build() in the middle of the sequence: the SAME builder value is used for the ops that follow
    Build,
}

/// Typed top-level tables handed to `FontBuilder::add_table`.
#[derive(Clone, Debug)]
enum Typed {
    Gasp(Gasp),
    Maxp(Maxp),
    Name(Name),
    Head(Head),
    Hhea(Hhea),
}

impl Typed {
    fn tag(&self) -> u32 {
        u32::from_be_bytes(*match self {
            Typed::Gasp(_) => b"gasp",
            Typed::Maxp(_) => b"maxp",
            Typed::Name(_) => b"name",
            Typed::Head(_) => b"head",
            Typed::Hhea(_) => b"hhea",
        })
    }
    /// what `dump_table` says about this table, asked independently of any builder
    fn dump(&self) -> Result<Vec<u8>, String> {
        let r = catch(AssertUnwindSafe(|| {
            let r = match self {
                Typed::Gasp(t) => write_fonts::dump_table(t),
                Typed::Maxp(t) => write_fonts::dump_table(t),
                Typed::Name(t) => write_fonts::dump_table(t),
                Typed::Head(t) => write_fonts::dump_table(t),
                Typed::Hhea(t) => write_fonts::dump_table(t),
            };
            r.map_err(|e| match e {
                write_fonts::error::Error::ValidationFailed(_) => "validation".to_string(),
                write_fonts::error::Error::PackingFailed(_) => "packing".to_string(),
            })
        }));
        match r {
            Ok(x) => x,
            Err(p) => Err(format!("panic: {}", p)),
        }
    }
    fn add_to(&self, b: &mut FontBuilder) -> bool {
        match self {
            Typed::Gasp(t) => b.add_table(t).is_ok(),
            Typed::Maxp(t) => b.add_table(t).is_ok(),
            Typed::Name(t) => b.add_table(t).is_ok(),
            Typed::Head(t) => b.add_table(t).is_ok(),
            Typed::Hhea(t) => b.add_table(t).is_ok(),
        }
    }
}

/// Typed tables generated once per run (some are large: 65 536-element arrays), referenced by index.
struct Pool {
    tables: Vec<Typed>,
    /// `dump_table` outcome per table: Ok(bytes) or Err(kind)
    dumps: Vec<Result<Vec<u8>, String>>,
    what: Vec<&'static str>,
}

fn name_rec(platform: u16, enc: u16, lang: u16, id: u16, s: String) -> NameRecord {
    NameRecord::new(platform, enc, lang, NameId::new(id), s.into())
}

fn make_pool(rng: &mut Rng, st: &mut Stats) -> Pool {
    let mut cand: Vec<(Typed, &'static str)> = vec![];
    let range = |rng: &mut Rng| GaspRange::new(rng.next_u32() as u16, GaspRangeBehavior::from_bits_truncate(rng.below(16) as u16));
    for n in [0usize, 1, 1, 2, 3] {
        let r: Vec<GaspRange> = (0..n).map(|_| range(rng)).collect();
        cand.push((Typed::Gasp(Gasp::new(rng.below(2) as u16, n as u16, r)), "gasp.ok"));
    }
    for n in [65_536usize, 65_537, 70_000 + rng.below(100) as usize] {
        let r: Vec<GaspRange> = (0..n).map(|_| range(rng)).collect();
        cand.push((Typed::Gasp(Gasp::new(1, 0, r)), "gasp.too_many_ranges"));
    }
    for _ in 0..3 {
        cand.push((Typed::Maxp(Maxp::new(rng.next_u32() as u16)), "maxp.ok_v0_5"));
        let mut full = Maxp::new(rng.next_u32() as u16);
        let v = |rng: &mut Rng| Some(rng.below(300) as u16);
        full.max_points = v(rng);
        full.max_contours = v(rng);
        full.max_composite_points = v(rng);
        full.max_composite_contours = v(rng);
        full.max_zones = v(rng);
        full.max_twilight_points = v(rng);
        full.max_storage = v(rng);
        full.max_function_defs = v(rng);
        full.max_instruction_defs = v(rng);
        full.max_stack_elements = v(rng);
        full.max_size_of_instructions = v(rng);
        full.max_component_elements = v(rng);
        full.max_component_depth = v(rng);
        cand.push((Typed::Maxp(full.clone()), "maxp.ok_v1_0"));
        // version 1.0 with a required field missing
        let mut bad = full;
        match rng.below(4) {
            0 => bad.max_points = None,
            1 => bad.max_zones = None,
            2 => bad.max_component_depth = None,
            _ => {
                bad.max_contours = None;
                bad.max_storage = None;
            }
        }
        cand.push((Typed::Maxp(bad), "maxp.missing_field_for_version"));
    }
    let word = |rng: &mut Rng| -> String { (0..1 + rng.below(4)).map(|_| (b'a' + rng.below(26) as u8) as char).collect() };
    cand.push((Typed::Name(Name::new(vec![])), "name.ok"));
    cand.push((Typed::Name(Name::new(vec![name_rec(3, 1, 0x409, 1, word(rng))])), "name.ok"));
    cand.push((Typed::Name(Name::new(vec![name_rec(1, 0, 0, 1, word(rng)), name_rec(3, 1, 0x409, 2, word(rng))])), "name.ok"));
    cand.push((Typed::Name(Name::new(vec![name_rec(3, 1, 0x409, 2, word(rng)), name_rec(3, 1, 0x409, 1, word(rng))])), "name.unsorted_records"));
    cand.push((Typed::Name(Name::new(vec![name_rec(3, 1, 0x409, 4, word(rng)), name_rec(3, 1, 0x409, 4, word(rng))])), "name.duplicate_records"));
    cand.push((Typed::Name(Name::new(vec![name_rec(7, 9, 0, 1, word(rng))])), "name.unknown_encoding"));
    cand.push((Typed::Name(Name::new(vec![name_rec(1, 0, 0, 1, "\u{4f60}\u{597d}".to_string())])), "name.not_mac_roman"));
    // string storage beyond the reach of 16-bit offsets: offset overflow while packing
    let long = |c: char| -> String { std::iter::repeat(c).take(20_000).collect() };
    cand.push((Typed::Name(Name::new(vec![name_rec(3, 1, 0x409, 1, long('x')), name_rec(3, 1, 0x409, 2, long('y')), name_rec(3, 1, 0x409, 3, long('z'))])), "name.offset_overflow"));
    for _ in 0..3 {
        let mut h = Head::default();
        h.units_per_em = rng.range(16, 16384) as u16;
        h.flags = rng.next_u32() as u16;
        h.checksum_adjustment = if rng.chance(1, 2) { rng.next_u32() } else { 0 };
        h.x_min = rng.next_u32() as i16;
        h.index_to_loc_format = rng.below(2) as i16;
        cand.push((Typed::Head(h), "head.ok"));
        let mut hh = Hhea::default();
        hh.ascender = FWord::new(rng.next_u32() as i16);
        hh.descender = FWord::new(rng.next_u32() as i16);
        hh.advance_width_max = UfWord::new(rng.next_u32() as u16);
        hh.number_of_h_metrics = rng.next_u32() as u16;
        cand.push((Typed::Hhea(hh), "hhea.ok"));
    }
    let mut pool = Pool { tables: vec![], dumps: vec![], what: vec![] };
    for (t, what) in cand {
        let d = t.dump();
        match &d {
            Err(e) if e.starts_with("panic") => {
                // compiling this table panics: outside this property (C04/C05); never handed to add_table
                st.count(&format!("pool.dump_table_panics.{}", what));
                continue;
            }
            Ok(_) => st.count(&format!("pool.{}=ok", what)),
            Err(e) => st.count(&format!("pool.{}=err.{}", what, e)),
        }
        pool.tables.push(t);
        pool.dumps.push(d);
        pool.what.push(what);
    }
    pool
}

/// What the real reader says about a file.
#[derive(Clone, Debug, Default)]
struct ReaderObs {
    opens: bool,
    header: Vec<u32>,
    tags: Vec<u32>,
    queries: Vec<(u32, Option<Vec<u8>>)>,
}

fn read_obs(file: &[u8], qtags: &[u32]) -> Result<ReaderObs, String> {
    let file = file.to_vec();
    let qtags = qtags.to_vec();
    catch(move || match FontRef::new(&file) {
        Err(_) => ReaderObs::default(),
        Ok(font) => {
            let td = &font.table_directory;
            ReaderObs {
                opens: true,
                header: vec![td.sfnt_version(), td.num_tables() as u32, td.search_range() as u32, td.entry_selector() as u32, td.range_shift() as u32],
                tags: td.table_records().iter().map(|r| tag_u32(r.tag())).collect(),
                queries: qtags.iter().map(|t| (*t, font.table_data(tag(*t)).map(|d| d.as_bytes().to_vec()))).collect(),
            }
        }
    })
}

/// What the real builder did.
#[derive(Default)]
struct BuilderRun {
    /// ordered_tags() right before build()
    order: Vec<u32>,
    /// (op index, add_table(..).is_ok())
    table_ok: Vec<(usize, bool)>,
    /// contains(probe) for every probe tag after every op
    contains_after: Vec<Vec<bool>>,
    /// output and ordered_tags() of every intermediate build() (Op::Build), in order
    builds: Vec<(Vec<u8>, Vec<u32>)>,
}

/// Runs the ops on a real FontBuilder; returns build output (or the panic text) and the observations.
fn run_builder(ops: &[Op], pool: &Arc<Pool>, probes: &[u32]) -> (Result<Vec<u8>, String>, BuilderRun) {
    let ops = ops.to_vec();
    let pool = pool.clone();
    let probes = probes.to_vec();
    let r = catch(AssertUnwindSafe(move || {
        let mut run = BuilderRun::default();
        let mut b = FontBuilder::new();
        for (i, op) in ops.iter().enumerate() {
            match op {
                Op::Add(t, d) => {
                    b.add_raw(tag(*t), d.clone());
                }
                Op::Copy(src) => {
                    let f = FontRef::new(src).expect("copy source opens");
                    b.copy_missing_tables(f);
                }
                Op::Table(k) => {
                    let ok = pool.tables[*k].add_to(&mut b);
                    run.table_ok.push((i, ok));
                }
                Op::Build => {
                    let order: Vec<u32> = b.ordered_tags().into_iter().map(tag_u32).collect();
                    let bytes = b.build();
                    run.builds.push((bytes, order));
                }
            }
            run.contains_after.push(probes.iter().map(|t| b.contains(tag(*t))).collect());
        }
        run.order = b.ordered_tags().into_iter().map(tag_u32).collect();
        (b.build(), run)
    }));
    match r {
        Ok((bytes, run)) => (Ok(bytes), run),
        Err(e) => (Err(e), BuilderRun::default()),
    }
}

// ---------------- independent oracle ----------------

fn own_checksum(b: &[u8]) -> u32 {
    let mut s: u32 = 0;
    for (i, x) in b.iter().enumerate() {
        s = s.wrapping_add((*x as u32) << (8 * (3 - (i % 4))));
    }
    s
}
fn be32(b: &[u8], o: usize) -> Option<u32> {
    b.get(o..o + 4).map(|s| ((s[0] as u32) << 24) | ((s[1] as u32) << 16) | ((s[2] as u32) << 8) | s[3] as u32)
}
fn be16(b: &[u8], o: usize) -> Option<u32> {
    b.get(o..o + 2).map(|s| ((s[0] as u32) << 8) | s[1] as u32)
}
/// own directory parser: (tag, checksum, offset, length) in directory order
fn own_directory(file: &[u8]) -> Option<(u32, Vec<(u32, u32, u32, u32)>)> {
    let n = be16(file, 4)? as usize;
    let mut v = vec![];
    for i in 0..n {
        let o = 12 + 16 * i;
        v.push((be32(file, o)?, be32(file, o + 4)?, be32(file, o + 8)?, be32(file, o + 12)?));
    }
    Some((be32(file, 0)?, v))
}
fn own_slice(file: &[u8], off: u32, len: u32) -> Option<&[u8]> {
    file.get(off as usize..(off as usize).checked_add(len as usize)?)
}

/// The final map the op sequence denotes, computed without the builder (BTreeMap of the harness).
fn expected_map(ops: &[Op], pool: &Pool) -> BTreeMap<u32, Vec<u8>> {
    let mut m: BTreeMap<u32, Vec<u8>> = BTreeMap::new();
    for op in ops {
        apply_expected(&mut m, op, pool);
    }
    m
}

/// One op on the harness's own map: the property's reading of add_raw / add_table / copy_missing_tables.
fn apply_expected(m: &mut BTreeMap<u32, Vec<u8>>, op: &Op, pool: &Pool) {
    {
        match op {
            Op::Add(t, d) => {
                m.insert(*t, d.clone());
            }
            // build() hands the font over and leaves the builder empty
            Op::Build => m.clear(),
            // a table that compiles is supplied under its tag; one that does not was never supplied
            Op::Table(k) => {
                if let Ok(bytes) = &pool.dumps[*k] {
                    m.insert(pool.tables[*k].tag(), bytes.clone());
                }
            }
            Op::Copy(src) => {
                if let Some((_, recs)) = own_directory(src) {
                    // A well-formed (strictly ascending) source directory is read with the harness's own
                    // parser.  For a damaged source (unsorted / duplicate tags) what "the font's table t"
                    // means is whatever the reader's binary search finds, so the reader is asked.
                    let ascending = recs.windows(2).all(|w| w[0].0 < w[1].0);
                    let reader = (!ascending).then(|| FontRef::new(src).expect("copy source opens"));
                    for (t, _, off, len) in recs {
                        if !m.contains_key(&t) {
                            let d = match &reader {
                                None => if off != 0 { own_slice(src, off, len).map(|s| s.to_vec()) } else { None },
                                Some(f) => f.table_data(tag(t)).map(|d| d.as_bytes().to_vec()),
                            };
                            if let Some(d) = d {
                                m.insert(t, d);
                            }
                        }
                    }
                }
            }
        }
    }
}

fn expected_order(m: &BTreeMap<u32, Vec<u8>>) -> Vec<u32> {
    let rec: Vec<u32> = if m.contains_key(&CFF) {
        CFF_ORDER.iter().map(|t| u32::from_be_bytes(**t)).collect()
    } else {
        TTF_ORDER.iter().map(|t| u32::from_be_bytes(**t)).collect()
    };
    let mut out: Vec<u32> = rec.iter().copied().filter(|t| m.contains_key(t)).collect();
    out.extend(m.keys().copied().filter(|t| *t != DSIG && !rec.contains(t)));
    if m.contains_key(&DSIG) {
        out.push(DSIG);
    }
    out
}

/// The property text checked on the real output. Returns the list of clauses that fail.
fn oracle(m: &BTreeMap<u32, Vec<u8>>, file: &[u8], order_reported: &[u32], obs: &ReaderObs, absent: &[u32]) -> Vec<String> {
    let mut bad = vec![];
    let n = m.len();
    let Some((sfnt, recs)) = own_directory(file) else {
        return vec!["file too short for its own directory".into()];
    };
    if sfnt != 0x0001_0000 {
        bad.push(format!("sfnt version {:#x}", sfnt));
    }
    if !obs.opens {
        bad.push("FontRef::new fails on the built file".into());
    }
    // lists exactly those tags in ascending order
    let keys: Vec<u32> = m.keys().copied().collect();
    let dir_tags: Vec<u32> = recs.iter().map(|r| r.0).collect();
    if dir_tags != keys {
        bad.push("directory tags != supplied tags ascending".into());
    }
    if obs.opens && obs.tags != keys {
        bad.push("FontRef directory listing != supplied tags ascending".into());
    }
    if be16(file, 4) != Some(n as u32) {
        bad.push("numTables".into());
    }
    if n >= 1 {
        let es = 31 - (n as u32).leading_zeros();
        let sr = (1u32 << es) * 16;
        let rs = n as u32 * 16 - sr;
        if (be16(file, 6), be16(file, 8), be16(file, 10)) != (Some(sr), Some(es), Some(rs)) {
            bad.push("searchRange/entrySelector/rangeShift".into());
        }
    }
    if file.len() % 4 != 0 {
        bad.push("file length not a multiple of 4".into());
    }
    // per table
    let mut has_long_head = false;
    for (t, ck, off, len) in &recs {
        let Some(want) = m.get(t) else { continue };
        if off % 4 != 0 {
            bad.push(format!("offset of {} not 4-aligned", tag_str(*t)));
        }
        let Some(got) = own_slice(file, *off, *len) else {
            bad.push(format!("table {} out of bounds", tag_str(*t)));
            continue;
        };
        let long_head = *t == HEAD && want.len() >= 12;
        has_long_head |= long_head;
        let mut w = want.clone();
        let mut g = got.to_vec();
        if long_head && g.len() >= 12 {
            w[8..12].fill(0);
            g[8..12].fill(0);
        }
        if w != g {
            bad.push(format!("table {} bytes differ from the bytes supplied", tag_str(*t)));
        }
        // zero padding up to the next multiple of 4
        let end = *off as usize + *len as usize;
        let pend = (end + 3) / 4 * 4;
        match file.get(end..pend) {
            Some(p) if p.iter().all(|b| *b == 0) => {}
            _ => bad.push(format!("padding after {} missing or not zero", tag_str(*t))),
        }
        if *ck != own_checksum(&g) {
            bad.push(format!("directory checksum of {} != checksum of its table", tag_str(*t)));
        }
        // reader answer
        if obs.opens {
            match obs.queries.iter().find(|q| q.0 == *t) {
                Some((_, Some(d))) => {
                    let mut d = d.clone();
                    if long_head && d.len() >= 12 {
                        d[8..12].fill(0);
                    }
                    if d != w {
                        bad.push(format!("table_data({}) != supplied bytes", tag_str(*t)));
                    }
                }
                Some((_, None)) => bad.push(format!("table_data({}) is None", tag_str(*t))),
                None => {}
            }
        }
    }
    for t in absent {
        if !m.contains_key(t) {
            if let Some((_, Some(_))) = obs.queries.iter().find(|q| q.0 == *t) {
                bad.push(format!("table_data({}) is Some for an absent tag", tag_str(*t)));
            }
        }
    }
    // layout: tables in the recommended order, back to back after the directory, no overlap, file ends after last
    let exp_order = expected_order(m);
    if order_reported != exp_order.as_slice() {
        bad.push("ordered_tags() differs from the documented order".into());
    }
    let mut pos = 12 + 16 * n;
    for t in &exp_order {
        match recs.iter().find(|r| r.0 == *t) {
            Some((_, _, off, len)) => {
                if *off as usize != pos {
                    bad.push(format!("table {} not at the expected position (overlap/gap/order)", tag_str(*t)));
                }
                pos = (*off as usize + *len as usize + 3) / 4 * 4;
            }
            None => {}
        }
    }
    if pos != file.len() {
        bad.push("file does not end right after the last padded table".into());
    }
    if has_long_head && own_checksum(file) != 0xB1B0_AFBA {
        bad.push(format!("whole-file checksum {:#x} != 0xB1B0AFBA", own_checksum(file)));
    }
    bad
}

// ---------------- generators ----------------

/// Registered sfnt table tags (OpenType, Apple AAT, Graphite, IFT) and container signatures: the pool from
/// which "some other real-world table" is drawn, so every tag a font tool might single out occurs together
/// with its look-alikes.
const REGISTRY: [&[u8; 4]; 84] = [
    b"avar", b"BASE", b"bdat", b"BDF ", b"bhed", b"bloc", b"bsln", b"CBDT", b"CBLC", b"CFF ", b"CFF2", b"cmap", b"COLR", b"CPAL",
    b"cvar", b"cvt ", b"DSIG", b"EBDT", b"EBLC", b"EBSC", b"fdsc", b"feat", b"fmtx", b"fond", b"fpgm", b"fvar", b"gasp", b"gcid",
    b"GDEF", b"glyf", b"GPOS", b"GSUB", b"gvar", b"hdmx", b"head", b"hhea", b"hmtx", b"HVAR", b"JSTF", b"just", b"kern", b"kerx",
    b"lcar", b"loca", b"ltag", b"LTSH", b"MATH", b"maxp", b"MERG", b"meta", b"mort", b"morx", b"MVAR", b"name", b"opbd", b"OS/2",
    b"PCLT", b"post", b"prep", b"prop", b"sbix", b"STAT", b"SVG ", b"trak", b"VDMX", b"vhea", b"vmtx", b"VORG", b"VVAR", b"xref",
    b"Zapf", b"Silf", b"Glat", b"Gloc", b"Feat", b"Sill", b"IFT ", b"IFTX", b"ttcf", b"OTTO", b"true", b"typ1", b"wOFF", b"wOF2",
];

/// 4-byte tag literals (`b"...."`) in the non-test part of the builder's source, read at run time from the tree
/// under test (FV_REPO): the tags the code singles out.  A tag the code starts to special-case enters the
/// generator's universe through this list, and the Coq model is asked to know exactly this set.
fn source_special_tags() -> Vec<u32> {
    let repo = std::env::var("FV_REPO").unwrap_or_else(|_| "/repo".to_string());
    let mut out = vec![];
    for f in ["write-fonts/src/font_builder.rs", "write-fonts/src/util.rs"] {
        let Ok(src) = std::fs::read_to_string(format!("{}/{}", repo, f)) else { continue };
        let src = src.split("#[cfg(test)]").next().unwrap_or("");
        // drop comments so that prose does not count
        let code: String = src.lines().map(|l| l.split("//").next().unwrap_or("")).collect::<Vec<_>>().join("\n");
        let b = code.as_bytes();
        let mut i = 0;
        while i + 7 <= b.len() {
            if b[i] == b'b' && b[i + 1] == b'"' && b[i + 6] == b'"' && (i == 0 || !(b[i - 1].is_ascii_alphanumeric() || b[i - 1] == b'_')) && b[i + 2..i + 6].iter().all(|c| (0x20..0x7f).contains(c) && *c != b'"' && *c != b'\\') {
                out.push(u32::from_be_bytes([b[i + 2], b[i + 3], b[i + 4], b[i + 5]]));
                i += 7;
            } else {
                i += 1;
            }
        }
    }
    out.sort();
    out.dedup();
    out
}

/// tags easily confused with `t`: registry tags sharing two positions or three letters with it, and small edits
fn look_alikes(t: u32, universe: &[u32]) -> Vec<u32> {
    let a = t.to_be_bytes();
    let lower = |x: [u8; 4]| -> Vec<u8> { let mut v: Vec<u8> = x.iter().map(|c| c.to_ascii_lowercase()).collect(); v.sort(); v };
    let la = lower(a);
    let mut out: Vec<u32> = universe
        .iter()
        .copied()
        .filter(|u| *u != t)
        .filter(|u| {
            let b = u.to_be_bytes();
            let same_pos = (0..4).filter(|i| a[*i] == b[*i]).count();
            let mut lb = lower(b);
            let mut common = 0;
            for c in &la {
                if let Some(p) = lb.iter().position(|x| x == c) {
                    lb.remove(p);
                    common += 1;
                }
            }
            same_pos >= 2 || common >= 3
        })
        .collect();
    // small edits: case of the first letter, first two bytes swapped, last byte +-1, trailing space <-> '2'
    let mut e = a;
    e[0] ^= 0x20;
    out.push(u32::from_be_bytes(e));
    out.push(u32::from_be_bytes([a[1], a[0], a[2], a[3]]));
    out.push(t.wrapping_add(1));
    out.push(t.wrapping_sub(1));
    out.retain(|u| *u != t);
    out.sort();
    out.dedup();
    out
}

struct Gen {
    rng: Rng,
    thorough: bool,
    pool: Arc<Pool>,
    /// REGISTRY plus the tag literals found in the source under test
    universe: Vec<u32>,
}

impl Gen {
    fn gen_tag(&mut self, st: &mut Stats) -> u32 {
        let r = self.rng.below(100);
        let t = if r < 14 {
            HEAD
        } else if r < 22 {
            CFF
        } else if r < 30 {
            DSIG
        } else if r < 55 {
            u32::from_be_bytes(**self.rng.pick(&TTF_ORDER))
        } else if r < 62 {
            u32::from_be_bytes(**self.rng.pick(&CFF_ORDER))
        } else if r < 70 {
            // a registered table tag or a tag the source under test mentions
            *self.rng.pick(&self.universe)
        } else if r < 80 {
            // printable
            let mut b = [0u8; 4];
            for x in b.iter_mut() {
                *x = self.rng.range(0x20, 0x7e) as u8;
            }
            u32::from_be_bytes(b)
        } else if r < 90 {
            // neighbours of special tags and extremes
            let base = *self.rng.pick(&[HEAD, CFF, DSIG, 0u32, 0xFFFF_FFFF, 0x8000_0000, 0x7FFF_FFFF, 0x0100_0000, 0x00FF_FFFF]);
            base.wrapping_add(self.rng.range(-2, 2) as u32)
        } else {
            self.rng.next_u32()
        };
        st.count(match t {
            HEAD => "tag.head",
            CFF => "tag.CFF",
            DSIG => "tag.DSIG",
            _ => "tag.other",
        });
        t
    }
    fn gen_bytes(&mut self, len: usize) -> Vec<u8> {
        match self.rng.below(10) {
            0 => vec![0xFF; len],
            1 => vec![0; len],
            2 => (0..len).map(|i| if i % 4 == 0 { 0xFF } else { self.rng.next_u64() as u8 }).collect(),
            _ => self.rng.bytes(len),
        }
    }
    fn small_len(&mut self, t: u32) -> usize {
        if (t == HEAD && self.rng.chance(3, 4)) || self.rng.chance(1, 10) {
            *self.rng.pick(&[0usize, 7, 8, 9, 10, 11, 12, 13, 14, 15, 16, 17, 20, 54])
        } else if self.rng.chance(1, 8) {
            self.rng.range(18, 40) as usize
        } else {
            self.rng.range(0, 17) as usize
        }
    }
    fn big_len(&mut self) -> usize {
        match self.rng.below(12) {
            0 => 255,
            1 => 256,
            2 => 4093 + self.rng.below(8) as usize,
            3 if self.thorough || self.rng.chance(1, 4) => 70_000 + self.rng.below(4) as usize,
            4 => 65_533 + self.rng.below(6) as usize,
            _ => self.rng.range(0, 64) as usize,
        }
    }
    /// a sequence of add_raw ops (with occasional re-adds of the same tag) over `ntags` tags
    fn gen_adds(&mut self, ntags: usize, big: bool, st: &mut Stats) -> Vec<Op> {
        let mut tags: Vec<u32> = vec![];
        while tags.len() < ntags {
            let t = self.gen_tag(st);
            if !tags.contains(&t) {
                tags.push(t);
            }
        }
        if !tags.is_empty() && self.rng.chance(1, 5) {
            // a look-alike of one of the chosen tags rides along
            let t = *self.rng.pick(&tags);
            let la = look_alikes(t, &self.universe);
            if !la.is_empty() {
                let l = *self.rng.pick(&la);
                if !tags.contains(&l) {
                    tags.push(l);
                    st.count("tag.look_alike_added");
                }
            }
        }
        let mut ops = vec![];
        for t in &tags {
            let l = if big { self.big_len() } else { self.small_len(*t) };
            ops.push(Op::Add(*t, self.gen_bytes(l)));
            if self.rng.chance(1, 10) {
                // replaced later (insert-or-replace)
                let l = if big { self.big_len() } else { self.small_len(*t) };
                ops.push(Op::Add(*t, self.gen_bytes(l)));
                st.count("op.replace");
            }
        }
        // typed tables through add_table: compiling ones and failing ones (all failure kinds of the pool),
        // for tags that may or may not also be supplied raw / copied, anywhere in the sequence
        if !self.pool.tables.is_empty() && self.rng.chance(2, 5) {
            for _ in 0..1 + self.rng.below(3) {
                let k = self.rng.below(self.pool.tables.len() as u64) as usize;
                if big || self.pool.dumps[k].as_ref().map(|b| b.len() <= 64).unwrap_or(true) {
                    ops.push(Op::Table(k));
                    if self.rng.chance(1, 4) {
                        // the same tag also supplied raw, before or after (shuffle decides)
                        let t = self.pool.tables[k].tag();
                        let l = if big { self.big_len() } else { self.small_len(t) };
                        ops.push(Op::Add(t, self.gen_bytes(l)));
                    }
                }
            }
        }
        self.rng.shuffle(&mut ops);
        ops
    }
}

fn coq_ops(ops: &[Op], pool: &Pool, builds: &[(Vec<u8>, Vec<u32>)]) -> String {
    let nb = std::cell::Cell::new(0usize);
    clist(ops.iter(), |o| match o {
        Op::Build => {
            let k = nb.get();
            nb.set(k + 1);
            format!("(6, 0, {})", cbytes(&builds[k].0))
        }
        Op::Add(t, d) => format!("(0, {}, {})", t, cbytes(d)),
        Op::Copy(src) => format!("(1, 0, {})", cbytes(src)),
        Op::Table(k) => match &pool.dumps[*k] {
            Ok(bytes) => format!("(3, {}, {})", pool.tables[*k].tag(), cbytes(bytes)),
            Err(_) => format!("(4, {}, [])", pool.tables[*k].tag()),
        },
    })
}
fn coq_probes(probes: &[u32], vals: &[bool]) -> String {
    clist(probes.iter().zip(vals.iter()), |(t, b)| format!("({}, {})", t, cbool(*b)))
}
fn coq_obs(o: &ReaderObs) -> String {
    format!(
        "({}, {}, {}, {})",
        cbool(o.opens),
        czlist(o.header.iter().map(|v| *v as i128)),
        czlist(o.tags.iter().map(|v| *v as i128)),
        clist(o.queries.iter(), |(t, d)| format!("({}, {})", t, copt(d.as_ref().map(|d| cbytes(d)))))
    )
}

fn absent_probes(rng: &mut Rng, m: &BTreeMap<u32, Vec<u8>>) -> Vec<u32> {
    let mut v = vec![0u32, 0xFFFF_FFFF, HEAD, DSIG, rng.next_u32()];
    for k in m.keys().take(3) {
        v.push(k.wrapping_add(1));
        v.push(k.wrapping_sub(1));
    }
    v.retain(|t| !m.contains_key(t));
    v.sort();
    v.dedup();
    v
}

/// One builder case: run, observe, oracle, (optionally) emit to the model shards.
fn builder_case(g: &mut Gen, ops: Vec<Op>, to_model: bool, st: &mut Stats, cw: &mut CaseWriter, key: &str) -> Option<Vec<u8>> {
    st.evaluations += 1;
    let pool = g.pool.clone();
    let m = expected_map(&ops, &pool);
    // tags whose presence is asked of the real builder (`contains`) after every op
    let mut probes: Vec<u32> = vec![];
    for op in &ops {
        match op {
            Op::Add(t, _) => probes.push(*t),
            Op::Table(k) => probes.push(pool.tables[*k].tag()),
            Op::Build => {}
            Op::Copy(src) => probes.extend(own_directory(src).map(|x| x.1.iter().map(|r| r.0).collect::<Vec<_>>()).unwrap_or_default()),
        }
    }
    probes.extend(["gasp", "maxp", "name", "head", "hhea"].iter().map(|t| u32::from_be_bytes(t.as_bytes().try_into().unwrap())));
    probes.push(g.rng.next_u32());
    probes.sort();
    probes.dedup();
    if probes.len() > 24 {
        g.rng.shuffle(&mut probes);
        probes.truncate(24);
        probes.sort();
    }
    let (built, run) = run_builder(&ops, &pool, &probes);
    let order = run.order.clone();
    let n = m.len();
    // add_table must answer Ok exactly when the table compiles, and — whatever it answers — the builder must
    // hold exactly the tags supplied so far: checked after EVERY op against the harness's own map
    {
        for (i, ok) in &run.table_ok {
            if let Op::Table(k) = &ops[*i] {
                let want = pool.dumps[*k].is_ok();
                st.count(&match &pool.dumps[*k] {
                    Ok(_) => "op.add_table_ok".to_string(),
                    Err(e) => format!("op.add_table_err.{}", e),
                });
                if *ok != want {
                    st.oracle_failure(json!({"key": format!("add_table-result:{}", pool.what[*k]), "why": format!("add_table returned is_ok()={} but dump_table of the same table is_ok()={}", ok, want), "case": key}));
                }
            }
        }
        let mut em: BTreeMap<u32, Vec<u8>> = BTreeMap::new();
        let mut nbuild = 0usize;
        for (i, op) in ops.iter().enumerate() {
            if let Op::Table(k) = op {
                if pool.dumps[*k].is_err() {
                    st.count(if em.contains_key(&pool.tables[*k].tag()) { "branch.add_table_err_tag_already_present" } else { "branch.add_table_err_fresh_tag" });
                    if !em.contains_key(&pool.tables[*k].tag()) && ops[i + 1..].iter().any(|o| matches!(o, Op::Copy(src) if own_directory(src).map(|x| x.1.iter().any(|r| r.0 == pool.tables[*k].tag())).unwrap_or(false))) {
                        st.count("branch.add_table_err_fresh_tag_then_copy_source_has_tag");
                    }
                }
            }
            if let Op::Build = op {
                // an intermediate font of a reused builder: the whole property text applies to it as well
                st.count("op.build_then_reuse");
                if em.values().any(|d| d.is_empty()) {
                    st.count("branch.reuse_after_font_with_zero_length_table");
                }
                if ops[i + 1..].iter().any(|o| matches!(o, Op::Copy(_))) {
                    st.count("branch.reuse_copy_after_build");
                }
                if let Some((file, order)) = run.builds.get(nbuild) {
                    let absent = absent_probes(&mut g.rng, &em);
                    let mut q: Vec<u32> = em.keys().copied().collect();
                    q.extend(absent.iter().copied());
                    match read_obs(file, &q) {
                        Ok(obs) => {
                            let bad = oracle(&em, file, order, &obs, &absent);
                            if !bad.is_empty() {
                                st.oracle_failure(json!({"key": format!("{}:build#{}:{}", key, nbuild, bad[0]), "why": bad, "ntables": em.len()}));
                            }
                        }
                        Err(e) => st.oracle_failure(json!({"key": format!("reader-panic:{}:build#{}", key, nbuild), "why": e})),
                    }
                }
                nbuild += 1;
            }
            apply_expected(&mut em, op, &pool);
            if let Some(got) = run.contains_after.get(i) {
                for (t, c) in probes.iter().zip(got.iter()) {
                    if *c != em.contains_key(t) {
                        let what = match op {
                            Op::Build => "build".to_string(),
                            Op::Add(..) => "add_raw".to_string(),
                            Op::Copy(_) => "copy_missing_tables".to_string(),
                            Op::Table(k) => format!("add_table({}: {})", pool.what[*k], if pool.dumps[*k].is_ok() { "compiles" } else { "fails" }),
                        };
                        st.oracle_failure(json!({
                            "key": format!("contains-after-{}", what),
                            "why": format!("after op #{} = {}, contains({}) = {} but at this point the builder {} that tag", i, what, tag_str(*t), c, if em.contains_key(t) { "must hold" } else { "must not hold (never successfully supplied since the last build)" }),
                            "case": key,
                        }));
                        break;
                    }
                }
            }
        }
        st.add("contains_probes_checked", (run.contains_after.len() * probes.len()) as u64);
    }
    let final_contains: Vec<bool> = run.contains_after.last().cloned().unwrap_or_else(|| probes.iter().map(|_| false).collect());
    st.count(&format!("ntables.{}", if n <= 6 { n.to_string() } else if n <= 64 { "7-64".into() } else { "65+".into() }));
    for (t, d) in &m {
        st.count(&format!("len_mod4.{}", d.len() % 4));
        if *t == HEAD {
            st.count(if d.len() >= 12 { "branch.head_long(adjustment written)" } else { "branch.head_short(no adjustment)" });
        }
    }
    st.count(if m.contains_key(&CFF) { "branch.order_cff" } else { "branch.order_ttf" });
    if m.contains_key(&DSIG) {
        st.count("branch.dsig_last");
    }
    let file = match built {
        Ok(f) => f,
        Err(e) => {
            st.count("build_panics");
            // a panic on an input inside the stated size preconditions fails "opens successfully"
            let total: u64 = 12 + 16 * n as u64 + m.values().map(|d| (d.len() as u64 + 3) / 4 * 4).sum::<u64>();
            if n <= 4095 && total < (1u64 << 32) {
                st.oracle_failure(json!({"key": format!("build-panic:{}", key), "why": format!("build panicked: {}", e), "ntables": n}));
            }
            if to_model && !ops.iter().any(|o| matches!(o, Op::Build)) {
                cw.push(format!("({}, [], None, (false, [], [], []))", coq_ops(&ops, &pool, &[])));
            }
            return None;
        }
    };
    let absent = absent_probes(&mut g.rng, &m);
    let mut q: Vec<u32> = m.keys().copied().collect();
    q.extend(absent.iter().copied());
    st.add("queries.present", m.len() as u64);
    st.add("queries.absent", absent.len() as u64);
    let obs = match read_obs(&file, &q) {
        Ok(o) => o,
        Err(e) => {
            st.oracle_failure(json!({"key": format!("reader-panic:{}", key), "why": e}));
            return Some(file);
        }
    };
    let bad = oracle(&m, &file, &order, &obs, &absent);
    if !bad.is_empty() {
        st.oracle_failure(json!({
            "key": format!("{}:{}", key, bad[0]),
            "why": bad,
            "tables": m.iter().take(12).map(|(t, d)| json!({"tag": tag_str(*t), "len": d.len(), "bytes": if d.len() <= 64 { json!(d) } else { json!("...") }})).collect::<Vec<_>>(),
            "ops": ops.len(),
        }));
    }
    // insertion order irrelevance on the real code: same final map, fresh random order, plain adds
    let mut again: Vec<Op> = m.iter().map(|(t, d)| Op::Add(*t, d.clone())).collect();
    g.rng.shuffle(&mut again);
    let (b2, _) = run_builder(&again, &pool, &[]);
    if b2.as_ref().ok() != Some(&file) {
        st.oracle_failure(json!({"key": format!("{}:order-dependence", key), "why": "same final map added in a different order builds different bytes", "ntables": n}));
    }
    st.count("order_irrelevance_checked");
    let nontrivial = n >= 2 && m.values().any(|d| d.len() % 4 != 0);
    if nontrivial {
        st.nontrivial(&format!("{:?}", m));
    }
    if to_model {
        cw.push(format!("({}, {}, Some {}, {})", coq_ops(&ops, &pool, &run.builds), coq_probes(&probes, &final_contains), cbytes(&file), coq_obs(&obs)));
        st.sample(json!({"tables": m.iter().map(|(t, d)| json!({"tag": tag_str(*t), "len": d.len()})).collect::<Vec<_>>(), "file_len": file.len(), "order": order.iter().map(|t| tag_str(*t)).collect::<Vec<_>>()}));
    }
    Some(file)
}

/// malformed / boundary reader stream: mutations of a built file, fed to FontRef::new / table_data only
fn mutate_file(rng: &mut Rng, f: &[u8], st: &mut Stats) -> Vec<u8> {
    let mut v = f.to_vec();
    let n = be16(f, 4).unwrap_or(0) as usize;
    match rng.below(11) {
        0 => {
            st.count("malformed.truncate");
            let cut = rng.below(v.len() as u64 + 1) as usize;
            v.truncate(cut);
        }
        1 => {
            st.count("malformed.truncate_header");
            let cut = rng.below(14.min(v.len() as u64 + 1)) as usize;
            v.truncate(cut);
        }
        2 => {
            st.count("malformed.sfnt_version");
            let ver: [u8; 4] = *rng.pick(&[*b"OTTO", *b"true", *b"ttcf", *b"typ1", [0, 1, 0, 1], [0, 0, 0, 0]]);
            if v.len() >= 4 {
                v[..4].copy_from_slice(&ver);
            }
        }
        3 if n >= 2 => {
            st.count("malformed.swap_records(unsorted)");
            let a = rng.below(n as u64) as usize;
            let b = rng.below(n as u64) as usize;
            for k in 0..16 {
                v.swap(12 + 16 * a + k, 12 + 16 * b + k);
            }
        }
        4 if n >= 2 => {
            st.count("malformed.duplicate_tag");
            let a = rng.below(n as u64) as usize;
            let b = rng.below(n as u64) as usize;
            for k in 0..4 {
                v[12 + 16 * b + k] = v[12 + 16 * a + k];
            }
        }
        5 if n >= 1 => {
            st.count("malformed.zero_offset");
            let a = rng.below(n as u64) as usize;
            for k in 8..12 {
                v[12 + 16 * a + k] = 0;
            }
        }
        6 if n >= 1 => {
            st.count("malformed.length_out_of_bounds");
            let a = rng.below(n as u64) as usize;
            let l = be32(&v, 12 + 16 * a + 12).unwrap();
            let nl = match rng.below(4) {
                0 => l.wrapping_add(1 + rng.below(8) as u32),
                1 => (v.len() as u32).wrapping_sub(be32(&v, 12 + 16 * a + 8).unwrap()),
                2 => (v.len() as u32).wrapping_sub(be32(&v, 12 + 16 * a + 8).unwrap()).wrapping_add(1),
                _ => 0xFFFF_FFFF,
            };
            v[12 + 16 * a + 12..12 + 16 * a + 16].copy_from_slice(&nl.to_be_bytes());
        }
        7 if n >= 1 => {
            st.count("malformed.offset_out_of_bounds");
            let a = rng.below(n as u64) as usize;
            let no = match rng.below(3) {
                0 => v.len() as u32,
                1 => v.len() as u32 + 1,
                _ => 0xFFFF_FFF0 + rng.below(16) as u32,
            };
            v[12 + 16 * a + 8..12 + 16 * a + 12].copy_from_slice(&no.to_be_bytes());
        }
        8 => {
            st.count("malformed.num_tables_changed");
            if v.len() >= 6 {
                let nn = match rng.below(4) {
                    0 => n as u32 + 1,
                    1 => n.saturating_sub(1) as u32,
                    2 => ((v.len().saturating_sub(12)) / 16) as u32 + rng.below(2) as u32,
                    _ => 0xFFFF,
                };
                v[4..6].copy_from_slice(&(nn as u16).to_be_bytes());
            }
        }
        9 => {
            st.count("malformed.random_byte_flip_in_directory");
            if !v.is_empty() {
                let lim = (12 + 16 * n).min(v.len());
                let i = rng.below(lim as u64) as usize;
                v[i] ^= 1 << rng.below(8);
            }
        }
        _ => {
            st.count("malformed.none(valid file)");
        }
    }
    v
}

fn reader_case(rng: &mut Rng, file: Vec<u8>, st: &mut Stats, cw: &mut CaseWriter) -> Option<ReaderObs> {
    st.evaluations += 1;
    let mut q: Vec<u32> = own_directory(&file).map(|(_, r)| r.iter().map(|x| x.0).collect()).unwrap_or_default();
    q.truncate(8);
    q.push(rng.next_u32());
    q.push(0);
    q.push(HEAD);
    match read_obs(&file, &q) {
        Ok(o) => {
            st.count(if o.opens { "reader.opens" } else { "reader.rejects" });
            for (_, d) in &o.queries {
                st.count(if d.is_some() { "reader.table_data_some" } else { "reader.table_data_none" });
            }
            cw.push(format!("([(2, 0, {})], [], Some {}, {})", cbytes(&file), cbytes(&file), coq_obs(&o)));
            Some(o)
        }
        Err(e) => {
            // the reader must never panic: recorded as a failure of "opens / returns" on a real byte string
            st.oracle_failure(json!({"key": "reader-panic-malformed", "why": e, "file": file}));
            None
        }
    }
}

fn main() {
    silence_panics();
    let args: Vec<String> = std::env::args().collect();
    let thorough = tier_is_thorough(&args);
    let seed = seed_from_env();
    let dir = out_dir(&args, "C06");
    let mut st = Stats::new();
    let mut cw = CaseWriter::new(
        &dir,
        "From Coq Require Import ZArith List. Import ListNotations. Open Scope Z_scope.\nFrom FV Require Import Lib.Cases C06.Model.",
        "case",
        "check_case",
        if thorough { 400 } else { 180 },
    );
    let mut rng0 = Rng::new(seed);
    let tpool = Arc::new(make_pool(&mut rng0, &mut st));
    let mut g = Gen { rng: rng0, thorough, pool: tpool.clone(), universe: vec![] };
    let src_tags = source_special_tags();
    {
        let mut u: Vec<u32> = REGISTRY.iter().map(|t| u32::from_be_bytes(**t)).collect();
        u.extend(src_tags.iter().copied());
        u.sort();
        u.dedup();
        g.universe = u;
    }
    st.v.insert("special_tags_in_source".into(), json!(src_tags.iter().map(|t| tag_str(*t)).collect::<Vec<_>>()));
    // tie: the model's special_tags must be exactly the tags the source singles out
    cw.push(format!("([(5, 0, {})], [], None, (false, [], [], []))", czlist(src_tags.iter().map(|t| *t as i128))));
    let n_model = if thorough { 24_000 } else { 2_000 };
    let n_big = if thorough { 20_000 } else { 1_500 };
    let n_malformed = if thorough { 6_000 } else { 500 };

    // ---- fixed boundary cases (always in the model stream) ----
    let fixed: Vec<Vec<Op>> = vec![
        vec![],
        vec![Op::Add(HEAD, (0..12).collect())],
        vec![Op::Add(HEAD, (0..11).collect())],
        vec![Op::Add(HEAD, vec![0xFF; 54]), Op::Add(CFF, vec![1, 2, 3]), Op::Add(DSIG, vec![9]), Op::Add(u32::from_be_bytes(*b"name"), vec![]), Op::Add(u32::from_be_bytes(*b"cmap"), vec![7; 5]), Op::Add(u32::from_be_bytes(*b"AAAA"), vec![1; 6])],
        TTF_ORDER.iter().rev().map(|t| Op::Add(u32::from_be_bytes(**t), vec![t[0]; (t[1] % 7) as usize])).chain([Op::Add(DSIG, vec![1]), Op::Add(u32::from_be_bytes(*b"ZZZZ"), vec![2]), Op::Add(u32::from_be_bytes(*b"AAAA"), vec![3])]).collect(),
        CFF_ORDER.iter().rev().map(|t| Op::Add(u32::from_be_bytes(**t), vec![t[2]; (t[3] % 5) as usize])).chain([Op::Add(DSIG, vec![]), Op::Add(u32::from_be_bytes(*b"glyf"), vec![2, 2])]).collect(),
        vec![Op::Add(0, vec![1]), Op::Add(0xFFFF_FFFF, vec![2, 3]), Op::Add(0x8000_0000, vec![4, 5, 6])],
        // reused builder: fonts with empty / non-empty tables, then more fonts from the same builder value
        vec![Op::Add(u32::from_be_bytes(*b"FOO "), vec![]), Op::Add(HEAD, (0..13).collect()), Op::Build, Op::Add(u32::from_be_bytes(*b"BAR "), vec![1, 2])],
        vec![Op::Add(u32::from_be_bytes(*b"FOO "), vec![]), Op::Build, Op::Build],
        vec![Op::Build, Op::Add(DSIG, vec![]), Op::Add(CFF, vec![]), Op::Add(HEAD, vec![]), Op::Build, Op::Add(CFF, vec![7]), Op::Build, Op::Add(HEAD, vec![9; 12])],
    ];
    for (i, ops) in fixed.into_iter().enumerate() {
        builder_case(&mut g, ops, true, &mut st, &mut cw, &format!("fixed{}", i));
    }
    // every tag the source singles out, paired with each of its look-alikes, lengths on both sides of the
    // 12-byte head boundary, with and without ordinary company, in both insertion orders
    {
        let lens = [0usize, 5, 11, 12, 13, 16, 54];
        let mut specials = src_tags.clone();
        specials.extend([HEAD, CFF, DSIG]);
        specials.sort();
        specials.dedup();
        let uni = g.universe.clone();
        for s_tag in specials {
            let mut las = look_alikes(s_tag, &uni);
            if !thorough && las.len() > 6 {
                // registry look-alikes first (they are the ones a font tool would special-case), then a sample of edits
                let reg: Vec<u32> = las.iter().copied().filter(|t| uni.contains(t)).collect();
                let mut rest: Vec<u32> = las.iter().copied().filter(|t| !uni.contains(t)).collect();
                g.rng.shuffle(&mut rest);
                las = reg.into_iter().chain(rest).take(6).collect();
            }
            for l_tag in las {
                let ls = *g.rng.pick(&lens);
                let ll = *g.rng.pick(&lens);
                let mut ops = vec![Op::Add(s_tag, g.gen_bytes(ls.max(if s_tag == HEAD { 12 } else { 0 }))), Op::Add(l_tag, g.gen_bytes(ll))];
                if g.rng.chance(1, 2) {
                    let hl = *g.rng.pick(&[12usize, 13, 54]);
                    ops.push(Op::Add(HEAD, g.gen_bytes(hl)));
                }
                if g.rng.chance(1, 2) {
                    let t = g.gen_tag(&mut st);
                    let l = g.small_len(t);
                    ops.push(Op::Add(t, g.gen_bytes(l)));
                }
                g.rng.shuffle(&mut ops);
                st.count("special_x_look_alike_pairs");
                builder_case(&mut g, ops, true, &mut st, &mut cw, &format!("pair:{}x{}", tag_str(s_tag), tag_str(l_tag)));
            }
        }
    }
    // every typed table of the pool once on its own, once over a raw table with its tag, and once before a
    // copy from a font that has its tag (built here from raw bytes)
    for k in 0..tpool.tables.len() {
        let t = tpool.tables[k].tag();
        let small = tpool.dumps[k].as_ref().map(|b| b.len() <= 64).unwrap_or(true);
        builder_case(&mut g, vec![Op::Add(u32::from_be_bytes(*b"FOO "), vec![1, 2, 3]), Op::Table(k)], small, &mut st, &mut cw, &format!("typed-alone:{}", tpool.what[k]));
        builder_case(&mut g, vec![Op::Add(t, vec![5; 7]), Op::Table(k), Op::Add(DSIG, vec![])], small, &mut st, &mut cw, &format!("typed-over-raw:{}", tpool.what[k]));
        let (src, _) = run_builder(&[Op::Add(t, vec![9, 8, 7, 6, 5]), Op::Add(u32::from_be_bytes(*b"FOO "), vec![4; 5])], &tpool, &[]);
        if let Ok(src) = src {
            builder_case(&mut g, vec![Op::Table(k), Op::Copy(src.clone())], small, &mut st, &mut cw, &format!("typed-then-copy:{}", tpool.what[k]));
            builder_case(&mut g, vec![Op::Copy(src.clone()), Op::Table(k)], small, &mut st, &mut cw, &format!("copy-then-typed:{}", tpool.what[k]));
            // reuse: a first font holding this tag (typed, or raw and empty), build, then a copy from a font that has it
            builder_case(&mut g, vec![Op::Add(t, vec![]), Op::Table(k), Op::Build, Op::Copy(src.clone())], small, &mut st, &mut cw, &format!("typed-build-copy:{}", tpool.what[k]));
            builder_case(&mut g, vec![Op::Table(k), Op::Add(DSIG, vec![]), Op::Build, Op::Table(k), Op::Build, Op::Copy(src)], small, &mut st, &mut cw, &format!("typed-build-typed-build-copy:{}", tpool.what[k]));
        }
    }

    // ---- random small fonts: model + oracle ----
    let mut pool: Vec<Vec<u8>> = vec![]; // previously built fonts, sources for copy_missing_tables
    for i in 0..n_model {
        let ntags = match g.rng.below(10) {
            0 => 0,
            1 => 1,
            2 | 3 => 2,
            4 | 5 => 3,
            6 => 4,
            7 => 5,
            8 => 6,
            _ => g.rng.range(7, 9) as usize,
        };
        let mut ops = g.gen_adds(ntags, false, &mut st);
        // add-raw-then-copy sequences
        if !pool.is_empty() && g.rng.chance(1, 3) {
            let ncopies = 1 + g.rng.below(2) as usize;
            for _ in 0..ncopies {
                let mut src = g.rng.pick(&pool).clone();
                if g.rng.chance(1, 4) {
                    // a source whose directory is damaged but which still opens: malformed tables are skipped
                    let cand = mutate_file(&mut g.rng, &src, &mut st);
                    if read_obs(&cand, &[]).map(|o| o.opens).unwrap_or(false) {
                        src = cand;
                        st.count("op.copy_from_damaged_source");
                    }
                }
                // give the source overlapping tags: re-add some of its tags before / after the copy
                let src_tags: Vec<u32> = own_directory(&src).map(|(_, r)| r.iter().map(|x| x.0).collect()).unwrap_or_default();
                let at = g.rng.below(ops.len() as u64 + 1) as usize;
                if !src_tags.is_empty() && g.rng.chance(2, 3) {
                    let t = *g.rng.pick(&src_tags);
                    let l = g.small_len(t);
                    let d = g.gen_bytes(l);
                    let before = g.rng.below(at as u64 + 1) as usize;
                    ops.insert(before, Op::Add(t, d));
                    ops.insert(at + 1, Op::Copy(src));
                    st.count("op.copy_with_overlap_supplied_first");
                } else {
                    ops.insert(at, Op::Copy(src));
                }
                st.count("op.copy_missing_tables");
            }
        }
        // builder reuse: build() in the middle of the sequence, the same builder value goes on
        if g.rng.chance(1, 4) {
            for _ in 0..1 + g.rng.below(2) {
                let at = g.rng.below(ops.len() as u64 + 1) as usize;
                ops.insert(at, Op::Build);
            }
        }
        // count copy outcomes independently
        {
            let mut m: BTreeMap<u32, Vec<u8>> = BTreeMap::new();
            for op in &ops {
                match op {
                    Op::Add(t, d) => {
                        m.insert(*t, d.clone());
                    }
                    Op::Build => m.clear(),
                    Op::Table(k) => {
                        if let Ok(b) = &tpool.dumps[*k] {
                            m.insert(tpool.tables[*k].tag(), b.clone());
                        }
                    }
                    Op::Copy(src) => {
                        for (t, _, off, len) in own_directory(src).map(|x| x.1).unwrap_or_default() {
                            if m.contains_key(&t) {
                                st.count("branch.copy_skips_present_tag");
                            } else if off != 0 && own_slice(src, off, len).is_some() {
                                st.count("branch.copy_adds_missing_tag");
                                m.insert(t, own_slice(src, off, len).unwrap().to_vec());
                            } else {
                                st.count("branch.copy_source_table_malformed");
                            }
                        }
                    }
                }
            }
        }
        if let Some(f) = builder_case(&mut g, ops, true, &mut st, &mut cw, &format!("small{}", i)) {
            if f.len() <= 200 && (pool.len() < 64 || g.rng.chance(1, 8)) {
                if pool.len() < 64 {
                    pool.push(f);
                } else {
                    let k = g.rng.below(64) as usize;
                    pool[k] = f;
                }
            }
        }
    }

    // ---- malformed / boundary reader stream: model + real reader ----
    for _ in 0..n_malformed {
        if pool.is_empty() {
            break;
        }
        let base = g.rng.pick(&pool).clone();
        let f = mutate_file(&mut g.rng, &base, &mut st);
        reader_case(&mut g.rng, f, &mut st, &mut cw);
    }

    // ---- larger fonts: implementation-only oracle ----
    for i in 0..n_big {
        let ntags = match g.rng.below(8) {
            0 => g.rng.range(10, 40) as usize,
            1 if thorough || g.rng.chance(1, 3) => g.rng.range(41, 300) as usize,
            _ => g.rng.range(1, 9) as usize,
        };
        let mut ops = g.gen_adds(ntags, true, &mut st);
        if !pool.is_empty() && g.rng.chance(1, 5) {
            let at = g.rng.below(ops.len() as u64 + 1) as usize;
            ops.insert(at, Op::Copy(g.rng.pick(&pool).clone()));
            st.count("op.copy_missing_tables");
        }
        if g.rng.chance(1, 4) {
            for _ in 0..1 + g.rng.below(2) {
                let at = g.rng.below(ops.len() as u64 + 1) as usize;
                ops.insert(at, Op::Build);
            }
        }
        builder_case(&mut g, ops, false, &mut st, &mut cw, &format!("big{}", i));
    }

    // ---- table counts: search fields for every n up to the limit, and the limit itself ----
    let counts: Vec<usize> = if thorough {
        (0..=4095).collect()
    } else {
        let mut v: Vec<usize> = (0..=70).collect();
        for k in 6..=12 {
            v.extend([(1usize << k) - 1, 1 << k, (1 << k) + 1]);
        }
        v.retain(|n| *n <= 4095);
        v.push(4095);
        v.sort();
        v.dedup();
        v
    };
    for n in counts {
        let ops: Vec<Op> = (0..n).map(|i| Op::Add(0x4100_0000 + (i as u32) * 7919, if i % 5 == 0 { vec![i as u8] } else { vec![] })).chain((n > 0 && n % 2 == 0).then(|| Op::Add(HEAD, vec![3; 13]))).collect();
        let ops = if ops.len() > 4095 { ops[..4095].to_vec() } else { ops };
        builder_case(&mut g, ops, false, &mut st, &mut cw, &format!("count{}", n));
        st.count("table_count_sweep");
    }
    // the size precondition is sharp: 4096 tables make SearchRange::compute's u16 conversion panic
    {
        // descending tags: every add_raw / sort insertion of the model then hits the front of its list (linear total cost)
        let ops: Vec<Op> = (0..4096u32).rev().map(|i| Op::Add(0x4100_0000 + i, vec![])).collect();
        let (built, _) = run_builder(&ops, &tpool, &[]);
        st.evaluations += 1;
        st.v.insert("build_with_4096_tables".into(), match &built {
            Ok(f) => json!({"built_bytes": f.len()}),
            Err(e) => json!({"panics": e}),
        });
        // same case for the model: it must predict the panic (or the bytes) as well
        cw.push(format!("({}, [], {}, (false, [], [], []))", coq_ops(&ops, &tpool, &[]), match &built {
            Ok(_) => "Some []".to_string(),
            Err(_) => "None".to_string(),
        }));
    }

    let shards = cw.finish();
    st.v.insert("shards".into(), shards.into());
    st.v.insert("model_cases".into(), cw.len().into());
    st.write(&dir, "tag sets from {head, 'CFF ', DSIG, the 19+8 recommended tags, printable, neighbours of special tags / extremes, arbitrary u32}; lengths 0..40 (all residues mod 4, head around the 12-byte boundary) for model cases and {0..64, 255, 256, 4093..4100, 65533.., 70000..} for oracle-only cases; contents random / all-0xFF / all-0 / 0xFF-led quads; random insertion orders with re-adds; add-then-copy_missing_tables sequences from earlier built (sometimes damaged) fonts with overlapping tags; malformed reader stream = mutations of built files; table-count sweep to 4095. non-trivial = at least 2 tables and some length not a multiple of 4 (distinct by final map)");
    println!("cases={} shards={} oracle_failures={}", cw.len(), shards, st.oracle_failures.len());
}
