//! C19 harness: builds real "IFT " / "IFTX" format-2 mapping tables (font-test-data BeBuffer), wraps
//! them in a font, runs the real `intersecting_patches` and `PatchGroup::select_next_patches` over
//! generated subset definitions x applied-bit states, prints (abstract decoded mapping, definition,
//! observed candidates, observed uris) for the Coq model (coq/C19/Model.v `check_case`), and checks the
//! property's wording directly on the implementation (monotone / subset-of-all / NoDup / invalidation
//! rules / maximal choice).  Format-1 tables (glyph map + feature map over the ift_base.ttf cmap) are
//! covered by the implementation-only oracle.
use font_test_data::bebuffer::BeBuffer;
use font_types::{Fixed, Int24, Tag, Uint24};
use incremental_font_transfer::patch_group::{PatchGroup, UriStatus};
use incremental_font_transfer::patchmap::{
    intersecting_patches, DesignSpace, FeatureSet, PatchFormat, PatchUri, SubsetDefinition,
};
use read_fonts::collections::{IntSet, RangeSet};
use read_fonts::tables::ift::{IFTX_TAG, IFT_TAG};
use read_fonts::FontRef;
use serde_json::json;
use std::collections::{BTreeMap, BTreeSet, HashMap};
use vh::*;
use write_fonts::FontBuilder;

// ---------------------------------------------------------------- abstract data

#[derive(Clone, Debug)]
enum AId {
    Num(u32),
    Str(Vec<u8>),
}

#[derive(Clone, Debug)]
struct AEntry {
    cps: Vec<u32>,
    feats: Vec<u32>,
    ds: Vec<(u32, Vec<(i32, i32)>)>,
    children: Vec<usize>,
    conj: bool,
    ignored: bool,
    fmt: u8,
    id: AId,
    bit: usize,
    uri: Option<String>,
}

#[derive(Clone, Debug)]
struct ATable {
    tag: u8, // 0 = IFT, 1 = IFTX
    cid: u32,
    template: String,
    tmpl_ok: bool,
    entries: Vec<AEntry>,
    bytes: Vec<u8>,
    applied: Vec<usize>,
}

#[derive(Clone, Debug)]
enum ACps {
    Incl(Vec<u32>),
    Excl(Vec<u32>),
}
#[derive(Clone, Debug)]
struct ADef {
    cps: ACps,
    feats: Option<Vec<u32>>,                  // None = All
    ds: Option<Vec<(u32, Vec<(i32, i32)>)>>, // None = All
}

const CPS: &[u32] = &[0, 1, 2, 3, 5, 7, 8, 15, 16, 31, 32, 63, 64, 65, 255, 256, 0xFFFF, 0x10000, 80_000, 0x10FFFF];
const TAGS: &[&[u8; 4]] = &[b"liga", b"smcp", b"rlig", b"dlig", b"aalt"];
const AXES: &[&[u8; 4]] = &[b"wght", b"wdth", b"opsz"];
const FX: &[i32] = &[
    i32::MIN, -0x20000, -1, 0, 1, 2, 0x8000, 0x10000, 0x10001, 0x20000, 100 << 16, 200 << 16, (200 << 16) + 1, 700 << 16, i32::MAX - 1, i32::MAX,
];
const TEMPLATES: &[(&str, bool)] = &[
    ("//h/{id}", true),
    ("//h/{id}", true),
    ("//h/{id}", true),
    ("//g/{id}", true),
    ("//h/{d1}", true),
    ("//h/{d2}{d1}", true),
    ("//h/x", true),
    ("//h/%41{id}", true),
    ("//h/{i~}", false),
    ("//h/{id", false),
];

fn tag_u32(t: &[u8; 4]) -> u32 {
    u32::from_be_bytes(*t)
}
fn tag_of(v: u32) -> Tag {
    Tag::new(&v.to_be_bytes())
}

fn subset<T: Clone>(rng: &mut Rng, xs: &[T], max: usize) -> Vec<T> {
    let n = rng.below(max as u64 + 1) as usize;
    let mut idx: Vec<usize> = (0..xs.len()).collect();
    rng.shuffle(&mut idx);
    let mut idx: Vec<usize> = idx.into_iter().take(n.min(xs.len())).collect();
    idx.sort();
    idx.into_iter().map(|i| xs[i].clone()).collect()
}

fn gen_range(rng: &mut Rng) -> (i32, i32) {
    let a = *rng.pick(FX);
    let b = *rng.pick(FX);
    (a.min(b), a.max(b))
}

fn gen_ds(rng: &mut Rng, max_axes: usize) -> Vec<(u32, Vec<(i32, i32)>)> {
    let axes: Vec<u32> = subset(rng, AXES, max_axes).into_iter().map(tag_u32).collect();
    axes.into_iter()
        .map(|a| {
            let n = 1 + rng.below(2) as usize;
            (a, (0..n).map(|_| gen_range(rng)).collect())
        })
        .collect()
}

// ---------------------------------------------------------------- independent URI expansion

fn base32hex(bytes: &[u8]) -> String {
    const SYM: &[u8] = b"0123456789ABCDEFGHIJKLMNOPQRSTUV";
    let mut out = String::new();
    let mut acc: u32 = 0;
    let mut nbits = 0;
    for b in bytes {
        acc = (acc << 8) | *b as u32;
        nbits += 8;
        while nbits >= 5 {
            out.push(SYM[((acc >> (nbits - 5)) & 31) as usize] as char);
            nbits -= 5;
        }
        acc &= (1 << nbits) - 1;
    }
    if nbits > 0 {
        out.push(SYM[((acc << (5 - nbits)) & 31) as usize] as char);
    }
    out
}

/// expansion of the templates in TEMPLATES (valid ones) as the IFT specification describes
fn my_expand(template: &str, id: &AId) -> String {
    let bytes: Vec<u8> = match id {
        AId::Num(v) => {
            let b = v.to_be_bytes();
            let z = b.iter().take_while(|x| **x == 0).count().min(3);
            b[z..].to_vec()
        }
        AId::Str(s) => s.clone(),
    };
    let ids = base32hex(&bytes);
    let digit = |k: usize| -> String {
        if ids.len() >= k {
            ids[ids.len() - k..ids.len() - k + 1].to_string()
        } else {
            "_".to_string()
        }
    };
    template.replace("{id}", &ids).replace("{d1}", &digit(1)).replace("{d2}", &digit(2))
}

// ---------------------------------------------------------------- encoding (format 2)

struct GenOpts {
    big: bool, // more than 255 entries (child indices and entry count beyond one byte)
    malformed: bool,
    mode: u64, // 0 glyph-keyed only, 1 partial+glyph, 2 anything, 3 mostly invalidating, 4 table-keyed only
}

fn gen_table(rng: &mut Rng, tag: u8, cid: u32, template: (&str, bool), o: &GenOpts, st: &mut Stats) -> ATable {
    let string_ids = rng.chance(1, 6);
    let default_fmt: u8 = match o.mode {
        0 => 3,
        4 => *rng.pick(&[1u8, 2]),
        1 => *rng.pick(&[2u8, 3, 3]),
        _ => 1 + rng.below(3) as u8,
    };
    let n = if o.big { 256 + rng.below(40) as usize } else { 1 + rng.below(7) as usize };
    let mut entries: Vec<AEntry> = vec![];
    let mut body = BeBuffer::new();
    let mut strings: Vec<u8> = vec![];
    let mut last_num: u32 = 0;
    let mut last_str: Vec<u8> = vec![];
    // header size: 1 + 4 + 16 + 1 + 3 + 4 + 4 + 2 + template
    let header_len = 35 + template.0.len();
    for i in 0..n {
        let start = header_len + body.len();
        let mut flags: u8 = 0;
        let cps: Vec<u32> = if rng.chance(1, 4) { vec![] } else { subset(rng, CPS, 4) };
        let feats: Vec<u32> = if rng.chance(1, 2) { vec![] } else { subset(rng, TAGS, 3).into_iter().map(tag_u32).collect() };
        let mut ds = if rng.chance(3, 5) { vec![] } else { gen_ds(rng, 2) };
        let mut children: Vec<usize> = vec![];
        let mut conj = false;
        let mut child_field = false;
        if i > 0 && rng.chance(2, 5) {
            child_field = true;
            let k = rng.below(4) as usize;
            children = (0..k).map(|_| rng.below(i as u64) as usize).collect();
            conj = rng.chance(1, 2);
        }
        let mut bad_child = false;
        if o.malformed && rng.chance(1, 8) {
            child_field = true;
            children.push(i + rng.below(2) as usize);
            bad_child = true;
        }
        if o.malformed && rng.chance(1, 10) {
            let a = *rng.pick(FX);
            if a > i32::MIN {
                ds.push((tag_u32(b"slnt"), vec![(a, a - 1)]));
            }
        }
        let ignored = rng.chance(1, 7);
        let fmt: u8 = match o.mode {
            0 => 3,
            1 => *rng.pick(&[2u8, 3, 3, 3]),
            3 => *rng.pick(&[1u8, 2, 2, 2, 3]),
            4 => *rng.pick(&[1u8, 2, 2, 2, 2]),
            _ => *rng.pick(&[1u8, 2, 2, 3, 3, 3]),
        };
        // --- features & design space
        if !feats.is_empty() || !ds.is_empty() || rng.chance(1, 8) {
            flags |= 0b1;
        }
        if child_field {
            flags |= 0b10;
        }
        // --- id
        let id: AId;
        let mut id_field: Option<i32> = None;
        if string_ids {
            if rng.chance(2, 3) {
                let l = rng.below(3) as usize;
                let s: Vec<u8> = (0..l).map(|_| *rng.pick(b"abz")).collect();
                id_field = Some(l as i32);
                strings.extend(&s);
                last_str = s;
            }
            id = AId::Str(last_str.clone());
        } else {
            if rng.chance(1, 2) {
                let lo = -(last_num as i64) - 1;
                let cand = [0i64, 0, -1, -1, 1, 5, -3, 30];
                let mut d = *rng.pick(&cand);
                if d < lo {
                    d = lo;
                }
                id_field = Some(d as i32);
                last_num = (last_num as i64 + 1 + d) as u32;
            } else {
                last_num += 1;
            }
            id = AId::Num(last_num);
        }
        if id_field.is_some() {
            flags |= 0b100;
        }
        let fmt_field = fmt != default_fmt || rng.chance(1, 4);
        if fmt_field {
            flags |= 0b1000;
        }
        // --- codepoints encoding
        let cp_mode: u8 = if cps.is_empty() { *rng.pick(&[0u8, 0, 1, 2, 3]) } else { *rng.pick(&[1u8, 2, 3]) };
        flags |= cp_mode << 4;
        if ignored {
            flags |= 0b0100_0000;
        }
        body = body.push(flags);
        if flags & 1 != 0 {
            body = body.push(feats.len() as u8);
            for f in &feats {
                body = body.push(tag_of(*f));
            }
            let mut segs: Vec<(u32, i32, i32)> = vec![];
            for (t, rs) in &ds {
                for (a, b) in rs {
                    segs.push((*t, *a, *b));
                }
            }
            rng.shuffle(&mut segs);
            // the decoded HashMap groups the segments by axis: keep the abstract entry in file order
            // (axes by first appearance, segments in order) so that the model's byte decoder can be compared
            ds = vec![];
            for (t, a, b) in &segs {
                match ds.iter_mut().find(|(t2, _)| t2 == t) {
                    Some((_, rs)) => rs.push((*a, *b)),
                    None => ds.push((*t, vec![(*a, *b)])),
                }
            }
            body = body.push(segs.len() as u16);
            for (t, a, b) in segs {
                body = body.push(tag_of(t)).push(Fixed::from_bits(a)).push(Fixed::from_bits(b));
            }
        }
        if child_field {
            body = body.push(((conj as u8) << 7) | children.len() as u8);
            for c in &children {
                body = body.push(Uint24::new(*c as u32));
            }
        }
        if let Some(v) = id_field {
            if string_ids {
                body = body.push(v as u16);
            } else {
                body = body.push(Int24::new(v));
            }
        }
        if fmt_field {
            body = body.push(fmt);
        }
        if cp_mode != 0 {
            let m = cps.first().copied().unwrap_or(0);
            let bias: u32 = match cp_mode {
                1 => 0,
                2 => {
                    let cap = m.min(0xFFFF);
                    *rng.pick(&[0, cap, cap / 2, cap.saturating_sub(1)])
                }
                _ => {
                    let cap = m.min(0xFF_FFFF);
                    *rng.pick(&[0, cap, cap / 2, cap.saturating_sub(1)])
                }
            };
            match cp_mode {
                2 => body = body.push(bias as u16),
                3 => body = body.push(Uint24::new(bias)),
                _ => {}
            }
            let shifted: IntSet<u32> = cps.iter().map(|c| c - bias).collect();
            for b in shifted.to_sparse_bit_set() {
                body = body.push(b);
            }
            st.count(&format!("enc.cp_mode{}", cp_mode));
        }
        if bad_child {
            st.count("enc.bad_child");
        }
        if !children.is_empty() {
            st.count(if conj { "enc.conjunctive" } else { "enc.disjunctive" });
        }
        let uri = if template.1 { Some(my_expand(template.0, &id)) } else { None };
        entries.push(AEntry { cps, feats, ds, children, conj, ignored, fmt, id, bit: start * 8 + 6, uri });
    }
    let mut buf = BeBuffer::new()
        .push(2u8)
        .push(0u32)
        .extend([0u32, 0, 0, cid])
        .push(default_fmt)
        .push(Uint24::new(n as u32))
        .push(header_len as u32)
        .push(if string_ids { (header_len + body.len()) as u32 } else { 0u32 })
        .push(template.0.len() as u16);
    for b in template.0.as_bytes() {
        buf = buf.push(*b);
    }
    assert_eq!(buf.len(), header_len);
    let mut bytes = buf.as_slice().to_vec();
    bytes.extend_from_slice(body.as_slice());
    bytes.extend_from_slice(&strings);
    if string_ids {
        st.count("enc.string_ids");
    }
    ATable { tag, cid, template: template.0.to_string(), tmpl_ok: template.1, entries, bytes, applied: vec![] }
}

fn build_font(tables: &[ATable]) -> Vec<u8> {
    let mut b = FontBuilder::new();
    for t in tables {
        let mut bytes = t.bytes.clone();
        for bit in &t.applied {
            bytes[bit / 8] |= 1 << (bit % 8);
        }
        b.add_raw(if t.tag == 0 { IFT_TAG } else { IFTX_TAG }, bytes);
    }
    b.add_raw(Tag::new(b"tab1"), b"abcdef\n".to_vec());
    b.build()
}

// ---------------------------------------------------------------- definitions

fn gen_def(rng: &mut Rng) -> ADef {
    let cps = match rng.below(8) {
        0 => ACps::Excl(vec![]),
        1 => ACps::Excl(subset(rng, CPS, 6)),
        2 => ACps::Incl(vec![]),
        _ => {
            let mut v = subset(rng, CPS, 5);
            if rng.chance(1, 6) {
                v.push(0x41);
                v.sort();
            }
            ACps::Incl(v)
        }
    };
    let feats = match rng.below(6) {
        0 => None,
        1 => Some(vec![]),
        _ => Some(subset(rng, TAGS, 3).into_iter().map(tag_u32).collect()),
    };
    let ds = match rng.below(6) {
        0 => None,
        1 | 2 => Some(vec![]),
        _ => Some(gen_ds(rng, 2)),
    };
    ADef { cps, feats, ds }
}

/// a definition that includes `d`
fn grow_def(rng: &mut Rng, d: &ADef) -> ADef {
    let mut r = d.clone();
    match rng.below(4) {
        0 => {
            r.cps = match &d.cps {
                ACps::Incl(v) => {
                    if rng.chance(1, 4) {
                        // inverted superset: exclude only things not in v
                        let ex: Vec<u32> = subset(rng, CPS, 4).into_iter().filter(|c| !v.contains(c)).collect();
                        ACps::Excl(ex)
                    } else {
                        let mut s: BTreeSet<u32> = v.iter().copied().collect();
                        s.extend(subset(rng, CPS, 3));
                        ACps::Incl(s.into_iter().collect())
                    }
                }
                ACps::Excl(v) => ACps::Excl(subset(rng, v, v.len())),
            }
        }
        1 => {
            r.feats = match &d.feats {
                None => None,
                Some(v) => {
                    if rng.chance(1, 3) {
                        None
                    } else {
                        let mut s: BTreeSet<u32> = v.iter().copied().collect();
                        s.extend(subset(rng, TAGS, 2).into_iter().map(tag_u32));
                        Some(s.into_iter().collect())
                    }
                }
            }
        }
        2 => {
            r.ds = match &d.ds {
                None => None,
                Some(v) => {
                    if rng.chance(1, 3) {
                        None
                    } else {
                        let mut m: BTreeMap<u32, Vec<(i32, i32)>> = v.iter().cloned().collect();
                        for (t, rs) in gen_ds(rng, 2) {
                            m.entry(t).or_default().extend(rs);
                        }
                        // widen one range
                        if let Some((_, rs)) = m.iter_mut().next() {
                            if let Some(r0) = rs.first_mut() {
                                r0.1 = r0.1.saturating_add(*rng.pick(&[0, 1, 0x10000]));
                            }
                        }
                        Some(m.into_iter().collect())
                    }
                }
            }
        }
        _ => {
            let a = grow_def(rng, d);
            return grow_def(rng, &a);
        }
    }
    r
}

fn real_def(d: &ADef) -> SubsetDefinition {
    let cps = match &d.cps {
        ACps::Incl(v) => v.iter().copied().collect::<IntSet<u32>>(),
        ACps::Excl(v) => {
            let mut s = IntSet::<u32>::all();
            for x in v {
                s.remove(*x);
            }
            s
        }
    };
    let feats = match &d.feats {
        None => FeatureSet::All,
        Some(v) => FeatureSet::Set(v.iter().map(|t| tag_of(*t)).collect()),
    };
    let ds = match &d.ds {
        None => DesignSpace::All,
        Some(v) => {
            let mut m: HashMap<Tag, RangeSet<Fixed>> = HashMap::new();
            for (t, rs) in v {
                let e = m.entry(tag_of(*t)).or_default();
                for (a, b) in rs {
                    e.insert(Fixed::from_bits(*a)..=Fixed::from_bits(*b));
                }
            }
            DesignSpace::Ranges(m)
        }
    };
    SubsetDefinition::new(cps, feats, ds)
}

// ---------------------------------------------------------------- observation

#[derive(Clone, Debug, PartialEq)]
struct Obs {
    table: u8,
    bit: usize,
    fmt: u8,
    uri: Option<String>,
    cp: u64,
    tags: u64,
    ds: Vec<(u32, i64)>,
    order: u64,
}

fn num_after(s: &str, key: &str) -> Option<u64> {
    let i = s.rfind(key)? + key.len();
    let rest = &s[i..];
    let end = rest.find(|c: char| !c.is_ascii_digit()).unwrap_or(rest.len());
    rest[..end].parse().ok()
}

/// PatchUri's accessors for table / bit index / intersection info are crate-private; its derived
/// Debug output is not.
fn parse_uri(u: &PatchUri) -> Option<Obs> {
    let s = format!("{:?}", u);
    let st = s.rfind("source_table: ")? + "source_table: ".len();
    let table = if s[st..].starts_with("Iftx(") {
        1
    } else if s[st..].starts_with("Ift(") {
        0
    } else {
        return None;
    };
    let bit = num_after(&s, "application_flag_bit_index: ")? as usize;
    let cp = num_after(&s, "intersecting_codepoints: ")?;
    let tags = num_after(&s, "intersecting_layout_tags: ")?;
    let order = num_after(&s, "entry_order: ")?;
    let di = s.rfind("intersecting_design_space: {")? + "intersecting_design_space: {".len();
    let dend = di + s[di..].find('}')?;
    let mut ds = vec![];
    for part in s[di..dend].split(", ") {
        let part = part.trim();
        if part.is_empty() {
            continue;
        }
        let p = part.strip_prefix("Tag(")?;
        let close = p.find("): ")?;
        let t = p[..close].as_bytes();
        if t.len() != 4 {
            return None;
        }
        let v: f64 = p[close + 3..].parse().ok()?;
        ds.push((u32::from_be_bytes([t[0], t[1], t[2], t[3]]), (v * 65536.0).round() as i64));
    }
    let fmt = match u.encoding() {
        PatchFormat::TableKeyed { fully_invalidating: true } => 1,
        PatchFormat::TableKeyed { fully_invalidating: false } => 2,
        PatchFormat::GlyphKeyed => 3,
    };
    Some(Obs { table, bit, fmt, uri: u.uri_string().ok(), cp, tags, ds, order })
}

fn observe_offered(font: &[u8], d: &SubsetDefinition) -> Result<Option<Vec<Obs>>, String> {
    let font = font.to_vec();
    let d = d.clone();
    catch(move || {
        let f = FontRef::new(&font).unwrap();
        match intersecting_patches(&f, &d) {
            Ok(v) => Some(v.iter().map(|u| parse_uri(u).expect("PatchUri Debug output not understood")).collect()),
            Err(_) => None,
        }
    })
}

fn observe_select(font: &[u8], d: &SubsetDefinition) -> Result<Option<Vec<String>>, String> {
    let font = font.to_vec();
    let d = d.clone();
    catch(move || {
        let f = FontRef::new(&font).unwrap();
        match PatchGroup::select_next_patches(f, &d) {
            Ok(g) => {
                let us: Vec<String> = g.uris().map(|s| s.to_string()).collect();
                assert_eq!(g.has_uris(), !us.is_empty());
                Some(us)
            }
            Err(_) => None,
        }
    })
}

// ---------------------------------------------------------------- Coq printing

fn c_ranges(rs: &[(i32, i32)]) -> String {
    clist(rs.iter(), |(a, b)| format!("({}, {})", cz(*a as i128), cz(*b as i128)))
}
fn c_dsmap(m: &[(u32, Vec<(i32, i32)>)]) -> String {
    clist(m.iter(), |(t, rs)| format!("({}, {})", t, c_ranges(rs)))
}
fn c_entry(e: &AEntry, rank: &BTreeMap<String, i64>) -> String {
    let uri = e.uri.as_ref().map(|u| rank[u]).unwrap_or(-1);
    format!(
        "mkE (mkED {} {} {}) {} {} {} {} {} {}",
        czlist(e.cps.iter().map(|c| *c as i128)),
        czlist(e.feats.iter().map(|c| *c as i128)),
        c_dsmap(&e.ds),
        clist(e.children.iter(), |c| format!("{}%nat", c)),
        cbool(e.conj),
        cbool(e.ignored),
        cz(uri as i128),
        match e.fmt {
            1 => "FullInv",
            2 => "PartInv",
            _ => "GlyphKeyed",
        },
        e.bit
    )
}

fn c_pid(id: &AId) -> String {
    match id {
        AId::Num(n) => format!("(IdNum {})", n),
        AId::Str(v) => format!("(IdStr {})", cbytes(v)),
    }
}
/// (table bytes as encoded, id -> uri rank) for the model's byte-level decoder
fn c_dec(t: &ATable, rank: &BTreeMap<String, i64>) -> String {
    let mut seen: Vec<String> = vec![];
    let mut pairs: Vec<String> = vec![];
    for e in &t.entries {
        if let Some(u) = &e.uri {
            let k = c_pid(&e.id);
            if !seen.contains(&k) {
                seen.push(k.clone());
                pairs.push(format!("({}, {})", k, rank[u]));
            }
        }
    }
    format!("({}, [{}])", cbytes(&t.bytes), pairs.join("; "))
}
fn c_table(t: &ATable, rank: &BTreeMap<String, i64>) -> String {
    format!(
        "mkT {} {} {} {} {}",
        t.tag,
        t.cid,
        cbool(t.tmpl_ok),
        clist(t.entries.iter(), |e| c_entry(e, rank)),
        czlist(t.applied.iter().map(|b| *b as i128))
    )
}
fn c_def(d: &ADef) -> String {
    let cps = match &d.cps {
        ACps::Incl(v) => format!("(CpIncl {})", czlist(v.iter().map(|c| *c as i128))),
        ACps::Excl(v) => format!("(CpExcl {})", czlist(v.iter().map(|c| *c as i128))),
    };
    let feats = match &d.feats {
        None => "FAll".to_string(),
        Some(v) => format!("(FSet {})", czlist(v.iter().map(|c| *c as i128))),
    };
    let ds = match &d.ds {
        None => "DAll".to_string(),
        Some(m) => format!("(DRanges {})", c_dsmap(m)),
    };
    format!("mkD {} {} {}", cps, feats, ds)
}
fn c_obs(o: &Obs, rank: &BTreeMap<String, i64>) -> String {
    let uri = match &o.uri {
        Some(u) => rank.get(u).copied().unwrap_or(-2),
        None => -1,
    };
    format!(
        "({}, {}, {}, {}, ({}, {}, {}, {}))",
        o.table,
        o.bit,
        o.fmt,
        cz(uri as i128),
        o.cp,
        o.tags,
        clist(o.ds.iter(), |(t, v)| format!("({}, {})", t, cz(*v as i128))),
        o.order
    )
}

// ---------------------------------------------------------------- oracle helpers

fn key_set(v: &[Obs]) -> BTreeSet<(u8, usize)> {
    v.iter().map(|o| (o.table, o.bit)).collect()
}
fn info_key(o: &Obs) -> (u64, u64, Vec<(u32, i64)>) {
    (o.cp, o.tags, o.ds.clone())
}

/// The grouping rules of the property, evaluated on the real candidates and the real uris().
fn group_oracle(cands: &[Obs], uris: &[String]) -> Option<String> {
    let set: BTreeSet<&String> = uris.iter().collect();
    if set.len() != uris.len() {
        return Some("group contains the same URI twice".into());
    }
    let mut by_uri: BTreeMap<&str, Vec<&Obs>> = BTreeMap::new();
    for c in cands {
        if let Some(u) = &c.uri {
            by_uri.entry(u.as_str()).or_default().push(c);
        }
    }
    for u in uris {
        if !by_uri.contains_key(u.as_str()) {
            return Some(format!("group URI {} belongs to no offered entry", u));
        }
    }
    let best_of = |l: &[&Obs]| -> Vec<String> {
        // maximal (codepoints, tags, design space), then smallest entry order
        let mx = l.iter().map(|o| info_key(o)).max().unwrap();
        let l2: Vec<&&Obs> = l.iter().filter(|o| info_key(o) == mx).collect();
        let mo = l2.iter().map(|o| o.order).min().unwrap();
        l2.iter().filter(|o| o.order == mo).map(|o| o.uri.clone().unwrap()).collect()
    };
    let full: Vec<&Obs> = cands.iter().filter(|c| c.fmt == 1).collect();
    if !full.is_empty() {
        if uris.len() != 1 {
            return Some(format!("fully invalidating candidate present but group has {} URIs", uris.len()));
        }
        if !best_of(&full).contains(&uris[0]) {
            return Some("fully invalidating choice is not the maximal / earliest candidate".into());
        }
        return None;
    }
    let pure = |u: &str, table: u8, inval: bool| by_uri[u].iter().all(|c| c.table == table && (c.fmt != 3) == inval);
    for t in [0u8, 1u8] {
        let n_inv = uris.iter().filter(|u| pure(u, t, true)).count();
        if n_inv > 1 {
            return Some(format!("more than one invalidating patch from table {}", t));
        }
    }
    let p0: Vec<&Obs> = cands.iter().filter(|c| c.fmt == 2 && c.table == 0).collect();
    let mut sel0: Option<String> = None;
    if !p0.is_empty() {
        let b = best_of(&p0);
        match uris.iter().find(|u| b.contains(u)) {
            Some(u) => sel0 = Some(u.clone()),
            None => return Some("IFT partially invalidating choice is not the maximal / earliest candidate".into()),
        }
        if uris.iter().any(|u| pure(u, 0, false)) {
            return Some("glyph-keyed IFT patch alongside an invalidating IFT patch".into());
        }
    }
    let p1: Vec<&Obs> = cands.iter().filter(|c| c.fmt == 2 && c.table == 1 && c.uri != sel0).collect();
    if !p1.is_empty() {
        let b = best_of(&p1);
        if !uris.iter().any(|u| b.contains(u)) {
            return Some("IFTX partially invalidating choice is not the maximal / earliest candidate".into());
        }
        if uris.iter().any(|u| pure(u, 1, false)) {
            return Some("glyph-keyed IFTX patch alongside an invalidating IFTX patch".into());
        }
    }
    if cands.iter().all(|c| c.fmt == 3) {
        let all: BTreeSet<&String> = cands.iter().filter_map(|c| c.uri.as_ref()).collect();
        if all != set {
            return Some("non-invalidating group is not the set of all offered URIs".into());
        }
    }
    None
}

// ---------------------------------------------------------------- format 1 (implementation-only)

fn format1_oracle(rng: &mut Rng, st: &mut Stats, rounds: usize) {
    use font_test_data::ift::{feature_map_format1, simple_format1, u16_entries_format1, IFT_BASE};
    let base = FontRef::new(IFT_BASE).unwrap();
    for r in 0..rounds {
        let (buf, nbits, name) = match r % 3 {
            0 => (simple_format1(), 2usize, "simple"),
            1 => (u16_entries_format1(), 300, "u16"),
            _ => (feature_map_format1(), 400, "feature_map"),
        };
        let fmt = 1 + rng.below(3) as u8;
        let mut bytes = buf.as_slice().to_vec();
        // format-1 header: format(1) reserved(4) compat id(16) max entry(2) max glyph map entry(2)
        // glyph count(3) glyph map offset(4) feature map offset(4) = 36 bytes, then the applied bitmap,
        // uriTemplateLength(2), template (8 bytes in these fixtures), patch format
        let app = 36usize;
        let bitmap_len = (nbits + 1 + 7) / 8;
        let fmt_off = app + bitmap_len + 2 + 8;
        assert_eq!(bytes[fmt_off], 3);
        bytes[fmt_off] = fmt;
        // random applied bits over the first bytes of the bitmap, and around the used entries
        for _ in 0..rng.below(4) {
            let bit = *rng.pick(&[1usize, 2, 0x50, 0x51, 0x12c, 299, 300, 301, 384, 385, 400]);
            if bit <= nbits {
                if rng.chance(1, 2) {
                    bytes[app + bit / 8] |= 1 << (bit % 8);
                } else {
                    bytes[app + bit / 8] &= !(1 << (bit % 8));
                }
            }
        }
        let mut fb = FontBuilder::new();
        fb.add_raw(IFT_TAG, bytes);
        fb.copy_missing_tables(base.clone());
        let font = fb.build();
        let cp_univ: Vec<u32> = vec![0x11, 0x12, 0x13, 0x14, 0x15, 0x16, 0x17, 0x123, 0x41];
        let tag_univ: Vec<u32> = [b"liga", b"dlig", b"null", b"smcp"].iter().map(|t| tag_u32(t)).collect();
        let gen1 = |rng: &mut Rng| -> ADef {
            let cps = match rng.below(6) {
                0 => ACps::Excl(vec![]),
                1 => ACps::Excl(subset(rng, &cp_univ, 4)),
                _ => ACps::Incl(subset(rng, &cp_univ, 4)),
            };
            let feats = if rng.chance(1, 5) { None } else { Some(subset(rng, &tag_univ, 3)) };
            ADef { cps, feats, ds: Some(vec![]) }
        };
        for _ in 0..6 {
            let d = gen1(rng);
            let mut d2 = d.clone();
            // grow within the format-1 universe
            match &mut d2.cps {
                ACps::Incl(v) => {
                    let mut s: BTreeSet<u32> = v.iter().copied().collect();
                    s.extend(subset(rng, &cp_univ, 3));
                    *v = s.into_iter().collect();
                }
                ACps::Excl(v) => {
                    let l = v.len();
                    *v = subset(rng, &v.clone(), l);
                }
            }
            if let Some(v) = &mut d2.feats {
                let mut s: BTreeSet<u32> = v.iter().copied().collect();
                s.extend(subset(rng, &tag_univ, 2));
                *v = s.into_iter().collect();
            }
            if rng.chance(1, 4) {
                d2.feats = None;
            }
            let o1 = observe_offered(&font, &real_def(&d));
            let o2 = observe_offered(&font, &real_def(&d2));
            let oa = observe_offered(&font, &SubsetDefinition::all());
            st.evaluations += 3;
            st.count(&format!("f1.{}", name));
            match (&o1, &o2, &oa) {
                (Ok(Some(a)), Ok(Some(b)), Ok(Some(all))) => {
                    let key = format!("f1/{}/fmt{}/{:?}", name, fmt, d);
                    if !key_set(a).is_subset(&key_set(b)) {
                        st.oracle_failure(json!({"key": format!("f1-monotone/{}", name), "what":"format 1: offered(def) not contained in offered(def') for def <= def'", "def": format!("{:?}", d), "def2": format!("{:?}", d2), "fmt": fmt}));
                    }
                    if !key_set(a).is_subset(&key_set(all)) || !key_set(b).is_subset(&key_set(all)) {
                        st.oracle_failure(json!({"key": format!("f1-subset-all/{}", name), "what":"format 1: offered(def) not contained in offered(all)", "def": format!("{:?}", d), "fmt": fmt}));
                    }
                    if !a.is_empty() {
                        st.nontrivial(&key);
                    }
                    // grouping rules on the format-1 candidates
                    if let Ok(Some(us)) = observe_select(&font, &real_def(&d)) {
                        if let Some(why) = group_oracle(a, &us) {
                            st.oracle_failure(json!({"key": format!("f1-group/{}", name), "what": why, "def": format!("{:?}", d), "fmt": fmt}));
                        }
                    }
                }
                (Err(p), _, _) | (_, Err(p), _) | (_, _, Err(p)) => {
                    st.oracle_failure(json!({"key": format!("f1-panic/{}", name), "what":"panic in intersecting_patches (format 1)", "panic": p}));
                }
                _ => {
                    st.count("f1.err");
                }
            }
        }
    }
}

// ---------------------------------------------------------------- extension loop (real apply_next_patches)

fn noop_table_keyed_patch(cid: u32) -> Vec<u8> {
    BeBuffer::new().push(Tag::new(b"iftk")).push(0u32).extend([0u32, 0, 0, cid]).push(0u16).push(0u32).as_slice().to_vec()
}

type PdObs = Vec<(i64, bool)>;

fn snapshot(pd: &HashMap<String, UriStatus>, rank: &BTreeMap<String, i64>) -> PdObs {
    let mut v: PdObs = pd.iter().map(|(u, s)| (rank.get(u).copied().unwrap_or(-2), matches!(s, UriStatus::Pending(_)))).collect();
    v.sort();
    v
}

/// Runs select -> apply rounds on the real code with no-op table-keyed patches until an error.
/// Only for fonts whose entries are all table-keyed and whose tables use different URI templates.
fn run_loop(rng: &mut Rng, tables: &[ATable], d: &ADef, rank: &BTreeMap<String, i64>, st: &mut Stats, key: &str) -> Vec<(PdObs, Option<PdObs>)> {
    let mut out = vec![];
    let mut font = build_font(tables);
    let rd = real_def(d);
    let mut pd: HashMap<String, UriStatus> = HashMap::new();
    for t in tables {
        for e in &t.entries {
            if let Some(u) = &e.uri {
                pd.insert(u.clone(), UriStatus::Pending(noop_table_keyed_patch(t.cid)));
            }
        }
    }
    let keys: Vec<String> = {
        let mut k: Vec<String> = pd.keys().cloned().collect();
        k.sort();
        k
    };
    match rng.below(4) {
        0 => {
            if !keys.is_empty() {
                let k = rng.pick(&keys).clone();
                pd.remove(&k);
                st.count("loop.init_missing_uri");
            }
        }
        1 => {
            for k in &keys {
                if rng.chance(1, 3) {
                    pd.insert(k.clone(), UriStatus::Applied);
                }
            }
            st.count("loop.init_some_applied");
        }
        _ => st.count("loop.init_all_pending"),
    }
    let initial_pending = snapshot(&pd, rank).iter().filter(|x| x.1).count();
    let mut ok_rounds = 0usize;
    for _ in 0..8 {
        let before = snapshot(&pd, rank);
        let fbytes = font.clone();
        let rdc = rd.clone();
        let pdref = &mut pd;
        let res = catch(std::panic::AssertUnwindSafe(move || {
            let f = FontRef::new(&fbytes).unwrap();
            match PatchGroup::select_next_patches(f, &rdc) {
                Ok(g) => {
                    let us: Vec<String> = g.uris().map(|s| s.to_string()).collect();
                    Some((us, g.apply_next_patches(pdref).ok()))
                }
                Err(_) => None,
            }
        }));
        st.evaluations += 1;
        match res {
            Err(p) => {
                st.oracle_failure(json!({"key": format!("loop-panic/{}", key), "what": "panic in select/apply round", "panic": p}));
                break;
            }
            Ok(None) => break,
            Ok(Some((us, applied))) => {
                let after = snapshot(&pd, rank);
                match applied {
                    Some(new_font) => {
                        ok_rounds += 1;
                        st.count("loop.round_ok");
                        let pb = before.iter().filter(|x| x.1).count();
                        let pa = after.iter().filter(|x| x.1).count();
                        let newly: Vec<i64> = before.iter().filter(|(u, p)| *p && after.contains(&(*u, false))).map(|x| x.0).collect();
                        let reverted = before.iter().any(|(u, p)| !*p && after.contains(&(*u, true)));
                        let in_group = newly.iter().any(|u| us.iter().any(|s| rank.get(s) == Some(u)));
                        if pa >= pb || reverted || !in_group || before.len() != after.len() {
                            st.oracle_failure(json!({"key": "extension:no-progress-round", "case": key, "what": "an Ok round did not move a URI of the group from Pending to Applied (or reverted one)", "before": format!("{:?}", before), "after": format!("{:?}", after), "uris": us}));
                        }
                        out.push((before, Some(after)));
                        font = new_font;
                    }
                    None => {
                        st.count("loop.round_err");
                        if before != after {
                            st.oracle_failure(json!({"key": format!("loop-err-mutates/{}", key), "what": "a failed round changed patch_data", "before": format!("{:?}", before), "after": format!("{:?}", after)}));
                        }
                        out.push((before, None));
                        break;
                    }
                }
            }
        }
    }
    if ok_rounds > initial_pending {
        st.oracle_failure(json!({"key": format!("loop-termination/{}", key), "what": "more successful rounds than pending URIs", "rounds": ok_rounds, "pending": initial_pending}));
    }
    out
}

// ---------------------------------------------------------------- extension loop with real glyph-keyed patches

/// base font with maxp / head / loca / glyf (15 glyphs, short loca), as the crate's own patching tests use
fn glyf_base_font(tables: &[(u8, Vec<u8>)]) -> Vec<u8> {
    use write_fonts::tables::{head::Head, loca::Loca, maxp::Maxp};
    let mut fb = FontBuilder::new();
    for (tag, bytes) in tables {
        fb.add_raw(if *tag == 0 { IFT_TAG } else { IFTX_TAG }, bytes.clone());
    }
    let maxp = Maxp { num_glyphs: 15, ..Default::default() };
    fb.add_table(&maxp).unwrap();
    let head = Head { index_to_loc_format: 0, ..Default::default() };
    fb.add_table(&head).unwrap();
    let glyf: Vec<u8> = vec![1, 2, 3, 4, 5, 0, 6, 7, 8, 0, 9, 10, 11, 12];
    let (g0, g1, g8, end) = (0u32, 6u32, 10u32, 14u32);
    let loca = vec![g0, g1, g8, g8, g8, g8, g8, g8, g8, end, end, end, end, end, end, end];
    fb.add_table(&Loca::new(loca)).unwrap();
    fb.add_raw(Tag::new(b"glyf"), glyf);
    fb.build()
}

/// an uncompressed (NoopBrotliDecoder) glyph-keyed patch that changes no glyph
fn noop_glyph_keyed_patch(cid: u32) -> Vec<u8> {
    let payload = font_test_data::ift::noop_glyf_glyph_patches();
    let mut b = BeBuffer::new().push(Tag::new(b"ifgk")).push(0u32).push(0u8).extend([0u32, 0, 0, cid]).push(payload.len() as u32);
    for x in payload.as_slice() {
        b = b.push(*x);
    }
    b.as_slice().to_vec()
}

fn table_bytes_of(font: &[u8], tag: u8) -> Option<Vec<u8>> {
    let f = FontRef::new(font).ok()?;
    f.table_data(if tag == 0 { IFT_TAG } else { IFTX_TAG }).map(|d| d.as_bytes().to_vec())
}

/// Real select -> fetch -> apply rounds with glyph-keyed patches on a font with glyf/loca/maxp (fonts whose
/// entries are all glyph keyed; URIs may be shared within and across tables).  Each round is pushed as its own
/// model case, with the applied bits read back from the real font.  Implementation-only oracle, every round:
/// the result is Err, or at least one URI went Pending -> Applied; a round cap reports a no-progress loop.
#[allow(clippy::too_many_arguments)]
fn run_glyph_loop(rng: &mut Rng, tables0: &[ATable], d: &ADef, rank: &BTreeMap<String, i64>, st: &mut Stats, cw: &mut CaseWriter, key: &str) {
    use shared_brotli_patch_decoder::NoopBrotliDecoder;
    let mut tables: Vec<ATable> = tables0.to_vec();
    for t in tables.iter_mut() {
        t.applied.clear();
    }
    let mut font = glyf_base_font(&tables.iter().map(|t| (t.tag, t.bytes.clone())).collect::<Vec<_>>());
    let rd = real_def(d);
    let mut pd: HashMap<String, UriStatus> = HashMap::new();
    let init = rng.below(5);
    let cap = 12usize;
    let mut finished = false;
    for round in 0..cap {
        let off = observe_offered(&font, &rd);
        let sel = observe_select(&font, &rd);
        st.evaluations += 2;
        let (off, sel) = match (off, sel) {
            (Ok(a), Ok(b)) => (a, b),
            _ => {
                st.oracle_failure(json!({"key": format!("extension:panic/{}", key), "what": "panic in selection during extension"}));
                return;
            }
        };
        let (Some(cands), Some(uris)) = (off.clone(), sel.clone()) else {
            finished = true;
            break;
        };
        if uris.is_empty() {
            finished = true;
            st.count("gloop.fixpoint");
            break;
        }
        // fetch: a patch for every URI of the group that was never fetched, on behalf of the table the group keeps it for
        for (k, u) in uris.iter().enumerate() {
            if pd.contains_key(u) {
                continue;
            }
            if round == 0 && init == 0 && k == 0 {
                st.count("gloop.init_missing_uri");
                continue;
            }
            let table = if cands.iter().any(|c| c.table == 0 && c.uri.as_ref() == Some(u)) { 0 } else { 1 };
            let cid = tables.iter().find(|t| t.tag == table).map(|t| t.cid).unwrap_or(0);
            if round == 0 && init == 1 && rng.chance(1, 2) {
                pd.insert(u.clone(), UriStatus::Applied);
                st.count("gloop.init_preapplied_uri");
            } else {
                pd.insert(u.clone(), UriStatus::Pending(noop_glyph_keyed_patch(cid)));
            }
        }
        let before = snapshot(&pd, rank);
        let fbytes = font.clone();
        let rdc = rd.clone();
        let pdref = &mut pd;
        let res = catch(std::panic::AssertUnwindSafe(move || {
            let f = FontRef::new(&fbytes).unwrap();
            let g = PatchGroup::select_next_patches(f, &rdc).unwrap();
            g.apply_next_patches_with_decoder(pdref, &NoopBrotliDecoder).map_err(|e| format!("{:?}", e))
        }));
        st.evaluations += 1;
        let after = snapshot(&pd, rank);
        let c_pd = |v: &PdObs| clist(v.iter(), |(u, p)| format!("({}, {})", cz(*u as i128), cbool(*p)));
        let sel_ranks: Vec<i64> = uris.iter().map(|u| rank.get(u).copied().unwrap_or(-2)).collect();
        let push_case = |cw: &mut CaseWriter, tables: &[ATable], after: Option<&PdObs>| {
            cw.push(format!(
                "Case2 ({}, {}, {}, {}, [({}, {})]) []",
                clist(tables.iter(), |t| c_table(t, rank)),
                c_def(d),
                copt(Some(clist(cands.iter(), |o| c_obs(o, rank)))),
                copt(Some(czlist(sel_ranks.iter().map(|x| *x as i128)))),
                c_pd(&before),
                copt(after.map(|x| c_pd(x)))
            ));
        };
        match res {
            Err(p) => {
                st.oracle_failure(json!({"key": format!("extension:panic/{}", key), "what": "panic in apply_next_patches", "panic": p}));
                return;
            }
            Ok(Err(e)) => {
                st.count(&format!("gloop.round_err.{}", e.split('(').next().unwrap_or("")));
                if before != after {
                    st.oracle_failure(json!({"key": format!("extension:err-mutates/{}", key), "what": "a failed round changed patch_data", "err": e}));
                }
                push_case(cw, &tables, None);
                finished = true;
                break;
            }
            Ok(Ok(new_font)) => {
                st.count("gloop.round_ok");
                let newly: Vec<i64> = before.iter().filter(|(u, p)| *p && after.contains(&(*u, false))).map(|x| x.0).collect();
                let reverted = before.iter().any(|(u, p)| !*p && after.contains(&(*u, true)));
                let in_group = newly.iter().any(|u| sel_ranks.contains(u));
                push_case(cw, &tables, Some(&after));
                if newly.is_empty() || reverted || !in_group {
                    st.oracle_failure(json!({"key": "extension:no-progress-round", "what": "apply_next_patches returned Ok but no URI of the group went from Pending to Applied", "case": key, "round": round, "uris": uris, "before": format!("{:?}", before), "after": format!("{:?}", after), "def": format!("{:?}", d), "tables": format!("{:?}", tables)}));
                    return;
                }
                // read the applied bits back from the real font; exactly entries offered this round may have been marked
                let mut newly_marked = 0usize;
                for t in tables.iter_mut() {
                    let Some(tb) = table_bytes_of(&new_font, t.tag) else {
                        st.oracle_failure(json!({"key": format!("extension:table-lost/{}", key), "what": "mapping table missing after glyph-keyed application"}));
                        return;
                    };
                    for e in &t.entries {
                        let set = tb.get(e.bit / 8).map(|b| b & (1 << (e.bit % 8)) != 0).unwrap_or(false);
                        if set && !e.ignored && !t.applied.contains(&e.bit) {
                            t.applied.push(e.bit);
                            newly_marked += 1;
                            if !cands.iter().any(|c| c.table == t.tag && c.bit == e.bit) {
                                st.oracle_failure(json!({"key": format!("extension:marked-unoffered/{}", key), "what": "an entry that was not offered was marked applied", "bit": e.bit}));
                            }
                        }
                    }
                }
                if newly_marked == 0 {
                    st.oracle_failure(json!({"key": format!("extension:no-bit-marked/{}", key), "what": "Ok glyph-keyed round marked no mapping entry as applied"}));
                }
                if round > 0 {
                    st.count("gloop.multi_round");
                }
                if cands.len() > uris.len() {
                    st.count("gloop.shared_uri_round");
                }
                font = new_font;
            }
        }
    }
    if !finished {
        st.oracle_failure(json!({"key": "extension:no-progress-round", "what": "extension did not reach a fixpoint or an error within the round cap", "case": key, "cap": cap}));
    }
}

// ---------------------------------------------------------------- format 1: generated tables + independent decoder

struct F1Table {
    max_entry: u16,
    max_gm_entry: u16,
    first_mapped: u16,
    entry_index: Vec<u16>,                     // for gids first_mapped..7
    records: Vec<(u32, u16, Vec<(u16, u16)>)>, // (tag, first new entry index, entry map records)
    applied: Vec<u16>,
    fmt: u8,
    bytes: Vec<u8>,
}

/// family 0: small tables around the u8/u16 field-width boundary; family 1: width-boundary family for the
/// entry index itself (bitmap lengths across 256 bytes, entries >= 2048 whose bitmap byte index does not fit a
/// u8, aliases i / i +- 2048 with different applied bits, glyph and feature maps touching the high entries)
fn gen_format1(rng: &mut Rng, family: u8) -> F1Table {
    let (max_gm_entry, max_entry): (u16, u16) = if family == 0 {
        let g: u16 = *rng.pick(&[2u16, 5, 40, 200, 254, 255, 256, 300]);
        let opts: Vec<u16> = [g, g + 3, 255, 256, 257, 300, 400].into_iter().filter(|m| *m >= g).collect();
        (g, *rng.pick(&opts))
    } else {
        let m: u16 = *rng.pick(&[255u16, 256, 257, 2047, 2048, 2049, 4095, 4095, 65535]);
        let opts: Vec<u16> = [m, m - 1, m / 2, 2047, 2048, 2049, 2100, 300, 255].into_iter().filter(|g| *g <= m).collect();
        (*rng.pick(&opts), m)
    };
    let wide = max_entry >= 256;
    let first_mapped: u16 = rng.below(4) as u16;
    let gm_vals: Vec<u16> = {
        let mut v = vec![0u16, 1, 2, max_gm_entry, max_gm_entry.saturating_sub(1), max_gm_entry / 2];
        if max_gm_entry < max_entry {
            v.push(max_gm_entry + 1); // larger than the glyph map maximum: ignored
        }
        if family == 1 {
            // high entries together with their aliases modulo 2048 (256 bitmap bytes) and modulo 256
            for h in [max_gm_entry, max_gm_entry.saturating_sub(3), 2048, 2049, 2055, 4000, 40000, 256 + 7] {
                if h <= max_gm_entry {
                    v.push(h);
                    for m in [2048u16, 256, 32768] {
                        if h >= m + 1 {
                            v.push(h - m);
                        }
                    }
                }
            }
        }
        v
    };
    let entry_index: Vec<u16> = (first_mapped..7).map(|_| *rng.pick(&gm_vals)).collect();
    let tag_univ: Vec<u32> = {
        let mut t: Vec<u32> = [b"aalt", b"dlig", b"liga", b"null", b"smcp"].iter().map(|t| tag_u32(t)).collect();
        t.sort();
        t
    };
    let mut records: Vec<(u32, u16, Vec<(u16, u16)>)> = vec![];
    if max_entry > max_gm_entry && rng.chance(5, 6) {
        let tags = subset(rng, &tag_univ, 4);
        for t in tags {
            let n = 1 + rng.below(3) as usize;
            let first_new = {
                let span = (max_entry - max_gm_entry) as u64;
                let base = max_gm_entry + 1 + rng.below(span) as u16;
                if rng.chance(1, 10) { max_gm_entry } else { base } // sometimes invalid (<= glyph map maximum)
            };
            let emr: Vec<(u16, u16)> = (0..n)
                .map(|_| {
                    let a = *rng.pick(&gm_vals);
                    let b = *rng.pick(&gm_vals);
                    if rng.chance(1, 8) { (a.max(b), a.min(b)) } else { (a.min(b), a.max(b)) }
                })
                .collect();
            records.push((t, first_new, emr));
        }
    }
    let bitmap_len = (max_entry as usize + 1 + 7) / 8;
    let mut bitmap = vec![0u8; bitmap_len];
    let mut applied = vec![];
    let interesting: Vec<u16> = entry_index.iter().copied().chain(records.iter().flat_map(|r| (0..r.2.len() as u16).filter_map(move |i| r.1.checked_add(i)))).filter(|i| *i <= max_entry).collect();
    for i in &interesting {
        if rng.chance(1, 5) && !applied.contains(i) {
            applied.push(*i);
            bitmap[*i as usize / 8] |= 1 << (*i % 8);
        }
    }
    if family == 1 {
        // pairs i / i - 2048 (same bitmap byte modulo 256, same bit) whose applied bits differ
        for i in &interesting {
            if *i >= 2049 && *i - 2048 <= max_entry && rng.chance(1, 2) {
                let (a, b) = if rng.chance(1, 2) { (*i, *i - 2048) } else { (*i - 2048, *i) };
                if !applied.contains(&a) {
                    applied.push(a);
                    bitmap[a as usize / 8] |= 1 << (a % 8);
                }
                if let Some(pos) = applied.iter().position(|x| *x == b) {
                    applied.remove(pos);
                    bitmap[b as usize / 8] &= !(1 << (b % 8));
                }
            }
        }
    }
    let fmt = 1 + rng.below(3) as u8;
    let template = b"//h/{id}";
    let push_idx = |b: BeBuffer, v: u16| if wide { b.push(v) } else { b.push(v as u8) };
    let mut b = BeBuffer::new().push(1u8).push(0u32).extend([0u32, 0, 0, 1]).push(max_entry).push(max_gm_entry).push(Uint24::new(7));
    let header_len = 1 + 4 + 16 + 2 + 2 + 3 + 4 + 4 + bitmap_len + 2 + template.len() + 1;
    let gm_len = 2 + entry_index.len() * if wide { 2 } else { 1 };
    b = b.push(header_len as u32).push(if records.is_empty() { 0u32 } else { (header_len + gm_len) as u32 });
    for x in &bitmap {
        b = b.push(*x);
    }
    b = b.push(template.len() as u16);
    for x in template {
        b = b.push(*x);
    }
    b = b.push(fmt);
    assert_eq!(b.len(), header_len);
    b = b.push(first_mapped);
    for e in &entry_index {
        b = push_idx(b, *e);
    }
    if !records.is_empty() {
        b = b.push(records.len() as u16);
        for (t, first_new, emr) in &records {
            b = b.push(tag_of(*t));
            b = push_idx(b, *first_new);
            b = push_idx(b, emr.len() as u16);
        }
        for (_, _, emr) in &records {
            for (a, z) in emr {
                b = push_idx(b, *a);
                b = push_idx(b, *z);
            }
        }
    }
    F1Table { max_entry, max_gm_entry, first_mapped, entry_index, records, applied, fmt, bytes: b.as_slice().to_vec() }
}

/// "Interpret Format 1 Patch Map" + entry intersection, written from the specification:
/// offered entry index -> (intersecting codepoints, intersecting feature tags)
fn f1_expected(t: &F1Table, cmap: &[(u32, u32)], d: &ADef) -> Vec<(u16, usize, usize)> {
    let in_def = |cp: u32| match &d.cps {
        ACps::Incl(v) => v.contains(&cp),
        ACps::Excl(v) => !v.contains(&cp),
    };
    let mut hit: BTreeMap<u16, (BTreeSet<u32>, BTreeSet<u32>)> = BTreeMap::new();
    for (cp, gid) in cmap {
        if !in_def(*cp) {
            continue;
        }
        let e = if (*gid as u16) < t.first_mapped { 0 } else { t.entry_index[(*gid as u16 - t.first_mapped) as usize] };
        if e > t.max_gm_entry {
            continue;
        }
        hit.entry(e).or_default().0.insert(*cp);
    }
    let glyph_hits = hit.clone();
    for (tag, first_new, emr) in &t.records {
        let wanted = match &d.feats {
            None => true,
            Some(v) => v.contains(tag),
        };
        if !wanted {
            continue;
        }
        for (i, (first, last)) in emr.iter().enumerate() {
            let mapped = *first_new as u32 + i as u32;
            if first > last || *last > t.max_gm_entry || mapped <= t.max_gm_entry as u32 || mapped > t.max_entry as u32 {
                continue;
            }
            let mut cps = BTreeSet::new();
            let mut any = false;
            for (_, (c, _)) in glyph_hits.range(*first..=*last) {
                any = true;
                cps.extend(c.iter().copied());
            }
            if any {
                let e = hit.entry(mapped as u16).or_default();
                e.0.extend(cps);
                e.1.insert(*tag);
            }
        }
    }
    hit.into_iter().filter(|(i, _)| *i > 0 && !t.applied.contains(i)).map(|(i, (c, f))| (i, c.len(), f.len())).collect()
}

fn format1_generated(rng: &mut Rng, st: &mut Stats, cw: &mut CaseWriter, n: usize) {
    use font_test_data::ift::IFT_BASE;
    use skrifa::MetadataProvider;
    let base = FontRef::new(IFT_BASE).unwrap();
    let cmap: Vec<(u32, u32)> = base.charmap().mappings().map(|(c, g)| (c, g.to_u32())).collect();
    let cp_univ: Vec<u32> = cmap.iter().map(|x| x.0).chain([0x41u32, 0x123]).collect();
    let tag_univ: Vec<u32> = [b"aalt", b"dlig", b"liga", b"null", b"smcp", b"rlig"].iter().map(|t| tag_u32(t)).collect();
    for ti in 0..n {
        let t = gen_format1(rng, if ti % 4 == 3 { 1 } else { 0 });
        // every third font also has a format-2 "IFTX" table (mixed grouping)
        let partner: Option<ATable> = if ti % 3 == 2 {
            let o = GenOpts { big: false, malformed: false, mode: 1 + rng.below(3) };
            let tp = *rng.pick(&TEMPLATES[..8]);
            Some(gen_table(rng, 1, 2, tp, &o, st))
        } else {
            None
        };
        let mut fb = FontBuilder::new();
        fb.add_raw(IFT_TAG, t.bytes.clone());
        if let Some(p) = &partner {
            fb.add_raw(IFTX_TAG, p.bytes.clone());
        }
        fb.copy_missing_tables(base.clone());
        let font = fb.build();
        // uri ranks: every entry index the format-1 table can offer + the partner's entries
        let mut f1_idx: BTreeSet<u16> = t.entry_index.iter().copied().collect();
        for r in &t.records {
            for i in 0..r.2.len() as u16 {
                if let Some(x) = r.1.checked_add(i) {
                    f1_idx.insert(x);
                }
            }
        }
        let f1_uri: BTreeMap<u16, String> = f1_idx.iter().map(|i| (*i, my_expand("//h/{id}", &AId::Num(*i as u32)))).collect();
        let mut all_uris: BTreeSet<String> = f1_uri.values().cloned().collect();
        if let Some(p) = &partner {
            all_uris.extend(p.entries.iter().filter_map(|e| e.uri.clone()));
        }
        let rank: BTreeMap<String, i64> = all_uris.iter().enumerate().map(|(i, u)| (u.clone(), i as i64)).collect();
        let c_f1 = format!(
            "T1 (mkF1 0 1 true {} {})",
            cbytes(&t.bytes),
            clist(f1_uri.iter(), |(i, u)| format!("({}, {})", i, rank[u]))
        );
        let c_tables = match &partner {
            Some(p) => format!("[{}; T2 ({})]", c_f1, c_table(p, &rank)),
            None => format!("[{}]", c_f1),
        };
        let c_cmap = clist(cmap.iter(), |(c, g)| format!("({}, {})", c, g));
        if t.fmt == 3 && partner.is_none() {
            let d_all = ADef { cps: ACps::Excl(vec![]), feats: None, ds: Some(vec![]) };
            run_f1_loop(rng, &t, &cmap, &d_all, st, cw, &format!("f1loop/{}/all", ti));
            let d2 = ADef { cps: ACps::Incl(subset(rng, &cp_univ, 5)), feats: Some(subset(rng, &tag_univ, 3)), ds: Some(vec![]) };
            run_f1_loop(rng, &t, &cmap, &d2, st, cw, &format!("f1loop/{}/sub", ti));
        }
        st.count(&format!("f1gen.width{}_gm{}", if t.max_entry >= 256 { 2 } else { 1 }, if t.max_gm_entry >= 256 { 2 } else { 1 }));
        if t.max_entry >= 2048 {
            st.count("f1gen.bitmap_longer_than_256_bytes");
        }
        if t.applied.iter().any(|a| *a >= 2048) || t.applied.iter().any(|a| a.checked_add(2048).map_or(false, |x| t.entry_index.contains(&x))) {
            st.count("f1gen.applied_bit_differs_from_alias_mod_2048");
        }
        if t.records.iter().map(|r| r.2.len()).sum::<usize>() >= 2 {
            st.count("f1gen.several_entry_map_records");
        }
        for di in 0..8 {
            let cps = match rng.below(6) {
                0 => ACps::Excl(vec![]),
                1 => ACps::Excl(subset(rng, &cp_univ, 4)),
                _ => ACps::Incl(subset(rng, &cp_univ, 4)),
            };
            let feats = if rng.chance(1, 5) { None } else { Some(subset(rng, &tag_univ, 3)) };
            let d = ADef { cps, feats, ds: Some(vec![]) };
            let exp = f1_expected(&t, &cmap, &d);
            st.evaluations += 1;
            let key = format!("f1gen/{}/{}", ti, di);
            match observe_offered(&font, &real_def(&d)) {
                Ok(Some(obs_all)) => {
                    // ---- model case (format-1 decoder + intersection from the table bytes)
                    let sel = observe_select(&font, &real_def(&d)).unwrap_or(None);
                    let sel_ranks: Option<Vec<i64>> = sel.as_ref().map(|us| us.iter().map(|u| rank.get(u).copied().unwrap_or(-2)).collect());
                    if di < 3 && t.bytes.len() <= 1200 {
                    cw.push(format!(
                        "Case1 ({}, 7, {}, {}, {}, {})",
                        c_tables,
                        c_cmap,
                        c_def(&d),
                        copt(Some(clist(obs_all.iter(), |o| c_obs(o, &rank)))),
                        copt(sel_ranks.as_ref().map(|v| czlist(v.iter().map(|x| *x as i128))))
                    ));
                    st.count("f1gen.model_cases");
                    }
                    let obs: Vec<Obs> = obs_all.iter().filter(|o| o.table == 0).cloned().collect();
                    if t.fmt == 2 && obs.len() >= 2 {
                        st.count("f1gen.partial_with_two_or_more_candidates");
                    }
                    let got: Vec<(u16, usize, usize)> = obs.iter().map(|o| ((o.bit as i64 - 36 * 8) as u16, o.cp as usize, o.tags as usize)).collect();
                    let exp_cmp: Vec<(u16, usize, usize)> = if t.fmt == 3 { exp.iter().map(|e| (e.0, 0, 0)).collect() } else { exp.clone() };
                    if got != exp_cmp || obs.iter().any(|o| o.table != 0 || o.fmt != t.fmt || (t.fmt != 3 && o.order != (o.bit as u64 - 288))) {
                        st.oracle_failure(json!({"key": "format1:offered-differs-from-spec-decoder", "case": key, "what": "format-1 offered entries (index, codepoints, tags) differ from the independent decoder", "expected": format!("{:?}", exp_cmp), "got": format!("{:?}", got), "def": format!("{:?}", d), "max_entry": t.max_entry, "max_glyph_map_entry": t.max_gm_entry, "first_mapped": t.first_mapped, "entry_index": format!("{:?}", t.entry_index), "records": format!("{:?}", t.records), "applied": format!("{:?}", t.applied), "fmt": t.fmt}));
                    }
                    if exp.iter().any(|e| e.0 > t.max_gm_entry) {
                        st.count("f1gen.feature_entry_offered");
                        st.nontrivial(&format!("{:?}{:?}", t.bytes, d));
                    }
                    if let Some(us) = &sel {
                        if let Some(why) = group_oracle(&obs_all, us) {
                            st.oracle_failure(json!({"key": "format1:group", "case": key, "what": why}));
                        }
                    }
                }
                Ok(None) => {
                    st.oracle_failure(json!({"key": "format1:unexpected-error", "case": key, "what": "intersecting_patches failed on a well-formed generated format-1 table"}));
                }
                Err(p) => {
                    st.oracle_failure(json!({"key": "format1:panic", "case": key, "panic": p}));
                }
            }
        }
    }
}

/// Regression probe: intersect_format1_feature_map used to compute `index * field_width * 2` in u16 (panic /
/// wrong record with >= 16384 two-byte entry-map records before the requested one); fixed upstream
/// (commit 9bc6adf: usize arithmetic, checked_add for the mapped index).  A panic here is reported.
fn format1_stride_overflow_probe(st: &mut Stats) {
    use font_test_data::ift::IFT_BASE;
    let base = FontRef::new(IFT_BASE).unwrap();
    let n_rec: u16 = 16385;
    let max_entry: u16 = 300;
    let bitmap_len = (max_entry as usize + 1 + 7) / 8;
    let template = b"//h/{id}";
    let header_len = 1 + 4 + 16 + 2 + 2 + 3 + 4 + 4 + bitmap_len + 2 + template.len() + 1;
    let gm_len = 2 + 5 * 2;
    let mut b = BeBuffer::new().push(1u8).push(0u32).extend([0u32, 0, 0, 1]).push(max_entry).push(2u16).push(Uint24::new(7));
    b = b.push(header_len as u32).push((header_len + gm_len) as u32);
    for _ in 0..bitmap_len {
        b = b.push(0u8);
    }
    b = b.push(template.len() as u16);
    for x in template {
        b = b.push(*x);
    }
    b = b.push(3u8);
    b = b.push(2u16).extend([1u16, 2, 1, 2, 1]);
    b = b.push(1u16).push(Tag::new(b"liga")).push(3u16).push(n_rec);
    let mut bytes = b.as_slice().to_vec();
    for _ in 0..n_rec {
        bytes.extend_from_slice(&[0, 1, 0, 2]); // (first 1, last 2): valid ranges, mapped index soon > max entry
    }
    let mut fb = FontBuilder::new();
    fb.add_raw(IFT_TAG, bytes);
    fb.copy_missing_tables(base);
    let font = fb.build();
    let d = SubsetDefinition::new(IntSet::<u32>::all(), FeatureSet::All, Default::default());
    st.evaluations += 1;
    match observe_offered(&font, &d) {
        Err(p) => {
            st.oracle_failure(json!({"key": "format1:stride-overflow-panic", "what": "intersect_format1_feature_map panics with 16385 two-byte entry map records", "panic": p}));
        }
        Ok(r) => {
            st.count("probe.f1_large_entry_map_ok");
            // 2 glyph-map entries + mapped entries 3..=300
            if r.as_ref().map(|v| v.len()) != Some(300) {
                st.oracle_failure(json!({"key": "format1:large-entry-map", "what": "unexpected number of offered entries for the 16385-record feature map", "got": format!("{:?}", r.map(|v| v.len()))}));
            }
        }
    }
}

// ---------------------------------------------------------------- format 1: real extension loop

/// IFT_BASE's cmap / maxp (7 glyphs) plus head / loca / glyf so that glyph-keyed patches apply
fn f1_glyf_font(ift: &[u8]) -> Vec<u8> {
    use font_test_data::ift::IFT_BASE;
    use write_fonts::tables::{head::Head, loca::Loca};
    let base = FontRef::new(IFT_BASE).unwrap();
    let mut fb = FontBuilder::new();
    fb.add_raw(IFT_TAG, ift.to_vec());
    let head = Head { index_to_loc_format: 0, ..Default::default() };
    fb.add_table(&head).unwrap();
    fb.add_table(&Loca::new(vec![0u32, 2, 4, 4, 6, 8, 8, 10])).unwrap();
    fb.add_raw(Tag::new(b"glyf"), vec![1u8, 2, 3, 4, 5, 6, 7, 8, 9, 10]);
    fb.copy_missing_tables(base);
    fb.build()
}

/// select -> fetch -> apply rounds on a glyph-keyed format-1 table: every round is Err or progress, an applied
/// entry (whatever its index) is never offered again, the run ends within the cap; one model case per round.
fn run_f1_loop(rng: &mut Rng, t: &F1Table, cmap: &[(u32, u32)], d: &ADef, st: &mut Stats, cw: &mut CaseWriter, key: &str) {
    use shared_brotli_patch_decoder::NoopBrotliDecoder;
    let mut table = t.bytes.clone();
    let rd = real_def(d);
    let mut pd: HashMap<String, UriStatus> = HashMap::new();
    let cap = 10usize;
    let mut finished = false;
    let c_cmap = clist(cmap.iter(), |(c, g)| format!("({}, {})", c, g));
    for round in 0..cap {
        let font = f1_glyf_font(&table);
        let (off, sel) = match (observe_offered(&font, &rd), observe_select(&font, &rd)) {
            (Ok(a), Ok(b)) => (a, b),
            _ => {
                st.oracle_failure(json!({"key": "extension:panic", "case": key, "what": "panic in selection during a format-1 extension"}));
                return;
            }
        };
        let (Some(cands), Some(uris)) = (off, sel) else {
            st.oracle_failure(json!({"key": "format1:unexpected-error", "case": key, "what": "selection failed during a format-1 extension"}));
            return;
        };
        // an entry whose applied bit is set in the table must not be offered
        for o in &cands {
            let idx = o.bit - 36 * 8;
            if table[36 + idx / 8] & (1 << (idx % 8)) != 0 {
                st.oracle_failure(json!({"key": "extension:applied-entry-still-offered", "case": key, "what": "a format-1 entry whose applied bit is set is offered", "entry": idx, "round": round, "max_entry": t.max_entry}));
                return;
            }
        }
        // model case for this round's table bytes
        let uri_of: BTreeMap<u16, String> = cands.iter().map(|o| ((o.bit - 288) as u16, o.uri.clone().unwrap_or_default())).collect();
        let all: BTreeSet<String> = uri_of.values().cloned().collect();
        let rank: BTreeMap<String, i64> = all.iter().enumerate().map(|(i, u)| (u.clone(), i as i64)).collect();
        if table.len() <= 1200 {
            cw.push(format!(
                "Case1 ([T1 (mkF1 0 1 true {} {})], 7, {}, {}, {}, {})",
                cbytes(&table),
                clist(uri_of.iter(), |(i, u)| format!("({}, {})", i, rank[u])),
                c_cmap,
                c_def(d),
                copt(Some(clist(cands.iter(), |o| c_obs(o, &rank)))),
                copt(Some(czlist(uris.iter().map(|u| rank.get(u).copied().unwrap_or(-2) as i128))))
            ));
        }
        if uris.is_empty() {
            finished = true;
            st.count("f1loop.fixpoint");
            break;
        }
        for u in &uris {
            pd.entry(u.clone()).or_insert_with(|| UriStatus::Pending(noop_glyph_keyed_patch(1)));
        }
        let before: Vec<(String, bool)> = {
            let mut v: Vec<(String, bool)> = pd.iter().map(|(u, s)| (u.clone(), matches!(s, UriStatus::Pending(_)))).collect();
            v.sort();
            v
        };
        let fbytes = font.clone();
        let rdc = rd.clone();
        let pdref = &mut pd;
        let res = catch(std::panic::AssertUnwindSafe(move || {
            let f = FontRef::new(&fbytes).unwrap();
            let g = PatchGroup::select_next_patches(f, &rdc).unwrap();
            g.apply_next_patches_with_decoder(pdref, &NoopBrotliDecoder).map_err(|e| format!("{:?}", e))
        }));
        st.evaluations += 3;
        let after: Vec<(String, bool)> = {
            let mut v: Vec<(String, bool)> = pd.iter().map(|(u, s)| (u.clone(), matches!(s, UriStatus::Pending(_)))).collect();
            v.sort();
            v
        };
        match res {
            Err(p) => {
                st.oracle_failure(json!({"key": "extension:panic", "case": key, "what": "panic in apply_next_patches (format 1)", "panic": p}));
                return;
            }
            Ok(Err(e)) => {
                // with fresh patches for every group URI a round can only fail when everything offered was applied before
                st.count(&format!("f1loop.round_err.{}", e.split('(').next().unwrap_or("")));
                if before.iter().any(|(u, p)| *p && uris.contains(u)) {
                    st.oracle_failure(json!({"key": "extension:error-with-pending-uris", "case": key, "what": "format-1 round failed although a URI of the group was pending", "err": e, "round": round}));
                }
                finished = true;
                break;
            }
            Ok(Ok(new_font)) => {
                st.count("f1loop.round_ok");
                let progressed = before.iter().any(|(u, p)| *p && uris.contains(u) && after.contains(&(u.clone(), false)));
                if !progressed {
                    st.oracle_failure(json!({"key": "extension:no-progress-round", "case": key, "what": "format-1 round returned Ok without moving a URI from Pending to Applied", "round": round}));
                    return;
                }
                let Some(nt) = table_bytes_of(&new_font, 0) else {
                    st.oracle_failure(json!({"key": "extension:table-lost", "case": key, "what": "IFT table missing after application"}));
                    return;
                };
                // exactly the offered entries get their own bit (at byte idx/8, bit idx%8)
                let blen = (t.max_entry as usize + 1 + 7) / 8;
                let mut expect = table.clone();
                for o in &cands {
                    let idx = o.bit - 288;
                    expect[36 + idx / 8] |= 1 << (idx % 8);
                }
                if nt.len() != table.len() || nt[36..36 + blen] != expect[36..36 + blen] {
                    st.oracle_failure(json!({"key": "extension:wrong-applied-bits", "case": key, "what": "the applied bitmap after the round is not the old bitmap plus the bits of the offered entries", "round": round, "max_entry": t.max_entry}));
                    return;
                }
                if cands.iter().any(|o| o.bit - 288 >= 2048) {
                    st.count("f1loop.high_entry_applied");
                }
                table = nt;
            }
        }
        let _ = rng;
    }
    if !finished {
        st.oracle_failure(json!({"key": "extension:no-progress-round", "case": key, "what": "format-1 extension did not reach a fixpoint or an error within the round cap", "cap": cap}));
    }
}

// ---------------------------------------------------------------- main

fn main() {
    silence_panics();
    let args: Vec<String> = std::env::args().collect();
    let thorough = tier_is_thorough(&args);
    let seed = seed_from_env();
    let dir = out_dir(&args, "C19");
    let mut rng = Rng::new(seed);
    let mut st = Stats::new();
    let mut cw = CaseWriter::new(
        &dir,
        "From Coq Require Import ZArith List. Import ListNotations. Open Scope Z_scope.\nFrom FV Require Import Lib.Cases C19.Model C19.Dec2 C19.Fmt1 C19.Cases.",
        "ccase",
        "check_ccase",
        450,
    );
    let nfonts = if thorough { 3600 } else { 450 };
    for fi in 0..nfonts {
        let malformed = fi % 9 == 8;
        let big = fi % 150 == 77 && !malformed;
        let o = GenOpts { big, malformed, mode: if fi % 8 == 5 && !malformed && fi % 9 != 7 { 1 } else if fi % 5 == 4 && !malformed && fi % 9 != 7 { 4 } else { rng.below(4) } };
        let layout = rng.below(20);
        let same_cid = rng.chance(1, 15);
        let mut tables: Vec<ATable> = vec![];
        let t0 = if fi % 9 == 7 && rng.chance(1, 2) { *rng.pick(&TEMPLATES[8..]) } else { *rng.pick(TEMPLATES) };
        let t1 = if o.mode == 4 { TEMPLATES[3] } else if rng.chance(1, 2) { t0 } else { *rng.pick(TEMPLATES) };
        let t0 = if o.mode == 4 { TEMPLATES[0] } else { t0 };
        let same_cid = same_cid && o.mode != 4;
        // invalid templates only in the malformed stream
        let bad_template = fi % 9 == 7;
        let fix = |t: (&'static str, bool)| if !t.1 && !bad_template { TEMPLATES[0] } else { t };
        // twin fonts: IFTX is a copy of IFT's entries under another template / compat id, so that candidates of
        // the two tables tie on the whole IntersectionInfo incl. entry order (max_by_key's last-maximum matters)
        let layout = if fi % 8 == 5 && !malformed && fi % 9 != 7 { 10 } else { layout };
        let twin = layout >= 8 && layout < 17 && fi % 4 == 1;
        // half of the twins keep IFT's template: every IFTX entry then expands to the URI of its IFT twin, so the
        // duplicate of IFT's choice is IFTX's top-ranked partial candidate
        let twin_same_uri = twin && fi % 8 == 5 && !malformed && fi % 9 != 7;
        let rng0 = rng.clone();
        if layout < 17 {
            tables.push(gen_table(&mut rng, 0, 1, fix(t0), &o, &mut st));
        }
        if twin {
            let mut r2 = rng0.clone();
            let tt = if twin_same_uri { fix(t0) } else if fix(t0).0 == TEMPLATES[3].0 { TEMPLATES[0] } else { TEMPLATES[3] };
            if twin_same_uri {
                st.count("enc.twin_tables_same_uris");
            }
            tables.push(gen_table(&mut r2, 1, 2, tt, &o, &mut st));
            st.count("enc.twin_tables");
        } else if layout >= 8 {
            tables.push(gen_table(&mut rng, 1, if same_cid { 1 } else { 2 }, fix(t1), &o, &mut st));
        }
        // uri ranks over every entry of the font
        let mut all_uris: BTreeSet<String> = BTreeSet::new();
        for t in &tables {
            for e in &t.entries {
                if let Some(u) = &e.uri {
                    all_uris.insert(u.clone());
                }
            }
        }
        let rank: BTreeMap<String, i64> = all_uris.iter().enumerate().map(|(i, u)| (u.clone(), i as i64)).collect();
        for ai in 0..2 {
            for t in tables.iter_mut() {
                t.applied.clear();
                if ai == 1 {
                    for e in &t.entries {
                        if rng.chance(1, 3) {
                            t.applied.push(e.bit);
                        }
                    }
                }
            }
            if ai == 0 && o.mode == 0 && !malformed && fi % 9 != 7 && !same_cid && !big {
                for li in 0..3 {
                    let d = if li == 0 { ADef { cps: ACps::Excl(vec![]), feats: None, ds: None } } else { gen_def(&mut rng) };
                    run_glyph_loop(&mut rng, &tables, &d, &rank, &mut st, &mut cw, &format!("font{}/gloop{}", fi, li));
                }
            }
            let font = build_font(&tables);
            let all_obs = observe_offered(&font, &SubsetDefinition::all());
            for di in 0..6 {
                if big && (ai == 1 || di >= 2) {
                    continue;
                }
                let d = if di == 0 && ai == 0 { ADef { cps: ACps::Excl(vec![]), feats: None, ds: None } } else { gen_def(&mut rng) };
                let rd = real_def(&d);
                let off = observe_offered(&font, &rd);
                let sel = observe_select(&font, &rd);
                st.evaluations += 2;
                let key = format!("font{}/applied{}/def{}", fi, ai, di);
                let (off, sel) = match (off, sel) {
                    (Ok(a), Ok(b)) => (a, b),
                    (a, b) => {
                        st.oracle_failure(json!({"key": format!("panic/{}", key), "what": "panic in intersecting_patches / select_next_patches", "offered": format!("{:?}", a.err()), "select": format!("{:?}", b.err())}));
                        continue;
                    }
                };
                // ---- model case
                let sel_ranks: Option<Vec<i64>> = sel.as_ref().map(|us| us.iter().map(|u| rank.get(u).copied().unwrap_or(-2)).collect());
                let rounds = if o.mode == 4 && sel.is_some() && di < 3 { run_loop(&mut rng, &tables, &d, &rank, &mut st, &key) } else { vec![] };
                let c_pd = |v: &PdObs| clist(v.iter(), |(u, p)| format!("({}, {})", cz(*u as i128), cbool(*p)));
                cw.push(format!(
                    "Case2 ({}, {}, {}, {}, {}) {}",
                    clist(tables.iter(), |t| c_table(t, &rank)),
                    c_def(&d),
                    copt(off.as_ref().map(|v| clist(v.iter(), |o| c_obs(o, &rank)))),
                    copt(sel_ranks.as_ref().map(|v| czlist(v.iter().map(|x| *x as i128)))),
                    clist(rounds.iter(), |(b, a)| format!("({}, {})", c_pd(b), copt(a.as_ref().map(|x| c_pd(x))))),
                    if ai == 0 && di == 0 { clist(tables.iter(), |t| c_dec(t, &rank)) } else { "[]".to_string() }
                ));
                if ai == 0 && di == 0 {
                    st.add("dec2.tables_decoded_by_model", tables.len() as u64);
                }
                // ---- cross-table independence: each table alone, and the two tables in swapped slots
                if tables.len() == 2 {
                    let alone: Vec<Result<Option<Vec<Obs>>, String>> = tables.iter().map(|t| observe_offered(&build_font(std::slice::from_ref(t)), &rd)).collect();
                    let mut sw: Vec<ATable> = vec![tables[1].clone(), tables[0].clone()];
                    sw[0].tag = 0;
                    sw[1].tag = 1;
                    let swapped = observe_offered(&build_font(&sw), &rd);
                    st.evaluations += 3;
                    st.count("cross.independence_probe");
                    if let (Some(both), Ok(a), Ok(b), Ok(s)) = (&off, &alone[0], &alone[1], &swapped) {
                        match (a, b, s) {
                            (Some(a), Some(b), Some(s)) => {
                                let cat: Vec<Obs> = a.iter().chain(b.iter()).cloned().collect();
                                let strip = |v: &[Obs]| -> Vec<Obs> { v.iter().map(|o| Obs { table: 0, ..o.clone() }).collect() };
                                let exp_sw: Vec<Obs> = strip(b).into_iter().chain(strip(a)).collect();
                                if &cat != both || strip(s) != exp_sw {
                                    st.oracle_failure(json!({"key": "cross-table:dependent", "case": key, "what": "candidates of a mapping table depend on the other table (alone vs together, or slot order)", "together": format!("{:?}", both), "ift_alone": format!("{:?}", a), "iftx_alone": format!("{:?}", b), "swapped": format!("{:?}", s), "def": format!("{:?}", d)}));
                                }
                            }
                            _ => {
                                st.oracle_failure(json!({"key": "cross-table:dependent", "case": key, "what": "a table that decodes together with the other one fails alone or in the other slot"}));
                            }
                        }
                    }
                }
                // ---- distribution
                match (&off, &sel) {
                    (None, _) => st.count("res.offered_err"),
                    (Some(c), None) => {
                        if c.iter().any(|o| o.uri.is_none()) {
                            st.count("res.select_err_template")
                        } else {
                            st.count("res.select_err_same_compat_id")
                        }
                    }
                    (Some(c), Some(us)) => {
                        let has = |f: u8, t: u8| c.iter().any(|o| o.fmt == f && o.table == t);
                        if c.is_empty() {
                            st.count("res.no_candidates")
                        } else if c.iter().any(|o| o.fmt == 1) {
                            st.count("res.full")
                        } else {
                            st.count(&format!("res.mixed_{}{}", if has(2, 0) { "P" } else { "N" }, if has(2, 1) { "P" } else { "N" }))
                        }
                        let distinct: BTreeSet<&String> = c.iter().filter_map(|o| o.uri.as_ref()).collect();
                        if distinct.len() < c.len() {
                            st.count("res.duplicate_uri_among_candidates");
                        }
                        if us.len() > 1 {
                            st.nontrivial(&format!("{:?}{:?}", tables.iter().map(|t| &t.bytes).collect::<Vec<_>>(), d));
                        }
                    }
                }
                if let Some(c) = &off {
                    // which model branches the offered entries exercised
                    for o in c {
                        let t = tables.iter().find(|t| t.tag == o.table).unwrap();
                        if let Some(e) = t.entries.iter().find(|e| e.bit == o.bit) {
                            if e.cps.is_empty() {
                                st.count("hit.wildcard_codepoints");
                            }
                            if e.feats.is_empty() {
                                st.count("hit.wildcard_features");
                            }
                            if e.ds.is_empty() {
                                st.count("hit.wildcard_design_space");
                            } else {
                                st.count("hit.design_space");
                            }
                            if !e.children.is_empty() {
                                st.count(if e.conj { "hit.conjunctive" } else { "hit.disjunctive" });
                            }
                            // independent URI expansion agrees with uri_string()
                            if e.uri != o.uri {
                                st.oracle_failure(json!({"key": format!("uri/{}", t.template), "what": "uri_string() differs from the specification's template expansion", "expected": e.uri, "got": o.uri, "id": format!("{:?}", e.id)}));
                            }
                        } else {
                            st.oracle_failure(json!({"key": format!("unknown-entry/{}", key), "what": "offered candidate does not correspond to an encoded entry", "bit": o.bit}));
                        }
                    }
                    if c.len() > 0 {
                        st.count("offered.nonempty");
                    }
                }
                st.sample(json!({"key": key, "def": format!("{:?}", d), "offered": format!("{:?}", off.as_ref().map(|v| v.iter().map(|o| (o.table, o.bit)).collect::<Vec<_>>())), "uris": format!("{:?}", sel)}));
                // ---- implementation-only oracle
                if let Some(c) = &off {
                    // never offered: ignored / applied entries
                    for o in c {
                        let t = tables.iter().find(|t| t.tag == o.table).unwrap();
                        if t.applied.contains(&o.bit) || t.entries.iter().any(|e| e.bit == o.bit && e.ignored) {
                            st.oracle_failure(json!({"key": format!("applied-offered/{}", key), "what": "an applied or ignored entry was offered", "bit": o.bit}));
                        }
                    }
                    if let Ok(Some(all)) = &all_obs {
                        if !key_set(c).is_subset(&key_set(all)) {
                            st.oracle_failure(json!({"key": format!("subset-all/{}", key), "what": "offered(def) not contained in offered(all)", "def": format!("{:?}", d), "tables": format!("{:?}", tables)}));
                        }
                    } else {
                        st.oracle_failure(json!({"key": format!("subset-all-err/{}", key), "what": "offered(def) is Ok but offered(all) is not", "def": format!("{:?}", d)}));
                    }
                    let d2 = grow_def(&mut rng, &d);
                    st.evaluations += 1;
                    match observe_offered(&font, &real_def(&d2)) {
                        Ok(Some(c2)) => {
                            if !key_set(c).is_subset(&key_set(&c2)) {
                                st.oracle_failure(json!({"key": format!("monotone/{}", key), "what": "offered(def) not contained in offered(def') although def <= def'", "def": format!("{:?}", d), "def2": format!("{:?}", d2), "tables": format!("{:?}", tables)}));
                            }
                            if key_set(c).len() < key_set(&c2).len() {
                                st.count("oracle.monotone_strict_growth");
                            }
                        }
                        other => {
                            st.oracle_failure(json!({"key": format!("monotone-err/{}", key), "what": "offered(def') failed although offered(def) is Ok", "got": format!("{:?}", other)}));
                        }
                    }
                    if let Some(us) = &sel {
                        if let Some(why) = group_oracle(c, us) {
                            st.oracle_failure(json!({"key": format!("group/{}", key), "what": why, "def": format!("{:?}", d), "uris": us, "cands": format!("{:?}", c), "tables": format!("{:?}", tables)}));
                        }
                    }
                }
            }
        }
    }
    format1_oracle(&mut rng, &mut st, if thorough { 240 } else { 45 });
    format1_generated(&mut rng, &mut st, &mut cw, if thorough { 4000 } else { 500 });
    format1_stride_overflow_probe(&mut st);
    let shards = cw.finish();
    st.v.insert("shards".into(), shards.into());
    st.v.insert("model_cases".into(), cw.len().into());
    st.write(&dir, "random format-2 IFT/IFTX mapping tables (1-7 entries each: wildcard/biased sparse-bit-set codepoints, feature tags, design-space segments, conjunctive/disjunctive children, id deltas / id strings, ignored flags, per-entry formats, colliding URI templates, equal compat ids, malformed child indices / segments / templates) x applied-bit states x subset definitions (inverted codepoints, all features, all design space); non-trivial = selected group has more than one URI (distinct by table bytes + definition) or a format-1 definition with offered entries");
    println!("cases={} shards={} oracle_failures={}", cw.len(), shards, st.oracle_failures.len());
}
