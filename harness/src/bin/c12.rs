//! C12 harness — "Drawing is well-formed and independent of buffers, history and threads".
//!
//! Implementation-only oracle (the property's own wording, on the real skrifa code, font-test-data
//! fonts: TrueType static + variable, CFF, CFF2):
//!   T1  library memory vs caller memory of exactly `draw_memory_size` bytes whose start is offset
//!       0..7 bytes from an 8-aligned address, garbage-filled (always) and zero-filled: identical pen
//!       streams and AdjustedMetrics (unhinted FreeType style, unhinted HarfBuzz style, hinted);
//!   T2  no location vs all-zero coordinate vectors of several lengths;
//!   T3  a fresh HintingInstance vs one instance reconfigured along EVERY sequence (length <= 3 quick,
//!       <= 4 thorough) of configurations drawn from a pool spanning fonts (glyf/CFF/CFF2), sizes,
//!       locations, engines and targets;
//!   T4  draws in shuffled orders through one instance and one dirty scratch buffer vs one fresh
//!       instance per draw;
//!   T5  16 threads drawing through one shared instance / one shared OutlineGlyphCollection;
//!   T7  one instance walked through chains of configurations of ONE font (all locations/sizes/targets, all four
//!       engine choices) WITH DRAWS after every step, and differently reconfigured clones drawn interleaved, vs fresh;
//!   T6  cold start: 16 threads released from a Barrier against a brand-new instance (or clones of it), several
//!       rounds x all fonts x {Auto, AutoFallback} + the reuse pool, vs a single-threaded reference;
//!   WF  every successful stream is (MoveTo (LineTo|QuadTo|CurveTo)* Close)* with finite coordinates.
//! Correspondence shards for coq/C12/Model.v `check_case`:
//!   KTypes  size_of/align_of of the element types vs the translator's table (Gen.type_table);
//!   KSize   draw_memory_size vs Gen.required_buffer_size on counts recomputed from glyf/maxp/cvt;
//!   KCarve  success / InsufficientMemory of the real draw with buffers of required-9..required+1 bytes
//!           at several misalignments vs Carve.carve on the extracted allocation sequence and the REAL
//!           buffer address;
//!   KCoords HintingInstance::location() after new(.., location, ..) vs Model.effective_coords;
//!   KPath   pen stream of unscaled simple glyphs (both path styles) vs Path.to_path.
use read_fonts::tables::glyf::{CompositeGlyphFlags, Glyph, PointFlags};
use read_fonts::types::{F26Dot6, F2Dot14, Fixed, GlyphId, Point};
use read_fonts::{FontRef, TableProvider};
use serde_json::json;
use skrifa::instance::{LocationRef, Size};
use skrifa::outline::pen::PathStyle;
use skrifa::outline::{
    DrawError, DrawSettings, Engine, GlyphStyles, Hinting, HintingInstance, HintingOptions, OutlineGlyph,
    OutlineGlyphCollection, OutlinePen, SmoothMode, Target,
};
use skrifa::MetadataProvider;
use std::collections::HashMap;
use vh::*;

// ------------------------------------------------------------------ recording pen

#[derive(Clone, PartialEq, Eq, Debug, Hash)]
enum Cmd {
    M([u32; 2]),
    L([u32; 2]),
    Q([u32; 4]),
    C([u32; 6]),
    Z,
}

#[derive(Default)]
struct Rec(Vec<Cmd>);
impl OutlinePen for Rec {
    fn move_to(&mut self, x: f32, y: f32) {
        self.0.push(Cmd::M([x.to_bits(), y.to_bits()]));
    }
    fn line_to(&mut self, x: f32, y: f32) {
        self.0.push(Cmd::L([x.to_bits(), y.to_bits()]));
    }
    fn quad_to(&mut self, a: f32, b: f32, x: f32, y: f32) {
        self.0.push(Cmd::Q([a.to_bits(), b.to_bits(), x.to_bits(), y.to_bits()]));
    }
    fn curve_to(&mut self, a: f32, b: f32, c: f32, d: f32, x: f32, y: f32) {
        self.0.push(Cmd::C([a.to_bits(), b.to_bits(), c.to_bits(), d.to_bits(), x.to_bits(), y.to_bits()]));
    }
    fn close(&mut self) {
        self.0.push(Cmd::Z);
    }
}

/// what a draw produced: Ok(stream, (has_overlaps, lsb bits, advance bits)) or Err(debug text)
type Outcome = Result<(Vec<Cmd>, (bool, Option<u32>, Option<u32>)), String>;

fn outcome(r: Result<Result<skrifa::outline::AdjustedMetrics, DrawError>, String>, pen: Rec) -> Outcome {
    match r {
        Err(p) => Err(format!("PANIC: {p}")),
        Ok(Err(e)) => Err(format!("{e:?}")),
        Ok(Ok(m)) => Ok((pen.0, (m.has_overlaps, m.lsb.map(f32::to_bits), m.advance_width.map(f32::to_bits)))),
    }
}

fn coords_of(c: &[i16]) -> Vec<F2Dot14> {
    c.iter().map(|v| F2Dot14::from_bits(*v)).collect()
}

#[derive(Clone, Copy, PartialEq, Eq, Debug, Hash)]
enum Style {
    Ft,
    Hb,
}

fn draw_unhinted(g: &OutlineGlyph, size: Size, coords: &[F2Dot14], style: Style, mem: Option<&mut [u8]>) -> Outcome {
    let mut pen = Rec::default();
    let ps = if style == Style::Ft { PathStyle::FreeType } else { PathStyle::HarfBuzz };
    let r = {
        let pen = &mut pen;
        catch(std::panic::AssertUnwindSafe(move || {
            let s = DrawSettings::unhinted(size, LocationRef::new(coords)).with_path_style(ps).with_memory(mem);
            g.draw(s, pen)
        }))
    };
    outcome(r, pen)
}

fn draw_hinted(g: &OutlineGlyph, inst: &HintingInstance, pedantic: bool, mem: Option<&mut [u8]>) -> Outcome {
    let mut pen = Rec::default();
    let r = {
        let pen = &mut pen;
        catch(std::panic::AssertUnwindSafe(move || {
            let s = DrawSettings::hinted(inst, pedantic).with_memory(mem);
            g.draw(s, pen)
        }))
    };
    outcome(r, pen)
}

/// WF: (M (L|Q|C)* Z)*, all coordinates finite
fn well_formed(cmds: &[Cmd]) -> Result<(), String> {
    let mut inside = false;
    let fin = |v: &[u32]| v.iter().all(|b| f32::from_bits(*b).is_finite());
    for (i, c) in cmds.iter().enumerate() {
        match c {
            Cmd::M(v) => {
                if inside {
                    return Err(format!("MoveTo inside an open contour at {i}"));
                }
                if !fin(v) {
                    return Err(format!("non-finite coordinate at {i}"));
                }
                inside = true;
            }
            Cmd::Z => {
                if !inside {
                    return Err(format!("Close without MoveTo at {i}"));
                }
                inside = false;
            }
            Cmd::L(v) => {
                if !inside {
                    return Err(format!("segment outside a contour at {i}"));
                }
                if !fin(v) {
                    return Err(format!("non-finite coordinate at {i}"));
                }
            }
            Cmd::Q(v) => {
                if !inside {
                    return Err(format!("segment outside a contour at {i}"));
                }
                if !fin(v) {
                    return Err(format!("non-finite coordinate at {i}"));
                }
            }
            Cmd::C(v) => {
                if !inside {
                    return Err(format!("segment outside a contour at {i}"));
                }
                if !fin(v) {
                    return Err(format!("non-finite coordinate at {i}"));
                }
            }
        }
    }
    if inside {
        return Err("stream ends inside an open contour".into());
    }
    Ok(())
}

// ------------------------------------------------------------------ fonts

struct FontInfo {
    name: &'static str,
    font: FontRef<'static>,
    outlines: OutlineGlyphCollection<'static>,
    is_glyf: bool,
    axes: usize,
    gids: Vec<u32>,
    /// precomputed autohinter glyph styles (per font), for Engine::Auto(Some(..))
    styles: GlyphStyles,
}

/// Two synthetic hinted fonts with the same maxp limits and the same fpgm layout, built to make stale
/// instance state observable:
///  A: fpgm `PUSHB 0x91; IDEF; PUSHB 0 64; SHPIX; ENDF` (instruction definition for opcode 0x91),
///     prep `PUSHB 0 128; WS` (storage[0] = 128);
///  B: fpgm `PUSHB 0; FDEF; PUSHB 0 64; SHPIX; ENDF` (same bytes at the same offsets, but a FUNCTION
///     definition), empty prep.
///  glyph 1: `PUSHB 0 0; RS; SHPIX`  — shifts point 0 by storage[0] (0 on a clean instance);
///  glyph 2: `0x91`                   — undefined opcode on a clean B instance (error, ignored when not
///     pedantic); with a stale IDEF entry it would run B's fpgm[3..8] and shift point 0 by one pixel.
fn synthetic_font(variant_a: bool) -> &'static [u8] {
    use write_fonts::tables::glyf::{GlyfLocaBuilder, Glyph as WGlyph, SimpleGlyph as WSimple};
    use write_fonts::tables::{head::Head, hhea::Hhea, hmtx::Hmtx, hmtx::LongMetric, loca::LocaFormat, maxp::Maxp};
    let square = |x0: f64| {
        let mut p = kurbo::BezPath::new();
        p.move_to((x0, 0.0));
        p.line_to((x0, 500.0));
        p.line_to((x0 + 400.0, 500.0));
        p.line_to((x0 + 400.0, 0.0));
        p.close_path();
        p
    };
    let mut g1 = WSimple::from_bezpath(&square(50.0)).unwrap();
    g1.instructions = vec![0xB1, 0, 0, 0x43, 0x38];
    let mut g2 = WSimple::from_bezpath(&square(80.0)).unwrap();
    g2.instructions = vec![0x91];
    let mut b = GlyfLocaBuilder::new();
    b.add_glyph(&WGlyph::Empty).unwrap();
    b.add_glyph(&g1).unwrap();
    b.add_glyph(&g2).unwrap();
    let (glyf, loca, fmt) = b.build();
    let head = Head { units_per_em: 1000, index_to_loc_format: (fmt == LocaFormat::Long) as i16, ..Default::default() };
    let maxp = Maxp {
        num_glyphs: 3,
        max_points: Some(8),
        max_contours: Some(2),
        max_composite_points: Some(0),
        max_composite_contours: Some(0),
        max_zones: Some(2),
        max_twilight_points: Some(4),
        max_storage: Some(4),
        max_function_defs: Some(2),
        max_instruction_defs: Some(2),
        max_stack_elements: Some(32),
        max_size_of_instructions: Some(16),
        max_component_elements: Some(0),
        max_component_depth: Some(0),
    };
    let hhea = Hhea { number_of_h_metrics: 3, ..Default::default() };
    let hmtx = Hmtx::new(vec![LongMetric::new(500, 0), LongMetric::new(500, 50), LongMetric::new(500, 80)], vec![]);
    let mut fb = write_fonts::FontBuilder::new();
    fb.add_table(&head).unwrap();
    fb.add_table(&maxp).unwrap();
    fb.add_table(&hhea).unwrap();
    fb.add_table(&hmtx).unwrap();
    fb.add_table(&glyf).unwrap();
    fb.add_table(&loca).unwrap();
    let tag = |t: &[u8; 4]| read_fonts::types::Tag::new(t);
    if variant_a {
        fb.add_raw(tag(b"fpgm"), vec![0xB0, 0x91, 0x89, 0xB1, 0, 64, 0x38, 0x2D]);
        fb.add_raw(tag(b"prep"), vec![0xB1, 0, 128, 0x42]);
    } else {
        fb.add_raw(tag(b"fpgm"), vec![0xB0, 0x00, 0x2C, 0xB1, 0, 64, 0x38, 0x2D]);
    }
    Box::leak(fb.build().into_boxed_slice())
}

fn fonts(rng: &mut Rng, thorough: bool) -> Vec<FontInfo> {
    use font_test_data as d;
    let synth_a = catch(|| synthetic_font(true)).unwrap_or(&[]);
    let synth_b = catch(|| synthetic_font(false)).unwrap_or(&[]);
    let list: Vec<(&'static str, &'static [u8])> = vec![
        ("synth_a", synth_a),
        ("synth_b", synth_b),
        ("tinos_subset", d::TINOS_SUBSET),
        ("tthint_subset", d::TTHINT_SUBSET),
        ("vazirmatn_var", d::VAZIRMATN_VAR),
        ("cvar", d::CVAR),
        ("glyf_components", d::GLYF_COMPONENTS),
        ("simple_glyf", d::SIMPLE_GLYF),
        ("cubic_glyf", d::CUBIC_GLYF),
        ("starts_off_curve", d::STARTING_OFF_CURVE),
        ("mostly_off_curve", d::MOSTLY_OFF_CURVE),
        ("interpolate_this", d::INTERPOLATE_THIS),
        ("material_symbols_subset", d::MATERIAL_SYMBOLS_SUBSET),
        ("material_icons_subset", d::MATERIAL_ICONS_SUBSET),
        ("colrv0v1_variable", d::COLRV0V1_VARIABLE),
        ("notoserifhebrew_autohint", d::NOTOSERIFHEBREW_AUTOHINT_METRICS),
        ("autohint_cmap", d::AUTOHINT_CMAP),
        ("notoserif_autohint_shaping", d::NOTOSERIF_AUTOHINT_SHAPING),
        ("notoseriftc_autohint", d::NOTOSERIFTC_AUTOHINT_METRICS),
        ("ahem", d::AHEM),
        ("avar2checker", d::AVAR2_CHECKER),
        ("noto_serif_display_cff", d::NOTO_SERIF_DISPLAY_TRIMMED),
        ("cantarell_vf_cff2", d::CANTARELL_VF_TRIMMED),
        ("notosansjp_vf_cff2", d::ift::CFF2_FONT),
        ("notosansjp_cff", d::ift::CFF_FONT),
        ("hvar_truncated_map", d::HVAR_WITH_TRUNCATED_ADVANCE_INDEX_MAP),
        ("varc_6868", d::varc::CJK_6868),
        ("varc_conditionals", d::varc::CONDITIONALS),
    ];
    let mut out = vec![];
    for (name, data) in list {
        let Ok(font) = FontRef::new(data) else { continue };
        let outlines = font.outline_glyphs();
        let Some(fmt) = outlines.format() else { continue };
        let n = font.maxp().map(|m| m.num_glyphs() as u32).unwrap_or(0);
        let cap = if thorough { 64 } else { 14 };
        let mut gids: Vec<u32> = if n <= cap { (0..n).collect() } else { (0..cap / 2).collect() };
        while (gids.len() as u32) < cap.min(n) {
            let g = rng.below(n as u64) as u32;
            if !gids.contains(&g) {
                gids.push(g);
            }
        }
        gids.retain(|g| outlines.get(GlyphId::new(*g)).is_some());
        out.push(FontInfo {
            name,
            axes: font.axes().len(),
            is_glyf: fmt == skrifa::outline::OutlineGlyphFormat::Glyf,
            styles: GlyphStyles::new(&outlines),
            font,
            outlines,
            gids,
        });
    }
    out
}

// ------------------------------------------------------------------ counts (re-derivation of glyf::Outlines::outline)

#[derive(Clone, Default, Debug)]
struct Counts {
    points: usize,
    contours: usize,
    max_simple_points: usize,
    max_other_points: usize,
    max_component_delta_stack: usize,
    max_stack: usize,
    cvt_count: usize,
    storage_count: usize,
    max_twilight_points: usize,
    has_hinting: bool,
    has_variations: bool,
}

fn counts_rec(font: &FontRef, glyph: &Glyph, c: &mut Counts, component_depth: usize, depth: usize) -> Option<()> {
    if depth > 32 {
        return None;
    }
    let loca = font.loca(None).ok()?;
    let glyf = font.glyf().ok()?;
    match glyph {
        Glyph::Simple(s) => {
            let n = s.num_points();
            c.max_simple_points = c.max_simple_points.max(n + 4);
            c.points += n;
            c.contours += s.end_pts_of_contours().len();
            c.has_hinting |= s.instruction_length() != 0;
            c.max_other_points = c.max_other_points.max(n + 4);
        }
        Glyph::Composite(comp) => {
            let (mut count, ins) = comp.count_and_instructions();
            count += 4;
            let base = c.points;
            for (gid, _flags) in comp.component_glyphs_and_flags() {
                let _ = CompositeGlyphFlags::empty();
                let Some(cg) = loca.get_glyf(gid.into(), &glyf).ok()? else { continue };
                counts_rec(font, &cg, c, component_depth + count, depth + 1)?;
            }
            let has = !ins.unwrap_or_default().is_empty();
            if has {
                c.max_other_points = c.max_other_points.max(c.points - base + 4);
            }
            c.max_component_delta_stack = c.max_component_delta_stack.max(component_depth + count);
            c.has_hinting |= has;
        }
    }
    Some(())
}

fn counts(font: &FontRef, gid: u32) -> Option<Counts> {
    let loca = font.loca(None).ok()?;
    let glyf = font.glyf().ok()?;
    let mut c = Counts { has_variations: font.gvar().is_ok(), ..Default::default() };
    let glyph = loca.get_glyf(GlyphId::new(gid), &glyf).ok()?;
    if let Some(g) = glyph.as_ref() {
        counts_rec(font, g, &mut c, 0, 0)?;
    }
    c.points += 4;
    let maxp = font.maxp().ok()?;
    c.max_stack = maxp.max_stack_elements().unwrap_or_default().saturating_add(32) as usize;
    c.cvt_count = font.cvt().map(|c| c.len()).unwrap_or_default();
    c.storage_count = maxp.max_storage().unwrap_or_default() as usize;
    c.max_twilight_points = maxp.max_twilight_points().unwrap_or_default().saturating_add(4) as usize;
    Some(c)
}

fn ccounts(c: &Counts) -> String {
    format!(
        "{{| c_points := {}; c_contours := {}; c_max_simple_points := {}; c_max_other_points := {}; c_max_component_delta_stack := {}; c_max_stack := {}; c_cvt_count := {}; c_storage_count := {}; c_max_twilight_points := {}; c_has_hinting := {}; c_has_variations := {} |}}",
        c.points, c.contours, c.max_simple_points, c.max_other_points, c.max_component_delta_stack, c.max_stack,
        c.cvt_count, c.storage_count, c.max_twilight_points, cbool(c.has_hinting), cbool(c.has_variations)
    )
}

// ------------------------------------------------------------------ caller memory

/// a buffer of `len` bytes whose start is `off` bytes past an 8-aligned address
struct Scratch {
    v: Vec<u8>,
    start: usize,
    len: usize,
}
impl Scratch {
    fn new(len: usize, off: usize, fill: Option<&mut Rng>) -> Self {
        let mut v = vec![0u8; len + 24];
        if let Some(r) = fill {
            for b in v.iter_mut() {
                *b = r.next_u64() as u8 | 1;
            }
        }
        let base = v.as_ptr() as usize;
        let start = (8 - base % 8) % 8 + off;
        Scratch { v, start, len }
    }
    fn slice(&mut self) -> &mut [u8] {
        &mut self.v[self.start..self.start + self.len]
    }
    fn addr(&self) -> usize {
        self.v.as_ptr() as usize + self.start
    }
}

// ------------------------------------------------------------------ configurations of a hinting instance

#[derive(Clone, Debug)]
struct Cfg {
    font: usize,
    size: Option<f32>,
    coords: Vec<i16>,
    engine: u8, // 0 interpreter, 1 auto, 2 auto-fallback, 3 auto with the font's precomputed GlyphStyles
    target: Target,
}

impl Cfg {
    fn key(&self, fonts: &[FontInfo]) -> String {
        format!("{}|{:?}|{:?}|e{}|{:?}", fonts[self.font].name, self.size, self.coords, self.engine, self.target)
    }
    fn options(&self, fonts: &[FontInfo]) -> HintingOptions {
        HintingOptions {
            engine: match self.engine {
                0 => Engine::Interpreter,
                1 => Engine::Auto(None),
                3 => Engine::Auto(Some(fonts[self.font].styles.clone())),
                _ => Engine::AutoFallback,
            },
            target: self.target,
        }
    }
    fn size(&self) -> Size {
        self.size.map(Size::new).unwrap_or_else(Size::unscaled)
    }
}

fn new_instance(fonts: &[FontInfo], c: &Cfg) -> Result<HintingInstance, String> {
    let co = coords_of(&c.coords);
    let f = &fonts[c.font];
    match catch(std::panic::AssertUnwindSafe(|| HintingInstance::new(&f.outlines, c.size(), LocationRef::new(&co), c.options(fonts)))) {
        Err(p) => Err(format!("PANIC: {p}")),
        Ok(Err(e)) => Err(format!("{e:?}")),
        Ok(Ok(i)) => Ok(i),
    }
}

fn reconfigure(fonts: &[FontInfo], inst: &mut HintingInstance, c: &Cfg) -> Result<(), String> {
    let co = coords_of(&c.coords);
    let f = &fonts[c.font];
    match catch(std::panic::AssertUnwindSafe(|| inst.reconfigure(&f.outlines, c.size(), LocationRef::new(&co), c.options(fonts)))) {
        Err(p) => Err(format!("PANIC: {p}")),
        Ok(Err(e)) => Err(format!("{e:?}")),
        Ok(Ok(())) => Ok(()),
    }
}

fn targets() -> Vec<Target> {
    vec![
        Target::default(),
        Target::Mono,
        Target::Smooth { mode: SmoothMode::Light, symmetric_rendering: true, preserve_linear_metrics: false },
        Target::Smooth { mode: SmoothMode::Lcd, symmetric_rendering: false, preserve_linear_metrics: false },
        Target::Smooth { mode: SmoothMode::VerticalLcd, symmetric_rendering: true, preserve_linear_metrics: true },
    ]
}

fn rand_coords(rng: &mut Rng, axes: usize) -> Vec<i16> {
    (0..axes)
        .map(|_| match rng.below(5) {
            0 => 0,
            1 => 16384,
            2 => -16384,
            _ => rng.range(-16384, 16384) as i16,
        })
        .collect()
}

/// draws of a glyph sample through an instance (no caller memory)
fn draw_sample(f: &FontInfo, inst: &HintingInstance, gids: &[u32]) -> Vec<Outcome> {
    gids.iter().map(|g| draw_hinted(&f.outlines.get(GlyphId::new(*g)).unwrap(), inst, false, None)).collect()
}

fn check_wf(st: &mut Stats, what: &str, key: &str, o: &Outcome) {
    if let Ok((cmds, _)) = o {
        st.evaluations += 1;
        st.count("wf_checked_streams");
        if !cmds.is_empty() {
            st.count("wf_nonempty_streams");
        }
        if let Err(why) = well_formed(cmds) {
            st.oracle_failure(json!({"key": format!("wf|{what}|{key}"), "what": "successful draw emitted a malformed stream", "why": why}));
        }
    } else if let Err(e) = o {
        if e.starts_with("PANIC") {
            st.oracle_failure(json!({"key": format!("panic|{what}|{key}"), "what": "draw panicked", "why": e}));
        }
    }
}

fn short(o: &Outcome) -> String {
    match o {
        Ok((c, m)) => format!("Ok({} cmds, {:?}, first {:?})", c.len(), m, c.first()),
        Err(e) => format!("Err({e})"),
    }
}

fn first_diff(a: &Outcome, b: &Outcome) -> String {
    match (a, b) {
        (Ok((ca, ma)), Ok((cb, mb))) => {
            if ma != mb {
                return format!("metrics {ma:?} vs {mb:?}");
            }
            for (i, (x, y)) in ca.iter().zip(cb.iter()).enumerate() {
                if x != y {
                    return format!("cmd {i}: {x:?} vs {y:?}");
                }
            }
            format!("lengths {} vs {}", ca.len(), cb.len())
        }
        _ => format!("{} vs {}", short(a), short(b)),
    }
}

fn main() {
    silence_panics();
    let args: Vec<String> = std::env::args().collect();
    let thorough = tier_is_thorough(&args);
    let seed = seed_from_env();
    let dir = out_dir(&args, "C12");
    let mut rng = Rng::new(seed);
    let mut st = Stats::new();
    let mut cw = CaseWriter::new(
        &dir,
        "From Coq Require Import ZArith List String. Import ListNotations. Open Scope string_scope. Open Scope Z_scope.\nFrom FV Require Import Lib.Cases C12.Carve C12.Model.",
        "case",
        "check_case",
        700,
    );
    let fonts = fonts(&mut rng, thorough);
    st.v.insert("fonts".into(), json!(fonts.iter().map(|f| format!("{}:{}:{}axes:{}glyphs", f.name, if f.is_glyf { "glyf" } else { "cff" }, f.axes, f.gids.len())).collect::<Vec<_>>()));

    // ---------------- KTypes
    {
        use std::mem::{align_of as al, size_of as sz};
        let rows: Vec<(&str, usize, usize)> = vec![
            ("Point<F26Dot6>", sz::<Point<F26Dot6>>(), al::<Point<F26Dot6>>()),
            ("Point<Fixed>", sz::<Point<Fixed>>(), al::<Point<Fixed>>()),
            ("Point<i32>", sz::<Point<i32>>(), al::<Point<i32>>()),
            ("Point<f32>", sz::<Point<f32>>(), al::<Point<f32>>()),
            ("Point<f64>", sz::<Point<f64>>(), al::<Point<f64>>()),
            ("Point<i64>", sz::<Point<i64>>(), al::<Point<i64>>()),
            ("Point<i16>", sz::<Point<i16>>(), al::<Point<i16>>()),
            ("PointFlags", sz::<PointFlags>(), al::<PointFlags>()),
            ("u8", 1, 1),
            ("i8", 1, 1),
            ("u16", sz::<u16>(), al::<u16>()),
            ("i16", sz::<i16>(), al::<i16>()),
            ("u32", sz::<u32>(), al::<u32>()),
            ("i32", sz::<i32>(), al::<i32>()),
            ("f32", sz::<f32>(), al::<f32>()),
            ("F26Dot6", sz::<F26Dot6>(), al::<F26Dot6>()),
            ("Fixed", sz::<Fixed>(), al::<Fixed>()),
            ("F2Dot14", sz::<F2Dot14>(), al::<F2Dot14>()),
            ("u64", sz::<u64>(), al::<u64>()),
            ("i64", sz::<i64>(), al::<i64>()),
            ("f64", sz::<f64>(), al::<f64>()),
            ("usize", sz::<usize>(), al::<usize>()),
            ("isize", sz::<isize>(), al::<isize>()),
        ];
        cw.push(format!("KTypes {}", clist(rows.iter(), |(n, s, a)| format!("(\"{n}\", ({s}, {a}))"))));
        st.count("case_types");
    }

    // ---------------- KCoords + T2 (zero location == no location)
    {
        let f = fonts.iter().find(|f| f.name == "tinos_subset").unwrap_or(&fonts[0]);
        let mut vecs: Vec<Vec<i16>> = vec![vec![], vec![0], vec![0, 0], vec![0; 5], vec![0; 9], vec![1], vec![0, 1], vec![0, 0, -1], vec![-16384, 0], vec![0, 0, 0, 0, 0, 0, 0, 0, 1]];
        for _ in 0..(if thorough { 200 } else { 40 }) {
            let n = rng.below(6) as usize;
            vecs.push((0..n).map(|_| if rng.chance(2, 3) { 0 } else { rng.range(-16384, 16384) as i16 }).collect());
        }
        for v in vecs {
            let co = coords_of(&v);
            let inst = HintingInstance::new(&f.outlines, Size::new(12.0), LocationRef::new(&co), HintingOptions::default());
            if let Ok(inst) = inst {
                let eff: Vec<i16> = inst.location().coords().iter().map(|c| c.to_bits()).collect();
                st.evaluations += 1;
                st.count(if eff.is_empty() { "case_coords_empty" } else { "case_coords_kept" });
                // oracle: all-zero <=> dropped; otherwise kept verbatim
                let all_zero = v.iter().all(|x| *x == 0);
                if (all_zero && !eff.is_empty()) || (!all_zero && eff != v) {
                    st.oracle_failure(json!({"key": format!("coords|{v:?}"), "what": "effective coords differ from `drop all-zero, keep otherwise`", "got": format!("{eff:?}")}));
                }
                cw.push(format!("KCoords {} {}", czlist(v.iter().map(|x| *x as i128)), czlist(eff.iter().map(|x| *x as i128))));
            }
        }
    }

    // ---------------- fixed corpus: inputs of defects this check found in /repo (fixed since; must pass)
    // F-C12-1: HarfBuzzScaler::load_composite read composite_deltas that were never written (variable
    // font at the default location), so dirty caller memory leaked into component offsets.
    if let Some(f) = fonts.iter().find(|f| f.name == "vazirmatn_var") {
        if let Some(g) = f.outlines.get(GlyphId::new(2)) {
            for size in [None, Some(10.0f32), Some(16.0), Some(33.5)] {
                let sz = size.map(Size::new).unwrap_or_else(Size::unscaled);
                let reference = draw_unhinted(&g, sz, &[], Style::Hb, None);
                let need = g.draw_memory_size(Hinting::None);
                for off in 0..8usize {
                    for fill in [0xFFu8, 0xA5, 0x01] {
                        let mut s = Scratch::new(need, off, None);
                        s.v.iter_mut().for_each(|b| *b = fill);
                        let o = draw_unhinted(&g, sz, &[], Style::Hb, Some(s.slice()));
                        st.evaluations += 1;
                        st.count("fixed_corpus_draws");
                        if o != reference {
                            st.oracle_failure(json!({"key": "mem|vazirmatn_var|g2|[]|Hb|garbage", "what": "caller memory of the advertised size draws differently from library memory", "config": format!("fixed corpus F-C12-1 size {size:?} fill {fill:#x}"), "offset": off, "size": need, "diff": first_diff(&reference, &o)}));
                        }
                    }
                }
            }
        }
    }

    let sizes: Vec<Option<f32>> = if thorough { vec![None, Some(7.0), Some(10.0), Some(12.0), Some(16.0), Some(17.5), Some(33.5), Some(100.0)] } else { vec![None, Some(10.0), Some(16.0), Some(33.5)] };
    let tgts = targets();

    // ---------------- T1 / T2 / KSize / KCarve per font
    for (fi, f) in fonts.iter().enumerate() {
        let zero_lens: Vec<usize> = vec![f.axes, f.axes + 2, 1];
        let mut locs: Vec<Vec<i16>> = vec![vec![]];
        if f.axes > 0 {
            locs.push(rand_coords(&mut rng, f.axes));
            locs.push(vec![16384; f.axes]);
            if thorough {
                locs.push(rand_coords(&mut rng, f.axes));
                locs.push(vec![-16384; f.axes]);
            }
        }
        // hinting instances used for T1 on this font: (cfg, instance)
        let mut insts: Vec<(Cfg, HintingInstance)> = vec![];
        for (k, loc) in locs.iter().enumerate() {
            for (e, t) in [(0u8, tgts[0]), (0, tgts[1]), (1, tgts[0]), (2, tgts[2]), (0, tgts[4])] {
                if !thorough && k > 0 && (e, t) != (0, tgts[0]) && (e, t) != (1, tgts[0]) {
                    continue;
                }
                let size = sizes[1 + (k + e as usize) % (sizes.len() - 1)];
                let c = Cfg { font: fi, size, coords: loc.clone(), engine: e, target: t };
                if let Ok(i) = new_instance(&fonts, &c) {
                    insts.push((c, i));
                }
            }
        }
        for (gi, gid) in f.gids.iter().enumerate() {
            let g = f.outlines.get(GlyphId::new(*gid)).unwrap();
            let cnt = if f.is_glyf { counts(&f.font, *gid) } else { None };
            if let Some(c) = &cnt {
                for h in [false, true] {
                    let sz = g.draw_memory_size(if h { Hinting::Embedded } else { Hinting::None });
                    cw.push(format!("KSize {} {} {}", ccounts(c), cbool(h), sz));
                    st.count("case_size");
                    st.evaluations += 1;
                }
            }
            // --- unhinted: T1 + T2
            for (si, size) in sizes.iter().enumerate() {
                for (li, loc) in locs.iter().enumerate() {
                    if !thorough && (si + li + gi) % 2 == 1 && !(si == 1 && li == 0) {
                        continue;
                    }
                    let co = coords_of(loc);
                    let sz = size.map(Size::new).unwrap_or_else(Size::unscaled);
                    for style in [Style::Ft, Style::Hb] {
                        let key = format!("{}|g{}|{:?}|{:?}|{:?}", f.name, gid, size, loc, style);
                        let reference = draw_unhinted(&g, sz, &co, style, None);
                        check_wf(&mut st, "unhinted", &key, &reference);
                        st.count(if reference.is_ok() { "ref_unhinted_ok" } else { "ref_unhinted_err" });
                        if let Ok((c, _)) = &reference {
                            if c.len() > 2 {
                                st.nontrivial(&key);
                            }
                        }
                        // T2: all-zero location of several lengths
                        if li == 0 {
                            for zl in &zero_lens {
                                let z = vec![F2Dot14::ZERO; *zl];
                                let o = draw_unhinted(&g, sz, &z, style, None);
                                st.evaluations += 1;
                                st.count("t2_zero_location_draws");
                                if o != reference {
                                    st.oracle_failure(json!({"key": format!("zero-loc|{key}|len{zl}"), "what": "all-zero location draws differently from no location", "diff": first_diff(&reference, &o)}));
                                }
                            }
                        }
                        // T1: caller memory, exactly the advertised size, 8 alignments, zero and garbage
                        let need = g.draw_memory_size(Hinting::None);
                        for off in 0..8usize {
                            for garbage in [false, true] {
                                // garbage-filled caller memory always; zero-filled on a subsample in the quick tier
                                if !thorough && !garbage && off % 4 != gi % 4 {
                                    continue;
                                }
                                let mut s = Scratch::new(need, off, if garbage { Some(&mut rng) } else { None });
                                let o = draw_unhinted(&g, sz, &co, style, Some(s.slice()));
                                st.evaluations += 1;
                                st.count(if garbage { "t1_unhinted_garbage_mem" } else { "t1_unhinted_zero_mem" });
                                if o != reference {
                                    st.oracle_failure(json!({"key": format!("mem|{}|g{}|{:?}|{:?}|{}", f.name, gid, loc, style, if garbage { "garbage" } else { "zero" }), "what": "caller memory of the advertised size draws differently from library memory", "config": key, "offset": off, "size": need, "diff": first_diff(&reference, &o)}));
                                }
                            }
                        }
                    }
                }
            }
            // --- hinted: T1 + T4-style freshness is covered below
            for (c, inst) in &insts {
                let key = format!("{}|g{}", c.key(&fonts), gid);
                let reference = draw_hinted(&g, inst, false, None);
                check_wf(&mut st, "hinted", &key, &reference);
                st.count(if reference.is_ok() { "ref_hinted_ok" } else { "ref_hinted_err" });
                if let Ok((cm, _)) = &reference {
                    if cm.len() > 2 {
                        st.nontrivial(&key);
                    }
                }
                let need = g.draw_memory_size(Hinting::Embedded);
                for off in 0..8usize {
                    for garbage in [false, true] {
                        if !thorough && !garbage && (off + gi) % 2 == 1 {
                            continue;
                        }
                        let mut s = Scratch::new(need, off, if garbage { Some(&mut rng) } else { None });
                        let o = draw_hinted(&g, inst, false, Some(s.slice()));
                        st.evaluations += 1;
                        st.count(if garbage { "t1_hinted_garbage_mem" } else { "t1_hinted_zero_mem" });
                        if o != reference {
                            st.oracle_failure(json!({"key": format!("mem-hinted|{key}|{}", if garbage { "garbage" } else { "zero" }), "what": "caller memory of the advertised size draws differently from library memory (hinted)", "offset": off, "size": need, "diff": first_diff(&reference, &o)}));
                        }
                    }
                }
                // pedantic flag must not matter for a draw that succeeds pedantically
                let ped = draw_hinted(&g, inst, true, None);
                if ped.is_ok() && ped != reference {
                    st.oracle_failure(json!({"key": format!("pedantic|{key}"), "what": "pedantic draw succeeded with a different result", "diff": first_diff(&reference, &ped)}));
                }
            }
            // --- KCarve: real success/failure around the required size
            if let Some(c) = &cnt {
                if gi < (if thorough { 24 } else { 8 }) {
                    // an enabled interpreter instance, if the font has one
                    let hinted_inst = insts.iter().find(|(c, i)| c.engine == 0 && c.size.is_some() && i.is_enabled() && f.font.data_for_tag(read_fonts::types::Tag::new(b"fpgm")).is_some()).map(|(_, i)| i);
                    for which in 0..3u8 {
                        // 0: FreeType unhinted, 1: HarfBuzz unhinted, 2: FreeType hinted
                        let (hint_req, need) = match which {
                            2 => (true, g.draw_memory_size(Hinting::Embedded)),
                            _ => (false, g.draw_memory_size(Hinting::None)),
                        };
                        if which == 2 && hinted_inst.is_none() {
                            continue;
                        }
                        let mut ns: Vec<usize> = vec![0, 1, need / 2];
                        for k in 0..=10usize {
                            ns.push((need + 1).saturating_sub(k));
                        }
                        ns.sort();
                        ns.dedup();
                        for n in ns {
                            for off in [0usize, 1, 2, 3, 5, 6] {
                                if !thorough && (n + off + gi) % 2 == 1 && n + 6 < need {
                                    continue;
                                }
                                let mut s = Scratch::new(n, off, Some(&mut rng));
                                let addr = s.addr();
                                let o = match which {
                                    0 => draw_unhinted(&g, Size::new(16.0), &[], Style::Ft, Some(s.slice())),
                                    1 => draw_unhinted(&g, Size::new(16.0), &[], Style::Hb, Some(s.slice())),
                                    _ => draw_hinted(&g, hinted_inst.unwrap(), false, Some(s.slice())),
                                };
                                st.evaluations += 1;
                                let ok = match &o {
                                    Ok(_) => true,
                                    Err(e) if e == "InsufficientMemory" => false,
                                    Err(e) => {
                                        st.count("carve_other_error");
                                        if e.starts_with("PANIC") {
                                            st.oracle_failure(json!({"key": format!("carve-panic|{}|g{}|w{}|n{}|o{}", f.name, gid, which, n, off), "what": "draw with a short buffer panicked", "why": e}));
                                        }
                                        continue;
                                    }
                                };
                                st.count(if ok { "case_carve_ok" } else { "case_carve_short" });
                                // oracle: the advertised size always suffices
                                if n >= need && !ok {
                                    st.oracle_failure(json!({"key": format!("carve-advertised|{}|g{}|w{}|o{}", f.name, gid, which, off), "what": "draw_memory_size bytes were reported insufficient", "n": n, "need": need}));
                                }
                                cw.push(format!("KCarve {} {} {} {} {} {}", if which == 1 { 1 } else { 0 }, ccounts(c), cbool(hint_req), addr, n, cbool(ok)));
                            }
                        }
                    }
                }
            }
            // --- KPath: unscaled simple glyphs of static fonts
            if f.is_glyf && f.axes == 0 {
                let loca = f.font.loca(None).unwrap();
                let glyf = f.font.glyf().unwrap();
                if let Ok(Some(Glyph::Simple(sg))) = loca.get_glyf(GlyphId::new(*gid), &glyf) {
                    let n = sg.num_points();
                    if n > 0 && n <= 80 {
                        let mut pts = vec![Point::<i32>::default(); n];
                        let mut fl = vec![PointFlags::default(); n];
                        if sg.read_points_fast(&mut pts, &mut fl).is_ok() {
                            let ends: Vec<i128> = sg.end_pts_of_contours().iter().map(|e| e.get() as i128).collect();
                            for style in [Style::Ft, Style::Hb] {
                                let o = draw_unhinted(&g, Size::unscaled(), &[], style, None);
                                if let Ok((cmds, (_, Some(lsb), _))) = &o {
                                    let shift = (f32::from_bits(*lsb) * 64.0) as i64;
                                    let enc = |v: &[u32]| czlist(v.iter().map(|b| (f32::from_bits(*b) as f64 * 64.0) as i128));
                                    let cs = clist(cmds.iter(), |c| match c {
                                        Cmd::M(v) => format!("(0, {})", enc(v)),
                                        Cmd::L(v) => format!("(1, {})", enc(v)),
                                        Cmd::Q(v) => format!("(2, {})", enc(v)),
                                        Cmd::C(v) => format!("(3, {})", enc(v)),
                                        Cmd::Z => "(4, [])".to_string(),
                                    });
                                    let ps = clist(pts.iter().zip(fl.iter()), |(p, fl)| format!("({}, {}, {})", cz((p.x as i64 * 64 - shift) as i128), cz(p.y as i128 * 64), fl.to_bits() & 0x81));
                                    cw.push(format!("KPath {} {} {} {}", if style == Style::Ft { 0 } else { 1 }, ps, czlist(ends.iter().cloned()), cs));
                                    st.count("case_path");
                                    st.evaluations += 1;
                                }
                            }
                        }
                    }
                }
            }
        }
    }

    // ---------------- T3: instance reuse over every sequence of reconfigurations from a pool
    let pool: Vec<Cfg> = {
        let find = |n: &str| fonts.iter().position(|f| f.name == n);
        let mut p = vec![];
        let mut add = |name: &str, size: Option<f32>, coords: Vec<i16>, engine: u8, target: Target| {
            if let Some(fi) = find(name) {
                p.push(Cfg { font: fi, size, coords, engine, target });
            }
        };
        let ax = |n: &str| fonts.iter().find(|f| f.name == n).map(|f| f.axes).unwrap_or(0);
        add("synth_a", Some(16.0), vec![], 0, tgts[1]);
        add("synth_b", Some(16.0), vec![], 0, tgts[1]);
        add("tinos_subset", Some(16.0), vec![], 0, tgts[0]);
        add("tinos_subset", Some(9.0), vec![], 0, tgts[1]);
        add("tthint_subset", Some(24.0), vec![], 0, tgts[3]);
        add("cvar", Some(16.0), rand_coords(&mut rng, ax("cvar").max(1)), 0, tgts[0]);
        add("cvar", Some(12.0), vec![0; ax("cvar")], 0, tgts[4]);
        add("vazirmatn_var", Some(20.0), vec![16384; ax("vazirmatn_var")], 0, tgts[0]);
        add("vazirmatn_var", Some(13.0), rand_coords(&mut rng, ax("vazirmatn_var")), 1, tgts[2]);
        add("noto_serif_display_cff", Some(18.0), vec![], 0, tgts[0]);
        add("cantarell_vf_cff2", Some(11.0), rand_coords(&mut rng, ax("cantarell_vf_cff2").max(1)), 2, tgts[0]);
        add("notoserifhebrew_autohint", Some(16.0), vec![], 1, tgts[0]);
        if thorough {
            add("tinos_subset", None, vec![], 0, tgts[0]);
            add("material_icons_subset", Some(32.0), vec![], 2, tgts[1]);
        }
        p
    };
    st.v.insert("t3_pool".into(), json!(pool.iter().map(|c| c.key(&fonts)).collect::<Vec<_>>()));
    // reference: fresh instance per pool entry
    let sample = |c: &Cfg| -> Vec<u32> { fonts[c.font].gids.iter().cloned().take(if thorough { 10 } else { 5 }).collect() };
    let fresh: Vec<Result<Vec<Outcome>, String>> = pool
        .iter()
        .map(|c| new_instance(&fonts, c).map(|i| draw_sample(&fonts[c.font], &i, &sample(c))))
        .collect();
    for (c, r) in pool.iter().zip(fresh.iter()) {
        st.count(if r.is_ok() { "t3_pool_fresh_ok" } else { "t3_pool_fresh_err" });
        if let Ok(os) = r {
            for (g, o) in sample(c).iter().zip(os.iter()) {
                check_wf(&mut st, "pool", &format!("{}|g{}", c.key(&fonts), g), o);
            }
        }
    }
    // self-check of the synthetic fonts: A's prep/IDEF must visibly move point 0 (otherwise the reuse
    // test could not notice stale storage / stale instruction definitions)
    {
        let out = |name: &str, k: usize| -> Option<String> {
            let i = pool.iter().position(|c| fonts[c.font].name == name)?;
            fresh[i].as_ref().ok().and_then(|v| v.get(k)).map(short)
        };
        let eff_storage = out("synth_a", 1).is_some() && out("synth_a", 1) != out("synth_b", 1);
        let eff_idef = out("synth_a", 2).is_some() && out("synth_a", 2) != out("synth_b", 2);
        st.v.insert("synth_probe".into(), json!({"a_g1": out("synth_a", 1), "b_g1": out("synth_b", 1), "a_g2": out("synth_a", 2), "b_g2": out("synth_b", 2),
            "storage_program_effective": eff_storage, "idef_program_effective": eff_idef}));
        st.count(if eff_storage && eff_idef { "synth_fonts_effective" } else { "synth_fonts_INEFFECTIVE" });
    }
    let max_len = if thorough { 4 } else { 3 };
    {
        // enumerate all sequences of length 1..=max_len; the instance is built by `new` on the first
        // element and reconfigured along the rest; after every step compare with the fresh reference
        let p = pool.len();
        let mut seq: Vec<usize> = vec![];
        fn rec(seq: &mut Vec<usize>, depth: usize, max_len: usize, p: usize, run: &mut dyn FnMut(&[usize])) {
            if depth == max_len {
                run(seq);
                return;
            }
            for i in 0..p {
                seq.push(i);
                rec(seq, depth + 1, max_len, p, run);
                seq.pop();
            }
        }
        let mut run = |s: &[usize]| {
            // walk the sequence; (prefixes are compared too, so shorter sequences are covered)
            let mut inst: Option<HintingInstance> = None;
            for (k, ix) in s.iter().enumerate() {
                let c = &pool[*ix];
                let r = match inst.as_mut() {
                    None => match new_instance(&fonts, c) {
                        Ok(i) => {
                            inst = Some(i);
                            Ok(())
                        }
                        Err(e) => Err(e),
                    },
                    Some(i) => reconfigure(&fonts, i, c),
                };
                // only the last step of each full sequence is new information (prefixes are revisited by
                // other sequences), but checking all steps is cheap enough only at the last two
                if k + 2 < s.len() {
                    if r.is_err() && inst.is_none() {
                        return;
                    }
                    continue;
                }
                st.evaluations += 1;
                st.count(&format!("t3_steps_len{}", k + 1));
                let key = format!("reuse|{}|after[{}]", c.key(&fonts), s[..k].iter().map(|i| i.to_string()).collect::<Vec<_>>().join(","));
                match (&fresh[*ix], &r) {
                    (Err(_), Err(_)) => {}
                    (Ok(exp), Ok(())) => {
                        let i = inst.as_ref().unwrap();
                        let got = draw_sample(&fonts[c.font], i, &sample(c));
                        if &got != exp {
                            let j = got.iter().zip(exp.iter()).position(|(a, b)| a != b).unwrap_or(0);
                            st.oracle_failure(json!({"key": key, "what": "reused HintingInstance draws differently from a fresh one", "history": s[..k].iter().map(|i| pool[*i].key(&fonts)).collect::<Vec<_>>(), "glyph": sample(c)[j], "diff": first_diff(&exp[j], &got[j])}));
                        }
                        // the accessors must agree as well
                        let fr = new_instance(&fonts, c).unwrap();
                        if fr.is_enabled() != i.is_enabled() || fr.size() != i.size() || fr.target() != i.target() || fr.location().coords() != i.location().coords() {
                            st.oracle_failure(json!({"key": format!("{key}|accessors"), "what": "reused HintingInstance reports different size/target/location/is_enabled"}));
                        }
                    }
                    (a, b) => {
                        st.oracle_failure(json!({"key": key, "what": "reconfigure and new disagree on success", "fresh": format!("{:?}", a.as_ref().map(|_| ())), "reused": format!("{b:?}")}));
                    }
                }
                if inst.is_none() {
                    return;
                }
            }
        };
        rec(&mut seq, 0, max_len, p, &mut run);
        // plus the shorter sequences' last steps (length 1 .. max_len-2)
        for l in 1..max_len.saturating_sub(1) {
            rec(&mut seq, 0, l, p, &mut run);
        }
    }

    // ---------------- T4: shuffled orders, dirty scratch buffer; T5: 16 threads through shared instances
    for c in pool.iter().chain(std::iter::once(&Cfg { font: 0, size: Some(14.0), coords: vec![], engine: 1, target: tgts[0] })) {
        let f = &fonts[c.font];
        let gids: Vec<u32> = f.gids.clone();
        // reference: one fresh instance per glyph
        let reference: HashMap<u32, Outcome> = gids
            .iter()
            .filter_map(|g| new_instance(&fonts, c).ok().map(|i| (*g, draw_hinted(&f.outlines.get(GlyphId::new(*g)).unwrap(), &i, false, None))))
            .collect();
        let Ok(shared) = new_instance(&fonts, c) else { continue };
        let maxneed = gids.iter().map(|g| f.outlines.get(GlyphId::new(*g)).unwrap().draw_memory_size(Hinting::Embedded)).max().unwrap_or(0);
        let mut dirty = Scratch::new(maxneed, 3, Some(&mut rng));
        for round in 0..(if thorough { 6 } else { 3 }) {
            let mut order = gids.clone();
            rng.shuffle(&mut order);
            for g in &order {
                let og = f.outlines.get(GlyphId::new(*g)).unwrap();
                let need = og.draw_memory_size(Hinting::Embedded);
                let o = if round % 2 == 0 { draw_hinted(&og, &shared, false, None) } else { draw_hinted(&og, &shared, false, Some(&mut dirty.slice()[..need])) };
                st.evaluations += 1;
                st.count("t4_shuffled_draws");
                if Some(&o) != reference.get(g) {
                    st.oracle_failure(json!({"key": format!("order|{}|g{}", c.key(&fonts), g), "what": "draw through a shared instance depends on the glyphs drawn before (or on dirty scratch memory)", "round": round, "diff": first_diff(reference.get(g).unwrap(), &o)}));
                }
            }
        }
        // T5
        let orders: Vec<Vec<u32>> = (0..16)
            .map(|_| {
                let mut o = gids.clone();
                rng.shuffle(&mut o);
                o
            })
            .collect();
        let results: Vec<Vec<(u32, Outcome)>> = std::thread::scope(|s| {
            let hs: Vec<_> = orders
                .iter()
                .map(|order| {
                    let shared = &shared;
                    let f = &f;
                    s.spawn(move || {
                        let mut out = vec![];
                        for _ in 0..2 {
                            for g in order {
                                let og = f.outlines.get(GlyphId::new(*g)).unwrap();
                                out.push((*g, draw_hinted(&og, shared, false, None)));
                            }
                        }
                        out
                    })
                })
                .collect();
            hs.into_iter().map(|h| h.join().unwrap_or_default()).collect()
        });
        for (t, r) in results.iter().enumerate() {
            if r.len() != 2 * gids.len() {
                st.oracle_failure(json!({"key": format!("threads|{}|died", c.key(&fonts)), "what": "a drawing thread died", "thread": t}));
            }
            for (g, o) in r {
                st.evaluations += 1;
                st.count("t5_threaded_draws");
                if Some(o) != reference.get(g) {
                    st.oracle_failure(json!({"key": format!("threads|{}|g{}", c.key(&fonts), g), "what": "concurrent draw through a shared instance differs from a fresh single-threaded draw", "thread": t, "diff": first_diff(reference.get(g).unwrap(), o)}));
                }
            }
        }
    }
    // ---------------- T6: cold start under contention. State that an instance initialises lazily on first use
    // (the autohinter's per-style metrics cache behind an RwLock, shared by clones through an Arc) is only
    // vulnerable while it is still empty, so every round builds a BRAND NEW instance, releases N threads from a
    // Barrier and lets their FIRST draws overlap; half of the threads walk the glyphs in the same order (same
    // style at the same time), the others in rotated orders; odd rounds draw through per-thread CLONES of the
    // fresh instance. Every result is compared with a single-threaded reference drawn through another fresh
    // instance. All fonts x {Auto, AutoFallback} plus the whole reuse pool.
    {
        let mut cfgs: Vec<Cfg> = pool.clone();
        for (fi, f) in fonts.iter().enumerate() {
            for engine in [1u8, 2] {
                cfgs.push(Cfg { font: fi, size: Some(16.0), coords: vec![], engine, target: tgts[0] });
            }
            if f.axes > 0 {
                cfgs.push(Cfg { font: fi, size: Some(13.0), coords: rand_coords(&mut rng, f.axes), engine: 1, target: tgts[2] });
            }
        }
        let mut seen = std::collections::BTreeSet::new();
        cfgs.retain(|c| seen.insert(c.key(&fonts)));
        let n_threads = 16usize;
        let rounds = if thorough { 8 } else { 4 };
        for c in &cfgs {
            let f = &fonts[c.font];
            let gids: Vec<u32> = f.gids.clone();
            if gids.is_empty() {
                continue;
            }
            let Ok(ref_inst) = new_instance(&fonts, c) else { continue };
            let reference: Vec<Outcome> = draw_sample(f, &ref_inst, &gids);
            for round in 0..rounds {
                let Ok(shared) = new_instance(&fonts, c) else { break };
                let clones: Vec<HintingInstance> = if round % 2 == 1 { (0..n_threads).map(|_| shared.clone()).collect() } else { vec![] };
                let barrier = std::sync::Barrier::new(n_threads);
                let results: Vec<Vec<(usize, Outcome)>> = std::thread::scope(|s| {
                    let hs: Vec<_> = (0..n_threads)
                        .map(|t| {
                            let inst: &HintingInstance = if clones.is_empty() { &shared } else { &clones[t] };
                            let (f, gids, barrier) = (&f, &gids, &barrier);
                            s.spawn(move || {
                                let rot = if t % 2 == 0 { 0 } else { (t + round) % gids.len() };
                                barrier.wait();
                                (0..gids.len())
                                    .map(|i| {
                                        let k = (i + rot) % gids.len();
                                        (k, draw_hinted(&f.outlines.get(GlyphId::new(gids[k])).unwrap(), inst, false, None))
                                    })
                                    .collect()
                            })
                        })
                        .collect();
                    hs.into_iter().map(|h| h.join().unwrap_or_default()).collect()
                });
                for (t, r) in results.iter().enumerate() {
                    if r.len() != gids.len() {
                        st.oracle_failure(json!({"key": format!("cold-threads|{}|died", c.key(&fonts)), "what": "a drawing thread died", "thread": t}));
                    }
                    for (k, o) in r {
                        st.evaluations += 1;
                        st.count(if clones.is_empty() { "t6_cold_threaded_draws_shared" } else { "t6_cold_threaded_draws_clones" });
                        if o != &reference[*k] {
                            st.oracle_failure(json!({"key": format!("cold-threads|{}|g{}", c.key(&fonts), gids[*k]), "what": "first concurrent draws through a fresh shared instance differ from the single-threaded result", "round": round, "thread": t, "through_clone": !clones.is_empty(), "diff": first_diff(&reference[*k], o)}));
                        }
                    }
                }
            }
        }
        st.v.insert("t6_configs".into(), cfgs.len().into());
    }
    // ---------------- T7: reuse WITH DRAWS BETWEEN reconfigures, same font, every engine. State that is filled
    // lazily by draws (the autohinter's per-style metrics cache, valid for one (font, location) only) exists only
    // after first use, so an instance is walked through a chain of configurations of ONE font (locations: none,
    // zero, every corner, random; sizes; targets), drawing the whole glyph sample after every step and comparing
    // with a fresh instance of that configuration. Clones share such state through an Arc: a clone is reconfigured
    // to another configuration and both are drawn interleaved, then the original is reconfigured as well.
    {
        let sizes7 = [Some(16.0f32), Some(11.0), None, Some(24.0)];
        let mut n_cfg = 0usize;
        for (fi, f) in fonts.iter().enumerate() {
            if f.gids.is_empty() {
                continue;
            }
            let mut locs: Vec<Vec<i16>> = vec![vec![]];
            if f.axes > 0 {
                locs.push(vec![16384; f.axes]);
                locs.push(vec![-16384; f.axes]);
                locs.push(vec![0; f.axes]);
                locs.push((0..f.axes).map(|i| if i % 2 == 0 { 8192 } else { -8192 }).collect());
                locs.push(rand_coords(&mut rng, f.axes));
                if thorough {
                    locs.push(rand_coords(&mut rng, f.axes));
                    locs.push((0..f.axes).map(|i| if i == 0 { 16384 } else { 0 }).collect());
                }
            }
            for engine in [0u8, 1, 2, 3] {
                // the chain: every location, then the first location again with another size/target
                let mut chain: Vec<Cfg> = locs
                    .iter()
                    .enumerate()
                    .map(|(k, l)| Cfg { font: fi, size: sizes7[if f.axes > 0 { 0 } else { k % 4 }], coords: l.clone(), engine, target: tgts[0] })
                    .collect();
                chain.push(Cfg { font: fi, size: sizes7[1], coords: locs[0].clone(), engine, target: tgts[2] });
                chain.push(Cfg { font: fi, size: sizes7[0], coords: locs[locs.len() - 1].clone(), engine, target: tgts[1] });
                n_cfg += chain.len();
                let fresh: Vec<Result<Vec<Outcome>, String>> = chain.iter().map(|c| new_instance(&fonts, c).map(|i| draw_sample(f, &i, &f.gids))).collect();
                let mut compare = |st: &mut Stats, what: &str, cur: usize, hist: &str, got: &[Outcome]| {
                    if let Ok(exp) = &fresh[cur] {
                        st.evaluations += got.len() as u64;
                        st.add("t7_draws_compared", got.len() as u64);
                        if let Some(j) = got.iter().zip(exp.iter()).position(|(a, b)| a != b) {
                            st.oracle_failure(json!({"key": format!("{what}|{}|after {hist}|g{}", chain[cur].key(&fonts), f.gids[j]), "what": "instance reconfigured after draws (or sharing state with a differently configured clone) draws differently from a fresh instance", "diff": first_diff(&exp[j], &got[j])}));
                        }
                    }
                };
                // (a) walks in two orders
                for walk in 0..2 {
                    let mut order: Vec<usize> = (0..chain.len()).collect();
                    if walk == 1 {
                        order.reverse();
                        let k = order.len() / 2;
                        order.swap(0, k);
                    }
                    let mut inst: Option<HintingInstance> = None;
                    let mut prev = String::from("new");
                    for &ci in &order {
                        let c = &chain[ci];
                        let r = match inst.as_mut() {
                            None => new_instance(&fonts, c).map(|i| {
                                inst = Some(i);
                            }),
                            Some(i) => reconfigure(&fonts, i, c),
                        };
                        st.count("t7_walk_steps");
                        if r.is_ok() != fresh[ci].is_ok() {
                            st.oracle_failure(json!({"key": format!("reuse-drawn|{}|after {prev}|success", c.key(&fonts)), "what": "reconfigure and new disagree on success", "reused": format!("{r:?}")}));
                        }
                        if let (Ok(()), Some(i)) = (&r, inst.as_ref()) {
                            let got = draw_sample(f, i, &f.gids);
                            compare(&mut st, "reuse-drawn", ci, &prev, &got);
                            // a second pass over the sample must agree as well (cache now warm)
                            let again = draw_sample(f, i, &f.gids);
                            compare(&mut st, "reuse-drawn-warm", ci, &prev, &again);
                        }
                        prev = c.key(&fonts);
                    }
                }
                // (b) clones configured differently, drawn interleaved
                let n = chain.len();
                for a in 0..n.min(if thorough { n } else { 3 }) {
                    let b = (a + 1 + (a % 2)) % n;
                    let c3 = (a + 2) % n;
                    if fresh[a].is_err() || fresh[b].is_err() || a == b {
                        continue;
                    }
                    let Ok(ia) = new_instance(&fonts, &chain[a]) else { continue };
                    let mut ia = ia;
                    // warm part of the original, clone, retarget the clone
                    let half = f.gids.len() / 2;
                    let _ = draw_sample(f, &ia, &f.gids[..half]);
                    let mut ib = ia.clone();
                    if reconfigure(&fonts, &mut ib, &chain[b]).is_err() {
                        continue;
                    }
                    st.count("t7_clone_pairs");
                    let mut ga = vec![];
                    let mut gb = vec![];
                    for (k, g) in f.gids.iter().enumerate() {
                        let og = f.outlines.get(GlyphId::new(*g)).unwrap();
                        if k % 2 == 0 {
                            gb.push(draw_hinted(&og, &ib, false, None));
                            ga.push(draw_hinted(&og, &ia, false, None));
                        } else {
                            ga.push(draw_hinted(&og, &ia, false, None));
                            gb.push(draw_hinted(&og, &ib, false, None));
                        }
                    }
                    let hist = format!("clone of {}", chain[a].key(&fonts));
                    compare(&mut st, "clone-original", a, "cloned", &ga);
                    compare(&mut st, "clone-retargeted", b, &hist, &gb);
                    // now move the original too; the clone must not notice
                    if fresh[c3].is_ok() && reconfigure(&fonts, &mut ia, &chain[c3]).is_ok() {
                        let ga2 = draw_sample(f, &ia, &f.gids);
                        let gb2 = draw_sample(f, &ib, &f.gids);
                        compare(&mut st, "clone-original-moved", c3, &chain[a].key(&fonts), &ga2);
                        compare(&mut st, "clone-after-original-moved", b, &hist, &gb2);
                    }
                }
            }
        }
        st.v.insert("t7_configs".into(), n_cfg.into());
    }
    // T5b: unhinted, shared OutlineGlyphCollection
    for f in fonts.iter() {
        let co = if f.axes > 0 { rand_coords(&mut rng, f.axes) } else { vec![] };
        let co = coords_of(&co);
        let reference: Vec<Outcome> = f.gids.iter().map(|g| draw_unhinted(&f.font.outline_glyphs().get(GlyphId::new(*g)).unwrap(), Size::new(19.0), &co, Style::Ft, None)).collect();
        let results: Vec<Vec<Outcome>> = std::thread::scope(|s| {
            let hs: Vec<_> = (0..16)
                .map(|t| {
                    let f = &f;
                    let co = &co;
                    s.spawn(move || {
                        let mut idx: Vec<usize> = (0..f.gids.len()).collect();
                        idx.rotate_left(t % f.gids.len().max(1));
                        let mut out = vec![Err(String::new()); f.gids.len()];
                        for i in idx {
                            out[i] = draw_unhinted(&f.outlines.get(GlyphId::new(f.gids[i])).unwrap(), Size::new(19.0), co, Style::Ft, None);
                        }
                        out
                    })
                })
                .collect();
            hs.into_iter().map(|h| h.join().unwrap_or_default()).collect()
        });
        for r in results {
            st.evaluations += r.len() as u64;
            st.add("t5_threaded_unhinted_draws", r.len() as u64);
            if r != reference {
                st.oracle_failure(json!({"key": format!("threads-unhinted|{}", f.name), "what": "concurrent unhinted draws differ from sequential ones"}));
            }
        }
    }

    let shards = cw.finish();
    st.v.insert("shards".into(), shards.into());
    st.v.insert("model_cases".into(), cw.len().into());
    st.write(&dir, "font-test-data fonts (glyf static/variable, CFF, CFF2) x glyph sample x sizes (unscaled, 10, 16, 33.5 ..) x locations (none, zero, random, corner) x {unhinted FreeType, unhinted HarfBuzz, interpreter/auto/fallback x 5 targets}; non-trivial = successful draw with more than 2 pen commands (distinct by configuration+glyph)");
    println!("cases={} shards={} oracle_failures={}", cw.len(), shards, st.oracle_failures.len());
}
