//! C01 harness.
//!
//! (a) correspondence shards: operations of the read-fonts core reader (FontData::{read_at, read_be_at,
//!     read_array, slice, split_off, take_up_to, read_ref_at}, Offset resolve, FontRef::new + table_data,
//!     CollectionRef::new + get, Index1/Index2 read + get_offset/get, Loca, VarLenArray, ComputedArray)
//!     through the public API with boundary-rich arguments; one Coq term per case for coq/C01/Model.v
//!     `eval_op`.
//! (b) implementation-only totality search: every font of font-test-data and deterministic
//!     structure-aware mutations of it are opened and traversed generically (read_fonts::traversal)
//!     plus through the hand-written helpers, under `catch`; a panic, a hang (watchdog) or an impure
//!     observation (same bytes at another buffer offset / on another thread) is an oracle failure.
use read_fonts::tables::postscript::{Index1, Index2};
use read_fonts::traversal::{FieldType, SomeArray, SomeTable};
use read_fonts::types::{BigEndian, F2Dot14, Fixed, GlyphId, GlyphId16, Tag, Uint24};
use read_fonts::{
    CollectionRef, FileRef, FontData, FontRead, FontRef, ReadError, ResolveNullableOffset,
    ResolveOffset, TableProvider, TableRecord,
};
use serde_json::json;
use std::cell::RefCell;
use std::sync::atomic::{AtomicU64, AtomicUsize, Ordering};
use std::sync::{Arc, Mutex};
use std::time::{Duration, Instant};
use vh::*;

// ------------------------------------------------------------------------------------------------
// panic capture with location (the default hook is replaced; message + file:line kept per thread)
// ------------------------------------------------------------------------------------------------
thread_local! { static LAST_LOC: RefCell<String> = const { RefCell::new(String::new()) }; }

fn install_hook() {
    std::panic::set_hook(Box::new(|info| {
        let loc = info.location().map(|l| format!("{}:{}", l.file(), l.line())).unwrap_or_default();
        if std::env::var("C01_DEBUG").is_ok() {
            eprintln!("panic: {} at {}", info, loc);
        }
        LAST_LOC.with(|c| *c.borrow_mut() = loc);
    }));
}
fn last_loc() -> String {
    LAST_LOC.with(|c| c.borrow().clone())
}


// ------------------------------------------------------------------------------------------------
// coverage counters: which generated table types the traversal visited and which hand-written helper
// functions were called (calls / calls that returned a value rather than None/Err)
// ------------------------------------------------------------------------------------------------
thread_local! {
    static COV_TABLE: RefCell<std::collections::HashMap<String, u64>> = RefCell::new(Default::default());
    static COV_HELPER: RefCell<std::collections::HashMap<&'static str, [u64; 2]>> = RefCell::new(Default::default());
}
fn cov_table(name: &str) {
    COV_TABLE.with(|m| {
        let mut m = m.borrow_mut();
        if let Some(v) = m.get_mut(name) {
            *v += 1;
        } else {
            m.insert(name.to_string(), 1);
        }
    });
}
fn cov_helper(name: &'static str, calls: u64, hits: u64) {
    COV_HELPER.with(|m| {
        let mut m = m.borrow_mut();
        let e = m.entry(name).or_insert([0, 0]);
        e[0] += calls;
        e[1] += hits;
    });
}
type CovDump = (Vec<(String, u64)>, Vec<(&'static str, [u64; 2])>);
fn cov_take() -> CovDump {
    (COV_TABLE.with(|m| m.borrow_mut().drain().collect()), COV_HELPER.with(|m| m.borrow_mut().drain().collect()))
}

// ------------------------------------------------------------------------------------------------
// (a) correspondence
// ------------------------------------------------------------------------------------------------
fn err_code(e: &ReadError) -> Vec<i128> {
    match e {
        ReadError::OutOfBounds => vec![1, 1],
        ReadError::InvalidArrayLen => vec![1, 2],
        ReadError::NullOffset => vec![1, 3],
        ReadError::InvalidSfnt(v) => vec![1, 4, *v as i128],
        ReadError::InvalidTtc(t) => vec![1, 5, u32::from_be_bytes(t.to_be_bytes()) as i128],
        ReadError::InvalidCollectionIndex(i) => vec![1, 6, *i as i128],
        ReadError::MalformedData(_) => vec![1, 9],
        _ => vec![1, 99],
    }
}
fn ps_err_code(e: &read_fonts::tables::postscript::Error) -> Vec<i128> {
    use read_fonts::tables::postscript::Error as E;
    match e {
        E::Read(r) => err_code(r),
        E::InvalidIndexOffsetSize(s) => vec![1, 7, *s as i128],
        E::ZeroOffsetInIndex => vec![1, 8],
        _ => vec![1, 98],
    }
}
fn ok(mut v: Vec<i128>) -> Vec<i128> {
    v.insert(0, 0);
    v
}
fn bytes_i(b: &[u8]) -> Vec<i128> {
    b.iter().map(|x| *x as i128).collect()
}
fn off_in(base: &[u8], s: &[u8]) -> i128 {
    (s.as_ptr() as usize as i128) - (base.as_ptr() as usize as i128)
}

fn obs_font(base: &[u8], f: &FontRef, tags: &[u32], out: &mut Vec<i128>) {
    out.extend(ok(vec![f.table_directory.sfnt_version() as i128]));
    out.extend(ok(vec![f.table_directory.num_tables() as i128]));
    for t in tags {
        match f.table_data(Tag::from_u32(*t)) {
            None => out.push(-1),
            Some(d) => {
                out.push(off_in(base, d.as_bytes()));
                out.push(d.len() as i128);
            }
        }
    }
}

macro_rules! obs_index {
    ($x:expr, $idxs:expr, $out:expr) => {{
        let x = $x;
        $out.extend(ok(vec![x.count() as i128]));
        $out.extend(ok(vec![x.off_size() as i128]));
        $out.extend(ok(vec![x.offsets().len() as i128]));
        $out.extend(ok(vec![x.data().len() as i128]));
        for i in $idxs {
            let i = *i as usize;
            match x.get_offset(i) {
                Ok(v) => $out.extend(ok(vec![v as i128])),
                Err(e) => $out.extend(ps_err_code(&e)),
            }
            match x.get(i) {
                Ok(s) => $out.extend(ok(vec![off_in(x.data(), s), s.len() as i128])),
                Err(e) => $out.extend(ps_err_code(&e)),
            }
        }
    }};
}

/// Runs one modelled operation on the real code. `args` are usize / u32 values (as u64).
fn run_op(op: i64, data: &[u8], args: &[u64]) -> Result<Vec<i128>, String> {
    let data = data.to_vec();
    let args = args.to_vec();
    catch(move || {
        let fd = FontData::new(&data);
        let a = |i: usize| args[i] as usize;
        match op {
            1 => {
                let off = a(1);
                let r: Result<u64, ReadError> = match args[0] {
                    1 => fd.read_at::<u8>(off).map(|v| v as u64),
                    2 => fd.read_at::<u16>(off).map(|v| v as u64),
                    3 => fd.read_at::<Uint24>(off).map(|v| v.to_u32() as u64),
                    4 => fd.read_at::<u32>(off).map(|v| v as u64),
                    8 => fd.read_at::<i64>(off).map(|v| v as u64),
                    _ => unreachable!(),
                };
                // read_be_at must agree with read_at
                let rb: Result<u64, ReadError> = match args[0] {
                    1 => fd.read_be_at::<u8>(off).map(|v| v.get() as u64),
                    2 => fd.read_be_at::<u16>(off).map(|v| v.get() as u64),
                    3 => fd.read_be_at::<Uint24>(off).map(|v| v.get().to_u32() as u64),
                    4 => fd.read_be_at::<u32>(off).map(|v| v.get() as u64),
                    8 => fd.read_be_at::<i64>(off).map(|v| v.get() as u64),
                    _ => unreachable!(),
                };
                assert!(r == rb, "read_at and read_be_at disagree");
                match r {
                    Ok(v) => ok(vec![v as i128]),
                    Err(e) => err_code(&e),
                }
            }
            3 => {
                let (s, e) = (a(1), a(2));
                let r: Result<Vec<i128>, ReadError> = match args[0] {
                    1 => fd.read_array::<u8>(s..e).map(bytes_i),
                    2 => fd.read_array::<BigEndian<u16>>(s..e).map(|x| x.iter().map(|v| v.get() as i128).collect()),
                    3 => fd.read_array::<BigEndian<Uint24>>(s..e).map(|x| x.iter().map(|v| v.get().to_u32() as i128).collect()),
                    4 => fd.read_array::<BigEndian<u32>>(s..e).map(|x| x.iter().map(|v| v.get() as i128).collect()),
                    16 => fd.read_array::<TableRecord>(s..e).map(|x| {
                        x.iter()
                            .flat_map(|r| [u32::from_be_bytes(r.tag().to_be_bytes()) as i128, r.checksum() as i128, r.offset() as i128, r.length() as i128])
                            .collect()
                    }),
                    _ => unreachable!(),
                };
                match r {
                    Ok(v) => ok(v),
                    Err(e) => err_code(&e),
                }
            }
            4 => {
                use std::ops::Bound::*;
                let sb = match args[0] {
                    0 => Unbounded,
                    1 => Included(a(1)),
                    _ => Excluded(a(1)),
                };
                let eb = match args[2] {
                    0 => Unbounded,
                    1 => Included(a(3)),
                    _ => Excluded(a(3)),
                };
                // use the native range syntax where one exists (it goes through the same RangeBounds path)
                let r = match (args[0], args[2]) {
                    (1, 2) => fd.slice(a(1)..a(3)),
                    (1, 1) => fd.slice(a(1)..=a(3)),
                    (1, 0) => fd.slice(a(1)..),
                    (0, 2) => fd.slice(..a(3)),
                    (0, 1) => fd.slice(..=a(3)),
                    (0, 0) => fd.slice(..),
                    _ => fd.slice((sb, eb)),
                };
                match r {
                    Some(s) => ok(bytes_i(s.as_bytes())),
                    None => vec![2],
                }
            }
            5 => match fd.split_off(a(0)) {
                Some(s) => ok(bytes_i(s.as_bytes())),
                None => vec![2],
            },
            6 => {
                let mut m = fd;
                match m.take_up_to(a(0)) {
                    Some(h) => {
                        let mut v = vec![h.len() as i128];
                        v.extend(bytes_i(h.as_bytes()));
                        v.extend(bytes_i(m.as_bytes()));
                        ok(v)
                    }
                    None => {
                        assert!(m.len() == fd.len(), "take_up_to changed self on failure");
                        vec![2]
                    }
                }
            }
            7 => match fd.read_ref_at::<TableRecord>(a(0)) {
                Ok(r) => ok(vec![u32::from_be_bytes(r.tag().to_be_bytes()) as i128, r.checksum() as i128, r.offset() as i128, r.length() as i128]),
                Err(e) => err_code(&e),
            },
            8 => {
                // args: [value] ; width chosen by magnitude class in args[1]
                let v = args[0];
                let r: Result<FontData, ReadError> = match args[1] {
                    2 => read_fonts::types::Offset16::new(v as u16).resolve(fd),
                    3 => read_fonts::types::Offset24::new(Uint24::new(v as u32)).resolve(fd),
                    _ => read_fonts::types::Offset32::new(v as u32).resolve(fd),
                };
                match r {
                    Ok(s) => ok(bytes_i(s.as_bytes())),
                    Err(e) => err_code(&e),
                }
            }
            9 => {
                use read_fonts::types::{Nullable, Offset16, Offset24, Offset32, Scalar};
                let v = args[0];
                let b = (v as u32).to_be_bytes();
                let r: Option<Result<FontData, ReadError>> = match args[1] {
                    2 => <Nullable<Offset16> as Scalar>::from_raw([b[2], b[3]]).resolve(fd),
                    3 => <Nullable<Offset24> as Scalar>::from_raw([b[1], b[2], b[3]]).resolve(fd),
                    _ => <Nullable<Offset32> as Scalar>::from_raw(b).resolve(fd),
                };
                match r {
                    None => vec![2],
                    Some(Ok(s)) => ok(bytes_i(s.as_bytes())),
                    Some(Err(e)) => err_code(&e),
                }
            }
            10 => match FontRef::new(&data) {
                Ok(f) => {
                    let mut out = vec![0];
                    let tags: Vec<u32> = args.iter().map(|t| *t as u32).collect();
                    obs_font(&data, &f, &tags, &mut out);
                    out
                }
                Err(e) => err_code(&e),
            },
            11 => match CollectionRef::new(&data) {
                Ok(c) => {
                    let mut out = vec![0];
                    out.extend(ok(vec![c.len() as i128]));
                    // dsig fields through the header (public via traversal-free getters on TTCHeader)
                    let h = read_fonts::TTCHeader::read(fd).unwrap();
                    let mut ds = vec![];
                    if let Some(v) = h.dsig_tag() {
                        ds.push(v as i128);
                    }
                    if let Some(v) = h.dsig_length() {
                        ds.push(v as i128);
                    }
                    if let Some(v) = h.dsig_offset() {
                        ds.push(v as i128);
                    }
                    out.extend(ok(ds));
                    for i in &args {
                        match c.get(*i as u32) {
                            Ok(f) => {
                                out.push(0);
                                obs_font(&data, &f, &[], &mut out);
                            }
                            Err(e) => out.extend(err_code(&e)),
                        }
                    }
                    out
                }
                Err(e) => err_code(&e),
            },
            12 => match Index1::read(fd) {
                Ok(x) => {
                    let mut out = vec![0];
                    obs_index!(&x, &args, out);
                    out
                }
                Err(e) => err_code(&e),
            },
            13 => match Index2::read(fd) {
                Ok(x) => {
                    let mut out = vec![0];
                    obs_index!(&x, &args, out);
                    out
                }
                Err(e) => err_code(&e),
            },
            14 => {
                use read_fonts::tables::loca::Loca;
                match Loca::read(fd, args[0] != 0) {
                    Ok(l) => {
                        let mut out = vec![0, l.len() as i128];
                        for i in &args[1..] {
                            match l.get_raw(*i as usize) {
                                Some(v) => out.extend(ok(vec![v as i128])),
                                None => out.push(2),
                            }
                        }
                        out
                    }
                    Err(e) => err_code(&e),
                }
            }
            15 => {
                use read_fonts::array::VarLenArray;
                use read_fonts::tables::post::PString;
                let arr = VarLenArray::<PString>::read(fd).unwrap();
                let mut out = vec![];
                for i in &args {
                    match arr.get(*i as usize) {
                        None => out.push(2),
                        Some(Ok(s)) => out.extend(ok(bytes_i(s.as_str().as_bytes()))),
                        Some(Err(e)) => out.extend(err_code(&e)),
                    }
                }
                let items: Vec<_> = arr.iter().take(data.len() + 2).collect();
                out.push(1);
                out.push(items.len() as i128);
                for it in items {
                    match it {
                        Ok(s) => {
                            out.push(0);
                            out.push(s.as_str().len() as i128);
                            out.extend(bytes_i(s.as_str().as_bytes()));
                        }
                        Err(e) => out.extend(err_code(&e)),
                    }
                }
                out
            }
            16 => {
                use read_fonts::array::VarLenArray;
                use read_fonts::tables::avar::SegmentMaps;
                let arr = VarLenArray::<SegmentMaps>::read(fd).unwrap();
                let enc = |s: &SegmentMaps| vec![s.position_map_count.get() as i128, (s.axis_value_maps().len() * 4) as i128];
                let mut out = vec![];
                for i in &args {
                    match arr.get(*i as usize) {
                        None => out.push(2),
                        Some(Ok(s)) => out.extend(ok(enc(&s))),
                        Some(Err(e)) => out.extend(err_code(&e)),
                    }
                }
                let items: Vec<_> = arr.iter().take(data.len() + 2).collect();
                out.push(1);
                out.push(items.len() as i128);
                for it in items {
                    match it {
                        Ok(s) => out.extend(ok(enc(&s))),
                        Err(e) => out.extend(err_code(&e)),
                    }
                }
                out
            }
            17 => {
                use read_fonts::array::ComputedArray;
                use read_fonts::tables::gvar::{GvarFlags, U16Or32};
                let flags = if args[0] != 0 { GvarFlags::LONG_OFFSETS } else { GvarFlags::empty() };
                let arr = ComputedArray::<U16Or32>::new(fd, flags).unwrap();
                let mut out = vec![arr.len() as i128];
                for i in &args[1..] {
                    match arr.get(*i as usize) {
                        Ok(v) => out.extend(ok(vec![v.get() as i128])),
                        Err(e) => out.extend(err_code(&e)),
                    }
                }
                let items: Vec<_> = arr.iter().take(data.len() + 2).collect();
                out.push(1);
                out.push(items.len() as i128);
                for it in items {
                    match it {
                        Ok(v) => out.extend(ok(vec![v.get() as i128])),
                        Err(e) => out.extend(err_code(&e)),
                    }
                }
                out
            }

            18 => {
                use read_fonts::tables::glyf::{PointFlags, SimpleGlyph};
                use read_fonts::types::Point;
                let n = a(0);
                let gb = simple_glyph_bytes(n, &data);
                let g = SimpleGlyph::read(FontData::new(&gb)).unwrap();
                assert!(g.num_points() == n, "num_points differs from the constructed glyph");
                let mut pts = vec![Point::<i32>::default(); n];
                let mut fl = vec![PointFlags::default(); n];
                match g.read_points_fast(&mut pts, &mut fl) {
                    Ok(()) => {
                        let mut out = vec![0i128];
                        for (p, f) in pts.iter().zip(&fl) {
                            out.push(p.x as i128);
                            out.push(p.y as i128);
                            out.push(f.to_bits() as i128);
                        }
                        out
                    }
                    Err(e) => err_code(&e),
                }
            }
            19 => {
                use read_fonts::tables::glyf::SimpleGlyph;
                let last = args[0] as i64;
                let fuel = a(1);
                let gb = simple_glyph_bytes((last + 1) as usize, &data);
                let g = SimpleGlyph::read(FontData::new(&gb)).unwrap();
                let items: Vec<_> = g.points().take(fuel).collect();
                let mut out = vec![0i128, (items.len() < fuel) as i128];
                for p in items {
                    out.push(p.x as i128);
                    out.push(p.y as i128);
                    out.push(p.on_curve as i128);
                }
                out
            }
            20 => {
                use read_fonts::tables::variations::PackedPointNumbers;
                let fuel = a(0);
                let (ppn, rest) = PackedPointNumbers::split_off_front(fd);
                let mut out = vec![ppn.count() as i128, 0, rest.len() as i128];
                let items: Vec<u16> = ppn.iter().take(fuel).collect();
                out.push(0);
                out.push((items.len() < fuel) as i128);
                out.extend(items.iter().map(|v| *v as i128));
                out
            }
            21 => {
                use read_fonts::tables::variations::PackedDeltas;
                let fuel = a(0);
                let pd = PackedDeltas::consume_all(fd);
                // `count` is crate-private: take it from the derived Debug output
                let dbg = format!("{:?}", pd);
                let count: i128 = dbg.rsplit("count: ").next().and_then(|t| t.trim_end_matches([' ', '}']).parse().ok()).expect("PackedDeltas Debug format changed");
                let items: Vec<i32> = pd.iter().take(fuel).collect();
                let mut out = vec![0i128, count, 0, (items.len() < fuel) as i128];
                out.extend(items.iter().map(|v| *v as i128));
                out
            }
            22 => {
                use read_fonts::tables::cmap::{Cmap12, Cmap12IterLimits};
                match Cmap12::read(fd) {
                    Ok(t) => {
                        let take = a(3);
                        let items: Vec<(u32, GlyphId)> = if args[0] == 0 {
                            t.iter().take(take).collect()
                        } else {
                            t.iter_with_limits(Cmap12IterLimits { max_char: args[1] as u32, glyph_count: args[2] as u32 }).take(take).collect()
                        };
                        let mut out = vec![0i128, t.groups().len() as i128, 0, (items.len() < take) as i128];
                        for (c, g) in items {
                            out.push(c as i128);
                            out.push(g.to_u32() as i128);
                        }
                        out
                    }
                    Err(e) => err_code(&e),
                }
            }
            23 => {
                use read_fonts::tables::postscript::dict::{tokens, Token};
                use read_fonts::tables::postscript::Error as E;
                let mut d = vec![30u8];
                d.extend(&data);
                let first = tokens(&d).next();
                match first {
                    Some(Ok(Token::Operand(_))) => vec![0, 0],
                    Some(Ok(_)) => vec![-5],
                    Some(Err(E::InvalidNumber)) => vec![1, 10],
                    Some(Err(E::Read(e))) => err_code(&e),
                    Some(Err(_)) => vec![1, 98],
                    None => vec![-6],
                }
            }
            24 => {
                use read_fonts::tables::varc::Varc;
                // args: fuel, k, then k entries (len, bytes...) of the axis-indices INDEX; data = the glyph record
                let fuel = a(0);
                let k = a(1);
                let mut entries: Vec<Vec<u8>> = vec![];
                let mut p = 2;
                for _ in 0..k {
                    let n = a(p);
                    entries.push(args[p + 1..p + 1 + n].iter().map(|v| *v as u8).collect());
                    p += 1 + n;
                }
                let table = varc_table_bytes(&entries, &data);
                let varc = Varc::read(FontData::new(&table)).unwrap();
                let g = varc.glyph(0).unwrap();
                let items: Vec<_> = g.components().take(fuel).collect();
                let mut out = vec![(items.len() < fuel) as i128, items.len() as i128];
                for it in items {
                    match it {
                        Ok(_) => out.push(0),
                        Err(e) => out.extend(err_code(&e)),
                    }
                }
                out
            }
            25 | 26 => {
                use read_fonts::tables::glyf::{Anchor, CompositeGlyph};
                let fuel = a(0);
                let mut gb = vec![0xFFu8, 0xFF, 0, 0, 0, 0, 0, 0, 0, 0];
                gb.extend(&data);
                let g = CompositeGlyph::read(FontData::new(&gb)).unwrap();
                if op == 25 {
                    let items: Vec<_> = g.components().take(fuel).collect();
                    let mut out = vec![(items.len() < fuel) as i128, items.len() as i128];
                    for c in items {
                        out.push(c.flags.bits() as i128);
                        out.push(c.glyph.to_u16() as i128);
                        match c.anchor {
                            Anchor::Offset { x, y } => out.extend([0, x as i128, y as i128]),
                            Anchor::Point { base, component } => out.extend([1, base as i128, component as i128]),
                        }
                        out.extend([c.transform.xx.to_bits() as i128, c.transform.yx.to_bits() as i128, c.transform.xy.to_bits() as i128, c.transform.yy.to_bits() as i128]);
                    }
                    out
                } else {
                    let items: Vec<_> = g.component_glyphs_and_flags().take(fuel).collect();
                    let mut out = vec![(items.len() < fuel) as i128, items.len() as i128];
                    for (gid, f) in items {
                        out.push(gid.to_u16() as i128);
                        out.push(f.bits() as i128);
                    }
                    out
                }
            }
            27 => {
                use read_fonts::tables::name::Name;
                let enc = args[0];
                let fuel = a(1);
                let (pid, eid) = match enc {
                    0 => (3u16, 1u16),
                    1 => (1, 0),
                    _ => (2, 0),
                };
                let mut tb = vec![];
                tb.extend(be16(0));
                tb.extend(be16(1));
                tb.extend(be16(18));
                for v in [pid, eid, 0, 1, data.len() as u16, 0] {
                    tb.extend(be16(v));
                }
                tb.extend(&data);
                let name = Name::read(FontData::new(&tb)).unwrap();
                let s = name.name_record()[0].string(name.string_data()).unwrap();
                let items: Vec<char> = s.chars().take(fuel).collect();
                let mut out = vec![(items.len() < fuel) as i128, items.len() as i128];
                for (i, ch) in items.iter().enumerate() {
                    if enc == 1 && data[i] >= 128 {
                        out.push(-1);
                    } else {
                        out.push(*ch as u32 as i128);
                    }
                }
                out
            }
            28 => {
                use read_fonts::tables::layout::Device;
                match Device::read(fd) {
                    Ok(dv) => {
                        let mut out = vec![0i128];
                        out.extend(ok(vec![dv.start_size() as i128]));
                        out.extend(ok(vec![dv.end_size() as i128]));
                        let f = dv.delta_format() as u16;
                        out.extend(ok(vec![match f {
                            1 => 1,
                            2 => 2,
                            3 => 3,
                            0x8000 => 4,
                            _ => 0,
                        }]));
                        out.extend(ok(vec![(dv.delta_value().len() * 2) as i128]));
                        out.extend(ok(dv.iter().map(|v| v as i128).collect()));
                        out
                    }
                    Err(e) => err_code(&e),
                }
            }
            _ => unreachable!(),
        }
    })
}

fn index2_bytes(objs: &[Vec<u8>]) -> Vec<u8> {
    let mut v = vec![];
    v.extend(be32(objs.len() as u32));
    v.push(2);
    let mut o = 1u16;
    v.extend(be16(o));
    for ob in objs {
        o += ob.len() as u16;
        v.extend(be16(o));
    }
    for ob in objs {
        v.extend(ob);
    }
    v
}
/// a VARC table with the given axis-indices entries and one glyph record
fn varc_table_bytes(axis_entries: &[Vec<u8>], record: &[u8]) -> Vec<u8> {
    let ax = index2_bytes(axis_entries);
    let gl = index2_bytes(&[record.to_vec()]);
    let mut t = vec![0u8, 1, 0, 0];
    t.extend(be32(0));
    t.extend(be32(0));
    t.extend(be32(0));
    t.extend(be32(24));
    t.extend(be32(24 + ax.len() as u32));
    t.extend(ax);
    t.extend(gl);
    t
}
fn u32var(v: u32) -> Vec<u8> {
    if v < 0x80 {
        vec![v as u8]
    } else if v < 0x4000 {
        vec![0x80 | (v >> 8) as u8, v as u8]
    } else if v < 0x20_0000 {
        vec![0xC0 | (v >> 16) as u8, (v >> 8) as u8, v as u8]
    } else if v < 0x1000_0000 {
        vec![0xE0 | (v >> 24) as u8, (v >> 16) as u8, (v >> 8) as u8, v as u8]
    } else {
        let b = v.to_be_bytes();
        vec![0xF0, b[0], b[1], b[2], b[3]]
    }
}

/// nibbles -> BCD bytes (padded with the end nibble 0xF)
fn pack_nibbles(n: &[u8]) -> Vec<u8> {
    let mut v: Vec<u8> = n.to_vec();
    if v.len() % 2 != 0 {
        v.push(0xF);
    }
    v.chunks(2).map(|p| (p[0] << 4) | p[1]).collect()
}
/// BCD operand bodies: `len` leading characters, then one nibble of each kind, optionally more digits, end
fn bcd_bodies(rng: &mut Rng) -> Vec<(String, Vec<u8>)> {
    let mut out = vec![];
    for len in 0..=40usize {
        for (kname, kind) in [("digit", 0x7u8), ("point", 0xA), ("E", 0xB), ("Eminus", 0xC), ("reserved", 0xD), ("minus", 0xE), ("end", 0xF)] {
            for variant in 0..3 {
                let mut nib: Vec<u8> = (0..len).map(|_| if variant == 0 { 1 } else { (rng.below(10)) as u8 }).collect();
                if variant == 2 && len > 2 {
                    let p = rng.below(len as u64) as usize;
                    nib[p] = 0xA; // one decimal point inside
                }
                nib.push(kind);
                for tail in 0..3 {
                    let mut n2 = nib.clone();
                    for _ in 0..tail {
                        n2.push(5);
                    }
                    let mut terminated = n2.clone();
                    terminated.push(0xF);
                    out.push((format!("bcd:len{}:{}:v{}:tail{}", len, kname, variant, tail), pack_nibbles(&terminated)));
                    if tail == 0 {
                        // unterminated (runs into the end of the data)
                        let mut raw = n2.clone();
                        if raw.len() % 2 != 0 {
                            raw.push(1);
                        }
                        out.push((format!("bcd:len{}:{}:v{}:unterminated", len, kname, variant), raw.chunks(2).map(|p| (p[0] << 4) | p[1]).collect()));
                    }
                }
            }
        }
    }
    out
}

/// a SimpleGlyph table with `n` points (one contour ending at n-1, or no contour), no instructions,
/// and `glyph_data` as its flag/coordinate bytes
fn simple_glyph_bytes(n: usize, glyph_data: &[u8]) -> Vec<u8> {
    let mut v = vec![];
    v.extend(be16(if n == 0 { 0 } else { 1 }));
    v.extend([0u8; 8]);
    if n > 0 {
        v.extend(be16((n - 1) as u16));
    }
    v.extend(be16(0));
    v.extend(glyph_data);
    v
}

/// Implementation-only oracle for the core reader (the documented contract, computed independently in u128).
fn core_oracle(op: i64, data: &[u8], args: &[u64], res: &Result<Vec<i128>, String>) -> Option<String> {
    let len = data.len() as u128;
    let Ok(r) = res else {
        return Some("panic".into());
    };
    match op {
        1 => {
            let (w, off) = (args[0] as u128, args[1] as u128);
            let inb = off + w <= len;
            if inb {
                let mut v: u128 = 0;
                for b in &data[off as usize..(off + w) as usize] {
                    v = v * 256 + *b as u128;
                }
                (r != &vec![0, v as i128]).then(|| format!("read_at in bounds expected {} got {:?}", v, r))
            } else {
                (r != &vec![1, 1]).then(|| format!("read_at out of bounds gave {:?}", r))
            }
        }
        3 => {
            let (esz, s, e) = (args[0] as u128, args[1] as u128, args[2] as u128);
            if s > e || e > len {
                (r != &vec![1, 1]).then(|| format!("read_array bad range gave {:?}", r))
            } else if (e - s) % esz != 0 {
                (r != &vec![1, 2]).then(|| format!("read_array ragged gave {:?}", r))
            } else {
                let n = ((e - s) / esz) as usize * if esz == 16 { 4 } else { 1 };
                (r.first() != Some(&0) || r.len() != n + 1).then(|| format!("read_array ok expected {} elements got {:?}", n, r))
            }
        }
        5 => {
            let p = args[0] as u128;
            if p <= len {
                let mut e = vec![0i128];
                e.extend(bytes_i(&data[p as usize..]));
                (r != &e).then(|| "split_off wrong tail".to_string())
            } else {
                (r != &vec![2]).then(|| format!("split_off beyond end gave {:?}", r))
            }
        }
        _ => None,
    }
}

fn boundary_usizes(len: usize, rng: &mut Rng) -> Vec<u64> {
    let l = len as u64;
    let mut v = vec![
        0,
        1,
        2,
        3,
        4,
        7,
        8,
        15,
        16,
        17,
        l.wrapping_sub(17),
        l.wrapping_sub(16),
        l.wrapping_sub(9),
        l.wrapping_sub(8),
        l.wrapping_sub(5),
        l.wrapping_sub(4),
        l.wrapping_sub(3),
        l.wrapping_sub(2),
        l.wrapping_sub(1),
        l,
        l + 1,
        l + 2,
        l + 4,
        u64::MAX,
        u64::MAX - 1,
        u64::MAX - 2,
        u64::MAX - 3,
        u64::MAX - 4,
        u64::MAX - 8,
        u64::MAX - 16,
        i64::MAX as u64,
        i64::MAX as u64 + 1,
        i64::MAX as u64 - 1,
        1 << 32,
        (1 << 32) - 1,
        (1 << 32) + 1,
        1 << 31,
        0xFFFF,
        0x10000,
        u64::MAX - l,
        (u64::MAX - l).wrapping_add(1),
    ];
    for _ in 0..4 {
        v.push(rng.below(l + 3));
    }
    v
}

struct Corr<'a> {
    cw: &'a mut CaseWriter,
    st: &'a mut Stats,
}
impl Corr<'_> {
    fn emit(&mut self, op: i64, data: &[u8], args: &[u64]) {
        let res = run_op(op, data, args);
        self.st.evaluations += 1;
        self.st.count(&format!("corr.op{}", op));
        let cls = match &res {
            Ok(v) => match v.first() {
                Some(0) => "ok",
                Some(1) => "err",
                Some(2) => "none",
                _ => "other",
            },
            Err(_) => "panic",
        };
        self.st.count(&format!("corr.op{}.{}", op, cls));
        if let Ok(v) = &res {
            if v.first() == Some(&1) && v.len() > 1 {
                self.st.count(&format!("corr.err_code{}", v[1]));
            }
        }
        if let Some(why) = core_oracle(op, data, args, &res) {
            self.st.oracle_failure(json!({"key": format!("core:op{}:{}", op, &why[..why.len().min(60)]), "op": op, "data": data, "args": args, "impl": format!("{:?}", res), "why": why}));
        } else if let Err(msg) = &res {
            self.st.oracle_failure(json!({"key": format!("core:op{}:panic:{}", op, &msg[..msg.len().min(60)]), "op": op, "data": data, "args": args, "loc": last_loc()}));
        }
        let canon = format!("{} {:?} {:?}", op, data, args);
        if !data.is_empty() {
            self.st.nontrivial(&canon);
        }
        self.st.sample(json!({"op": op, "data_len": data.len(), "args": args, "impl": format!("{:?}", res).chars().take(120).collect::<String>()}));
        let resv = match res {
            Ok(v) => v,
            Err(_) => vec![3],
        };
        self.cw.push(format!("({}, {}, {}, {})", op, cbytes(data), czlist(args.iter().map(|v| *v as i128)), czlist(resv)));
    }
}

fn be16(v: u16) -> [u8; 2] {
    v.to_be_bytes()
}
fn be32(v: u32) -> [u8; 4] {
    v.to_be_bytes()
}

const TAGS: [&[u8; 4]; 8] = [b"AAAA", b"BBBB", b"CCCC", b"DDDD", b"cmap", b"glyf", b"head", b"zzzz"];

/// small synthetic sfnt: mostly valid, with the malformations named in `kind`
fn synth_font(rng: &mut Rng) -> (Vec<u8>, String) {
    let n = rng.below(6) as usize;
    let mut tags: Vec<u32> = (0..n).map(|_| u32::from_be_bytes(**rng.pick(&TAGS))).collect();
    let mut kind = String::new();
    if rng.chance(2, 3) {
        tags.sort();
        kind.push_str("sorted");
        if rng.chance(1, 2) {
            tags.dedup();
            kind.push_str("-uniq");
        }
    } else {
        kind.push_str("unsorted");
    }
    let n = tags.len();
    let version = match rng.below(8) {
        0 => 0x4F54544F,
        1 => 0x74727565,
        2 => 0x74746366,
        3 => 0,
        4 => rng.next_u32(),
        _ => 0x00010000,
    };
    let declared = match rng.below(8) {
        0 => n as u16 + 1,
        1 => (n as u16).wrapping_sub(1),
        2 => 0xFFFF,
        3 => 0,
        _ => n as u16,
    };
    if declared != n as u16 {
        kind.push_str("-countlie");
    }
    let mut out = vec![];
    out.extend(be32(version));
    out.extend(be16(declared));
    out.extend([0u8; 6]);
    let body = rng.below(24) as usize;
    let total = 12 + 16 * n + body;
    for t in &tags {
        out.extend(be32(*t));
        out.extend(be32(rng.next_u32()));
        let off = match rng.below(10) {
            0 => 0,
            1 => total as u32,
            2 => total as u32 - 1,
            3 => total as u32 + 1,
            4 => 0xFFFF_FFFF,
            5 => 0xFFFF_FFFE,
            6 => 1,
            _ => rng.below(total as u64 + 1) as u32,
        };
        let remaining = (total as u32).saturating_sub(off);
        let l = match rng.below(10) {
            0 => 0,
            1 => remaining,
            2 => remaining.wrapping_add(1),
            3 => 0xFFFF_FFFF,
            4 => 0xFFFF_FFFFu32.wrapping_sub(off).wrapping_add(1),
            5 => 0xFFFF_FFFFu32.wrapping_sub(off),
            _ => rng.below(remaining as u64 + 1) as u32,
        };
        out.extend(be32(off));
        out.extend(be32(l));
    }
    out.extend(rng.bytes(body));
    if rng.chance(1, 4) {
        let k = rng.below(out.len() as u64 + 1) as usize;
        out.truncate(k);
        kind.push_str("-trunc");
    }
    (out, kind)
}

fn synth_ttc(rng: &mut Rng) -> Vec<u8> {
    let n = rng.below(4) as usize;
    let tag = if rng.chance(5, 6) { 0x74746366 } else { rng.next_u32() };
    let version: u32 = *rng.pick(&[0x0001_0000, 0x0002_0000, 0x0002_0001, 0x0003_0000, 0x0000_0002, 0x0002_FFFF, 0x0001_0002]);
    let declared: u32 = match rng.below(8) {
        0 => n as u32 + 1,
        1 => 0xFFFF_FFFF,
        2 => 0x4000_0000,
        3 => 0,
        _ => n as u32,
    };
    let mut out = vec![];
    out.extend(be32(tag));
    out.extend(be32(version));
    out.extend(be32(declared));
    let hdr = 12 + 4 * n + if version >> 16 == 2 { 12 } else { 0 };
    let mut fonts: Vec<Vec<u8>> = vec![];
    let mut pos = hdr;
    let mut offs = vec![];
    for _ in 0..n {
        let (f, _) = synth_font(rng);
        let f: Vec<u8> = f.into_iter().take(60).collect();
        offs.push(pos as u32);
        pos += f.len();
        fonts.push(f);
    }
    for o in &offs {
        let o = match rng.below(8) {
            0 => 0,
            1 => pos as u32,
            2 => pos as u32 + 1,
            3 => 0xFFFF_FFFF,
            _ => *o,
        };
        out.extend(be32(o));
    }
    if version >> 16 == 2 {
        out.extend(rng.bytes(12));
    }
    for f in fonts {
        out.extend(f);
    }
    if rng.chance(1, 3) {
        let k = rng.below(out.len() as u64 + 1) as usize;
        out.truncate(k);
    }
    out
}

fn synth_index(rng: &mut Rng, cw: usize) -> Vec<u8> {
    let count = rng.below(5) as usize;
    let off_size: u8 = match rng.below(10) {
        0 => 0,
        1 => 5,
        2 => 255,
        3 => 2,
        4 => 3,
        5 => 4,
        _ => 1,
    };
    let declared: u32 = match rng.below(8) {
        0 => count as u32 + 1,
        1 => 0xFFFF,
        2 => 0xFFFF_FFFF,
        _ => count as u32,
    };
    let mut out = vec![];
    if cw == 2 {
        out.extend(be16(declared as u16));
    } else {
        out.extend(be32(declared));
    }
    if count == 0 && rng.chance(1, 2) {
        return out;
    }
    out.push(off_size);
    let mut o = 1u32;
    let osz = if (1..=4).contains(&off_size) { off_size as usize } else { 1 };
    for _ in 0..=count {
        let v = match rng.below(10) {
            0 => 0,
            1 => o.wrapping_sub(1),
            2 => 0xFFFF_FFFF,
            _ => o,
        };
        out.extend(&be32(v)[4 - osz..]);
        o += rng.below(4) as u32;
    }
    let nb = rng.below(o as u64 + 3) as usize;
    out.extend(rng.bytes(nb));
    if rng.chance(1, 4) {
        let k = rng.below(out.len() as u64 + 1) as usize;
        out.truncate(k);
    }
    out
}

fn correspondence(rng: &mut Rng, cw: &mut CaseWriter, st: &mut Stats, thorough: bool) {
    let mut c = Corr { cw, st };
    let reps = if thorough { 5 } else { 1 };
    // --- FontData primitives: all boundary offsets on a few buffers ---
    let mut bufs: Vec<Vec<u8>> = vec![vec![], vec![0xAB], vec![1, 2], vec![0xFF, 0xFE, 0xFD], (0..17u8).map(|i| i.wrapping_mul(37).wrapping_add(200)).collect(), rng.bytes(32), rng.bytes(33)];
    for _ in 0..reps * 2 {
        let n = rng.below(40) as usize;
        bufs.push(rng.bytes(n));
    }
    for d in &bufs {
        let bs = boundary_usizes(d.len(), rng);
        for off in &bs {
            for w in [1u64, 2, 3, 4, 8] {
                if rng.chance(1, 2) || *off <= d.len() as u64 + 1 {
                    c.emit(1, d, &[w, *off]);
                }
            }
            c.emit(5, d, &[*off]);
            c.emit(6, d, &[*off]);
            if rng.chance(1, 3) {
                c.emit(7, d, &[*off]);
            }
            for (v, wd) in [(*off & 0xFFFF, 2u64), (*off & 0xFF_FFFF, 3), (*off & 0xFFFF_FFFF, 4)] {
                if rng.chance(1, 2) {
                    c.emit(8, d, &[v, wd]);
                    c.emit(9, d, &[v, wd]);
                }
            }
        }
        for _ in 0..(90 * reps) {
            let (a, b) = (*rng.pick(&bs), *rng.pick(&bs));
            let esz = *rng.pick(&[1u64, 2, 3, 4, 16]);
            c.emit(3, d, &[esz, a, b]);
            c.emit(4, d, &[rng.below(3), a, rng.below(3), b]);
        }
        // in-bounds ranges of every alignment class
        for _ in 0..(20 * reps) {
            let l = d.len() as u64;
            let a = rng.below(l + 1);
            let b = a + rng.below(l - a + 1);
            for esz in [1u64, 2, 3, 4, 16] {
                c.emit(3, d, &[esz, a, b]);
            }
            c.emit(4, d, &[1, a, 2, b]);
            c.emit(4, d, &[2, a, 1, b]);
        }
    }
    // --- fonts / collections ---
    let alltags: Vec<u64> = TAGS.iter().map(|t| u32::from_be_bytes(**t) as u64).chain([0u64, 0xFFFF_FFFF, 0x41414142]).collect();
    for _ in 0..(700 * reps) {
        let (f, kind) = synth_font(rng);
        c.st.count(&format!("corr.font.{}", kind));
        c.emit(10, &f, &alltags);
    }
    for _ in 0..(300 * reps) {
        let t = synth_ttc(rng);
        c.emit(11, &t, &[0, 1, 2, 3, 4, 0xFFFF_FFFF]);
    }
    // the real collection's header region (small prefix) as well
    {
        let t = font_test_data::ttc::TTC;
        let n = t.len().min(96);
        c.emit(11, &t[..n], &[0, 1, 2]);
    }
    // --- Index1 / Index2 ---
    for _ in 0..(350 * reps) {
        let x = synth_index(rng, 2);
        c.emit(12, &x, &[0, 1, 2, 3, 4, 5, 6, 0xFFFF, 0x10000, u64::MAX, u64::MAX - 1]);
        let x = synth_index(rng, 4);
        c.emit(13, &x, &[0, 1, 2, 3, 4, 5, 6, 0xFFFF_FFFF, 0x1_0000_0000, u64::MAX]);
    }
    // --- Loca / VarLenArray / ComputedArray ---
    for _ in 0..(150 * reps) {
        let n = rng.below(22) as usize;
        let d = rng.bytes(n);
        let idx = [0u64, 1, 2, 3, 4, 5, 6, 10, 11, 12, u64::MAX, i64::MAX as u64];
        let mut a = vec![rng.below(2)];
        a.extend(idx);
        c.emit(14, &d, &a);
        c.emit(17, &d, &a);
        // small length prefixes so that several items fit
        let d2: Vec<u8> = d.iter().enumerate().map(|(i, b)| if i % 3 == 0 { b % 5 } else if rng.chance(1, 8) { *b } else { b & 0x7F }).collect();
        c.emit(15, &d2, &[0, 1, 2, 3, 7, 30, u64::MAX]);
        let d3: Vec<u8> = d.iter().enumerate().map(|(i, b)| if i % 6 < 2 { (i % 6) as u8 * (b % 3) } else { *b }).collect();
        c.emit(16, &d3, &[0, 1, 2, 3, 7, 30, 1 << 40]);
    }

    // --- round 2: glyf points, packed point numbers / deltas, cmap 12 iteration ---
    for _ in 0..(500 * reps) {
        let n = match rng.below(12) {
            0 => 0,
            1 => 1,
            _ => 1 + rng.below(24),
        } as usize;
        let dl = rng.below(3 * n as u64 + 8) as usize;
        let mut d = rng.bytes(dl);
        // bias the leading (flag) bytes: repeat flag with small counts, short/same bits
        for (i, b) in d.iter_mut().enumerate().take(n + 2) {
            match rng.below(6) {
                0 => *b = 0x08 | (*b & 0x37),
                1 => *b = *b & 0x37,
                2 => *b = 0x36 | (*b & 0x01),
                3 => *b = (rng.below(5)) as u8,
                _ => {}
            }
            let _ = i;
        }
        c.emit(18, &d, &[n as u64]);
        c.emit(19, &d, &[(n as i64 - 1) as u64, 40]);
    }
    for (n, dl) in [(65536usize, 0usize), (65536, 3), (65535, 5), (300, 4), (256, 2), (257, 2), (255, 2)] {
        let mut d = vec![0x39u8, 0xFF, 0x39, 0xFF, 0x31];
        d.truncate(dl);
        c.emit(18, &d, &[n as u64]);
        c.emit(19, &d, &[(n as i64 - 1) as u64, 600]);
    }
    for _ in 0..(400 * reps) {
        let dl = rng.below(28) as usize;
        let mut d = rng.bytes(dl);
        if !d.is_empty() {
            d[0] = match rng.below(8) {
                0 => 0,
                1 => 0x80,
                2 => 0x81,
                3 => 0xFF,
                _ => rng.below(12) as u8,
            };
            for b in d.iter_mut().skip(1) {
                if rng.chance(1, 3) {
                    *b &= 0x83;
                }
            }
        }
        c.emit(20, &d, &[300]);
        let mut d2 = rng.bytes(dl);
        for b in d2.iter_mut() {
            if rng.chance(1, 2) {
                *b &= 0xC7;
            }
        }
        c.emit(21, &d2, &[500]);
    }
    for _ in 0..(400 * reps) {
        let k = rng.below(6) as usize;
        let declared: u32 = match rng.below(8) {
            0 => k as u32 + 1,
            1 => 0xFFFF_FFFF,
            2 => 0x1555_5556,
            _ => k as u32,
        };
        let mut d = vec![];
        d.extend(be16(12));
        d.extend(be16(0));
        d.extend(be32(16 + 12 * k as u32));
        d.extend(be32(0));
        d.extend(be32(declared));
        let mut prev_end = 0u32;
        for _ in 0..k {
            let s: u32 = match rng.below(8) {
                0 => 0,
                1 => prev_end,
                2 => prev_end.wrapping_sub(rng.below(10) as u32),
                3 => 0xFFFF_FFF0 + rng.below(16) as u32,
                4 => 0x10FFF0 + rng.below(32) as u32,
                _ => prev_end.wrapping_add(rng.below(20) as u32),
            };
            let e: u32 = match rng.below(8) {
                0 => s.wrapping_sub(1),
                1 => 0xFFFF_FFFF,
                2 => s,
                _ => s.wrapping_add(rng.below(30) as u32),
            };
            let g: u32 = match rng.below(6) {
                0 => 0xFFFF_FFFF,
                1 => 0xFFF0,
                _ => rng.below(40) as u32,
            };
            d.extend(be32(s));
            d.extend(be32(e));
            d.extend(be32(g));
            prev_end = e;
        }
        if rng.chance(1, 6) {
            let t = rng.below(d.len() as u64 + 1) as usize;
            d.truncate(t);
        }
        let take = 400;
        c.emit(22, &d, &[0, 0, 0, take]);
        let mc = *rng.pick(&[0x10FFFFu64, 50, 0, 0xFFFF_FFFF]);
        let gc = *rng.pick(&[0u64, 10, 35, 65535, 0xFFFF_FFFF]);
        c.emit(22, &d, &[1, mc, gc, take]);
    }
}

/// correspondence for parse_bcd (op 23): every structured body (operand classes only)
fn correspondence_bcd(rng: &mut Rng, cw: &mut CaseWriter, st: &mut Stats) {
    let mut c = Corr { cw, st };
    for (_, body) in bcd_bodies(rng) {
        c.emit(23, &body, &[]);
    }
    for _ in 0..300 {
        let n = rng.below(24) as usize;
        let b = rng.bytes(n);
        c.emit(23, &b, &[]);
    }
}

/// correspondence for the cursor-based iterators (ops 24-27): items and final error kinds with an item cap
fn correspondence_iters(rng: &mut Rng, cw: &mut CaseWriter, st: &mut Stats, thorough: bool) {
    let mut c = Corr { cw, st };
    let reps = if thorough { 4 } else { 1 };
    // VARC component records
    for _ in 0..(700 * reps) {
        let k = rng.below(4) as usize;
        let entries: Vec<Vec<u8>> = (0..k)
            .map(|_| match rng.below(5) {
                0 => vec![],
                1 => vec![0x80 | rng.below(6) as u8],
                2 => vec![rng.below(3) as u8, 1, 2, 3],
                3 => vec![0x41, 0, 1, 0, 2],
                _ => {
                    let n = rng.below(5) as usize;
                    rng.bytes(n)
                }
            })
            .collect();
        let mut rec = vec![];
        for _ in 0..(1 + rng.below(3)) {
            let mut flags: u32 = rng.next_u32() & 0x7FFF;
            match rng.below(6) {
                0 => flags &= 0x1003,
                1 => flags |= 0x8000 << rng.below(17),
                2 => flags &= !0x0002,
                _ => {}
            }
            rec.extend(u32var(flags));
            rec.extend(rng.bytes(if flags & 0x1000 != 0 { 3 } else { 2 }));
            if flags & 0x80 != 0 {
                rec.extend(u32var(rng.below(300) as u32));
            }
            if flags & 0x2 != 0 {
                rec.extend(u32var(rng.below(k as u64 + 2) as u32));
                let n = rng.below(8) as usize;
                rec.extend((0..n).map(|_| *rng.pick(&[0u8, 1, 0x80, 0x81, 0x40, 5, 0xC0, 0x3F])));
            }
            for bit in [4u32, 8] {
                if flags & bit != 0 {
                    rec.extend(u32var(rng.next_u32() >> rng.below(32)));
                }
            }
            for bit in [16u32, 32, 64, 256, 512, 8192, 16384, 1024, 2048] {
                if flags & bit != 0 {
                    rec.extend(rng.bytes(2));
                }
            }
            for _ in 0..(flags >> 15).count_ones() {
                rec.extend(u32var(rng.below(200) as u32));
            }
        }
        match rng.below(5) {
            0 => {
                let t = rng.below(rec.len() as u64 + 1) as usize;
                rec.truncate(t);
            }
            1 => {
                let p = rng.below(rec.len() as u64) as usize;
                rec[p] = rng.next_u64() as u8;
            }
            2 => {
                let n = 1 + rng.below(3) as usize;
                rec.extend(rng.bytes(n));
            }
            _ => {}
        }
        let mut a: Vec<u64> = vec![12, k as u64];
        for e in &entries {
            a.push(e.len() as u64);
            a.extend(e.iter().map(|b| *b as u64));
        }
        c.emit(24, &rec, &a);
    }
    // glyf composite components
    for _ in 0..(500 * reps) {
        let mut d = vec![];
        for _ in 0..(1 + rng.below(4)) {
            let mut flags: u16 = rng.next_u32() as u16;
            if rng.chance(2, 3) {
                flags |= 0x20;
            }
            if rng.chance(1, 2) {
                flags &= !0xC8 | (1 << *rng.pick(&[3u16, 6, 7]));
            }
            d.extend(be16(flags));
            d.extend(rng.bytes(2));
            d.extend(rng.bytes(if flags & 1 != 0 { 4 } else { 2 }));
            let tl = if flags & 8 != 0 { 2 } else if flags & 0x40 != 0 { 4 } else if flags & 0x80 != 0 { 8 } else { 0 };
            d.extend(rng.bytes(tl));
        }
        if rng.chance(1, 3) {
            let t = rng.below(d.len() as u64 + 1) as usize;
            d.truncate(t);
        }
        c.emit(25, &d, &[8]);
        c.emit(26, &d, &[8]);
    }
    // name record strings
    for _ in 0..(400 * reps) {
        let n = rng.below(14) as usize;
        let mut d = rng.bytes(n);
        for i in (0..d.len()).step_by(2) {
            match rng.below(5) {
                0 => d[i] = 0xD8 + rng.below(4) as u8,
                1 => d[i] = 0xDC + rng.below(4) as u8,
                2 => d[i] = 0,
                _ => {}
            }
        }
        for enc in [0u64, 1, 2] {
            c.emit(27, &d, &[enc, 20]);
        }
    }
}

// ------------------------------------------------------------------------------------------------
// (b) totality search
// ------------------------------------------------------------------------------------------------
struct Trav {
    h: u64,
    nodes: u64,
    budget: u64,
    truncated: bool,
    deadline: Instant,
}
impl Trav {
    fn new(budget: u64, per_case: Duration) -> Self {
        Trav { h: 0xcbf29ce484222325, nodes: 0, budget, truncated: false, deadline: Instant::now() + per_case }
    }
    fn mix(&mut self, b: &[u8]) {
        for x in b {
            self.h ^= *x as u64;
            self.h = self.h.wrapping_mul(0x100000001b3);
        }
    }
    fn num(&mut self, v: i128) {
        self.mix(&v.to_le_bytes());
    }
    fn s(&mut self, s: &str) {
        self.mix(s.as_bytes());
        self.mix(&[0xFE]);
    }
    fn dbg<T: std::fmt::Debug>(&mut self, v: &T) {
        let s = format!("{:?}", v);
        self.s(&s);
    }
    fn err(&mut self, e: &ReadError) {
        self.dbg(e);
    }
    /// observe the result of a hand-written helper call and count it (hit = not None / Err)
    fn dbgc<T: std::fmt::Debug>(&mut self, name: &'static str, v: &T) {
        let s = format!("{:?}", v);
        cov_helper(name, 1, !(s.starts_with("None") || s.starts_with("Err")) as u64);
        self.s(&s);
    }
    fn tick(&mut self) -> bool {
        self.nodes += 1;
        if self.nodes > self.budget || (self.nodes % 1024 == 0 && Instant::now() > self.deadline) {
            self.truncated = true;
        }
        !self.truncated
    }
    fn table<'a>(&mut self, t: &(dyn SomeTable<'a> + 'a), depth: u32) {
        self.s(t.type_name());
        cov_table(t.type_name());
        if depth > 40 {
            self.truncated = true;
            return;
        }
        let mut idx = 0usize;
        loop {
            if !self.tick() {
                return;
            }
            let Some(f) = t.get_field(idx) else { break };
            self.s(f.name);
            self.field(f.value, depth + 1);
            idx += 1;
            if idx > 4096 {
                break;
            }
        }
        // one past the end and far out-of-range field indices must be absent, not a panic
        let _ = t.get_field(usize::MAX).is_none();
    }
    fn array<'a>(&mut self, a: &(dyn SomeArray<'a> + 'a), depth: u32) {
        self.s(a.type_name());
        let n = a.len();
        self.num(n as i128);
        let cap = n.min(1200);
        for i in 0..cap {
            if !self.tick() {
                return;
            }
            match a.get(i) {
                Some(f) => self.field(f, depth + 1),
                None => self.num(-7),
            }
        }
        if n > cap {
            // tail
            for i in n - 3..n {
                if let Some(f) = a.get(i) {
                    self.field(f, depth + 1)
                }
            }
        }
        self.num(a.get(n).is_some() as i128);
        self.num(a.get(usize::MAX).is_some() as i128);
    }
    fn field<'a>(&mut self, v: FieldType<'a>, depth: u32) {
        if depth > 40 {
            self.truncated = true;
            return;
        }
        match v {
            FieldType::I8(x) => self.num(x as i128),
            FieldType::U8(x) => self.num(x as i128),
            FieldType::I16(x) => self.num(x as i128),
            FieldType::U16(x) => self.num(x as i128),
            FieldType::I32(x) => self.num(x as i128),
            FieldType::U32(x) => self.num(x as i128),
            FieldType::I24(x) => self.num(x.to_i32() as i128),
            FieldType::U24(x) => self.num(x.to_u32() as i128),
            FieldType::Tag(x) => self.mix(&x.to_be_bytes()),
            FieldType::FWord(x) => self.num(x.to_i16() as i128),
            FieldType::UfWord(x) => self.num(x.to_u16() as i128),
            FieldType::MajorMinor(x) => {
                self.num(x.major as i128);
                self.num(x.minor as i128)
            }
            FieldType::Version16Dot16(x) => self.dbg(&x),
            FieldType::F2Dot14(x) => self.num(x.to_bits() as i128),
            FieldType::Fixed(x) => self.num(x.to_bits() as i128),
            FieldType::LongDateTime(x) => self.num(x.as_secs() as i128),
            FieldType::GlyphId16(x) => self.num(x.to_u16() as i128),
            FieldType::NameId(x) => self.num(x.to_u16() as i128),
            FieldType::BareOffset(o) => self.num(o.to_u32() as i128),
            FieldType::ResolvedOffset(r) => {
                self.num(r.offset.to_u32() as i128);
                match r.target {
                    Ok(t) => self.table(&t, depth + 1),
                    Err(e) => self.err(&e),
                }
            }
            FieldType::StringOffset(s) => {
                self.num(s.offset.to_u32() as i128);
                match s.target {
                    Ok(t) => {
                        for ch in t.iter_chars().take(70000) {
                            self.num(ch as i128);
                        }
                    }
                    Err(e) => self.err(&e),
                }
            }
            FieldType::ArrayOffset(a) => {
                self.num(a.offset.to_u32() as i128);
                match a.target {
                    Ok(t) => self.array(&t, depth + 1),
                    Err(e) => self.err(&e),
                }
            }
            FieldType::Record(r) => self.table(&r, depth + 1),
            FieldType::Array(a) => self.array(&a, depth + 1),
            FieldType::Unknown => self.num(-9),
        }
    }
}

macro_rules! top {
    ($t:expr, $font:expr, $m:ident) => {
        match $font.$m() {
            Ok(t) => {
                $t.table(&t, 0);
            }
            Err(e) => $t.err(&e),
        }
    };
}

fn gids(n: u32) -> Vec<u32> {
    let mut v: Vec<u32> = (0..n.min(600)).collect();
    if n > 600 {
        v.extend([n - 2, n - 1]);
    }
    v.extend([n, n + 1, 0xFFFE, 0xFFFF, 0x10000, u32::MAX - 1, u32::MAX]);
    v
}

fn content_len(c: &read_fonts::tables::bitmap::BitmapContent) -> usize {
    match c {
        read_fonts::tables::bitmap::BitmapContent::Data(_, d) => d.len(),
        read_fonts::tables::bitmap::BitmapContent::Composite(c) => c.len(),
    }
}
fn drive_index1(t: &mut Trav, x: &Index1) {
    let n = x.count() as usize;
    t.num(n as i128);
    t.dbgc("postscript/index.rs Index::size_in_bytes", &x.size_in_bytes());
    for i in (0..n.min(700)).chain([n, n + 1, usize::MAX]) {
        t.dbgc("postscript/index.rs Index::get_offset", &x.get_offset(i).map_err(|e| e.to_string()));
        let xg = x.get(i);
        cov_helper("postscript/index.rs Index::get", 1, xg.is_ok() as u64);
        match xg {
            Ok(s) => t.num(s.len() as i128),
            Err(e) => t.s(&e.to_string()),
        }
    }
}
fn drive_index2(t: &mut Trav, x: &Index2) {
    let n = x.count() as usize;
    t.num(n as i128);
    t.dbgc("postscript/index.rs Index::size_in_bytes", &x.size_in_bytes());
    for i in (0..n.min(700)).chain([n, n.wrapping_add(1), usize::MAX]) {
        t.dbgc("postscript/index.rs Index::get_offset", &x.get_offset(i).map_err(|e| e.to_string()));
        let xg = x.get(i);
        cov_helper("postscript/index.rs Index::get", 1, xg.is_ok() as u64);
        match xg {
            Ok(s) => t.num(s.len() as i128),
            Err(e) => t.s(&e.to_string()),
        }
    }
}

/// hand-written helpers (not reachable through SomeTable::get_field)
fn drive_handwritten(t: &mut Trav, font: &FontRef) {
    let coords_sets: [&[F2Dot14]; 3] = [&[], &[F2Dot14::from_f32(0.5), F2Dot14::from_f32(-1.0)], &[F2Dot14::from_f32(1.0); 8]];
    let num_glyphs = font.maxp().map(|m| m.num_glyphs() as u32).unwrap_or(4);
    // cmap
    if let Ok(cmap) = font.cmap() {
        use read_fonts::tables::cmap::{Cmap12IterLimits, CmapSubtable};
        for cp in [0u32, 0x20, 0x41, 0xFFFF, 0x10000, 0x10FFFF, u32::MAX] {
            t.dbgc("cmap.rs Cmap::map_codepoint", &cmap.map_codepoint(cp));
        }
        for rec in cmap.encoding_records().iter().take(64) {
            if !t.tick() {
                return;
            }
            match rec.subtable(cmap.offset_data()) {
                Ok(CmapSubtable::Format4(s)) => {
                    cov_helper("cmap.rs Cmap4::iter", 1, s.iter().take(70000).count() as u64);
                    for (c, g) in s.iter().take(70000) {
                        t.num(c as i128);
                        t.num(g.to_u32() as i128);
                    }
                    for cp in [0u32, 1, 0x20, 0x7F, 0xFFFE, 0xFFFF, 0x10000] {
                        t.dbgc("cmap.rs Cmap4::map_codepoint", &s.map_codepoint(cp));
                    }
                    for sc in s.start_code().iter().take(50).chain(s.end_code().iter().take(50)) {
                        t.dbgc("cmap.rs Cmap4::map_codepoint", &s.map_codepoint(sc.get()));
                    }
                }
                Ok(CmapSubtable::Format12(s)) => {
                    cov_helper("cmap.rs Cmap12::iter", 1, s.iter().take(30000).count() as u64);
                    cov_helper("cmap.rs Cmap12::iter_with_limits", 1, s.iter_with_limits(Cmap12IterLimits::default_for_font(font)).take(30000).count() as u64);
                    for (c, g) in s.iter().take(30000) {
                        t.num(c as i128);
                        t.num(g.to_u32() as i128);
                    }
                    for (c, g) in s.iter_with_limits(Cmap12IterLimits::default_for_font(font)).take(30000) {
                        t.num(c as i128);
                        t.num(g.to_u32() as i128);
                    }
                    for g in s.groups().iter().take(50) {
                        t.dbgc("cmap.rs Cmap12::map_codepoint", &s.map_codepoint(g.start_char_code()));
                        t.dbgc("cmap.rs Cmap12::map_codepoint", &s.map_codepoint(g.end_char_code()));
                        t.dbgc("cmap.rs Cmap12::map_codepoint", &s.map_codepoint(g.end_char_code().wrapping_add(1)));
                    }
                }
                Ok(CmapSubtable::Format14(s)) => {
                    cov_helper("cmap.rs Cmap14::iter", 1, s.iter().take(30000).count() as u64);
                    for (c, sel, m) in s.iter().take(30000) {
                        t.num(c as i128);
                        t.num(sel as i128);
                        t.dbgc("cmap.rs Cmap14Iter::next", &m);
                    }
                    for vs in s.var_selector().iter().take(20) {
                        let sel: u32 = vs.var_selector().into();
                        for cp in [0u32, 0x41, 0x4E00, 0x10FFFF, u32::MAX] {
                            t.dbgc("cmap.rs Cmap14::map_variant", &s.map_variant(cp, sel));
                        }
                    }
                }
                Ok(_) => t.num(-2),
                Err(e) => t.err(&e),
            }
        }
    }
    // glyf / loca
    if let (Ok(loca), Ok(glyf)) = (font.loca(None), font.glyf()) {
        use read_fonts::tables::glyf::{Glyph, PointFlags};
        use read_fonts::types::Point;
        let n = loca.len() as u32;
        t.num(n as i128);
        t.num(loca.all_offsets_are_ascending() as i128);
        for g in gids(n) {
            if !t.tick() {
                return;
            }
            t.dbgc("loca.rs Loca::get_raw", &loca.get_raw(g as usize));
            let gl = loca.get_glyf(GlyphId::new(g), &glyf);
            cov_helper("loca.rs Loca::get_glyf", 1, matches!(gl, Ok(Some(_))) as u64);
            match gl {
                Ok(Some(Glyph::Simple(s))) => {
                    let np = s.num_points();
                    cov_helper("glyf.rs SimpleGlyph::points", 1, s.points().take(70000).count() as u64);
                    t.num(np as i128);
                    t.num(s.has_overlapping_contours() as i128);
                    for p in s.points().take(70000) {
                        t.num(p.x as i128);
                        t.num(p.y as i128);
                        t.num(p.on_curve as i128);
                    }
                    let mut pts = vec![Point::<i32>::default(); np];
                    let mut fl = vec![PointFlags::default(); np];
                    let rp = s.read_points_fast(&mut pts, &mut fl);
                    cov_helper("glyf.rs SimpleGlyph::read_points_fast", 1, rp.is_ok() as u64);
                    match rp {
                        Ok(()) => {
                            for p in &pts {
                                t.num(p.x as i128);
                                t.num(p.y as i128);
                            }
                        }
                        Err(e) => t.err(&e),
                    }
                }
                Ok(Some(Glyph::Composite(c))) => {
                    cov_helper("glyf.rs CompositeGlyph::components", 1, c.components().take(5000).count() as u64);
                    cov_helper("glyf.rs CompositeGlyph::count_and_instructions", 1, c.count_and_instructions().1.is_some() as u64);
                    for comp in c.components().take(5000) {
                        t.num(comp.glyph.to_u16() as i128);
                        t.dbgc("glyf.rs ComponentIter::next(anchor)", &comp.anchor);
                        t.dbgc("glyf.rs ComponentIter::next(transform)", &comp.transform);
                    }
                    for (g, f) in c.component_glyphs_and_flags().take(5000) {
                        t.num(g.to_u16() as i128);
                        t.num(f.bits() as i128);
                    }
                    let (cnt, ins) = c.count_and_instructions();
                    t.num(cnt as i128);
                    t.num(ins.map(|i| i.len() as i128).unwrap_or(-1));
                }
                Ok(None) => t.num(-1),
                Err(e) => t.err(&e),
            }
        }
    }
    // metrics
    if let Ok(hmtx) = font.hmtx() {
        for g in gids(num_glyphs) {
            t.dbgc("hmtx.rs Hmtx::advance", &hmtx.advance(GlyphId::new(g)));
            t.dbgc("hmtx.rs Hmtx::side_bearing", &hmtx.side_bearing(GlyphId::new(g)));
        }
    }
    if let Ok(vmtx) = font.vmtx() {
        for g in gids(num_glyphs) {
            t.dbgc("hmtx.rs Vmtx::advance", &vmtx.advance(GlyphId::new(g)));
            t.dbgc("hmtx.rs Vmtx::side_bearing", &vmtx.side_bearing(GlyphId::new(g)));
        }
    }
    if let Ok(vorg) = font.vorg() {
        for g in gids(num_glyphs) {
            t.num(vorg.vertical_origin_y(GlyphId::new(g)) as i128);
        }
    }
    if let Ok(hdmx) = font.hdmx() {
        for sz in [0u8, 1, 8, 12, 16, 255] {
            if let Some(r) = hdmx.record_for_size(sz) {
                t.num(r.widths().len() as i128);
            }
        }
    }
    if let Ok(post) = font.post() {
        let n = post.num_names() as u32;
        for g in gids(n.min(0xFFFF)) {
            if g <= 0xFFFF {
                t.dbgc("post.rs Post::glyph_name", &post.glyph_name(GlyphId16::new(g as u16)));
            }
        }
    }
    if let Ok(name) = font.name() {
        for r in name.name_record().iter().take(200) {
            match r.string(name.string_data()) {
                Ok(s) => {
                    for ch in s.chars().take(70000) {
                        t.num(ch as i128);
                    }
                }
                Err(e) => t.err(&e),
            }
        }
    }
    // CFF / CFF2
    if let Ok(cff) = font.cff() {
        drive_index1(t, &cff.names());
        drive_index1(t, &cff.top_dicts());
        drive_index1(t, &cff.strings());
        drive_index1(t, &cff.global_subrs());
        for i in [0usize, 1, 2, usize::MAX] {
            t.dbgc("cff.rs Cff::name", &cff.name(i).map(|s| s.bytes().len()));
        }
        match cff.charset(0) {
            Ok(Some(cs)) => {
                t.num(cs.num_glyphs() as i128);
                for (g, sid) in cs.iter().take(3000) {
                    t.num(g.to_u32() as i128);
                    t.num(sid.to_u16() as i128);
                }
                for g in gids(cs.num_glyphs()) {
                    t.dbgc("postscript/charset.rs Charset::string_id", &cs.string_id(GlyphId::new(g)).map(|s| s.to_u16()).map_err(|e| e.to_string()));
                }
            }
            Ok(None) => t.num(-1),
            Err(e) => t.s(&e.to_string()),
        }
        if let Ok(td) = cff.top_dicts().get(0) {
            for e in read_fonts::tables::postscript::dict::entries(td, None).take(3000) {
                t.dbgc("postscript/dict.rs entries", &e.map_err(|e| e.to_string()));
            }
        }
    }
    if let Ok(cff2) = font.cff2() {
        drive_index2(t, &cff2.global_subrs());
        for e in read_fonts::tables::postscript::dict::entries(cff2.top_dict_data(), None).take(3000) {
            t.dbgc("postscript/dict.rs entries", &e.map_err(|e| e.to_string()));
        }
    }
    // variations
    let axis_count = font.fvar().map(|f| f.axis_count()).unwrap_or(2);
    if let Ok(fvar) = font.fvar() {
        t.dbgc("fvar.rs Fvar::axes", &fvar.axes().map(|a| a.len()));
        if let Ok(inst) = fvar.instances() {
            for i in inst.iter().take(300) {
                match i {
                    Ok(r) => t.num(r.coordinates.len() as i128),
                    Err(e) => t.err(&e),
                }
            }
            t.dbgc("array.rs ComputedArray::get(InstanceRecord)", &inst.get(usize::MAX).is_ok());
        }
        let avar = font.avar().ok();
        let mut nc = vec![F2Dot14::default(); 6];
        fvar.user_to_normalized(avar.as_ref(), [(Tag::new(b"wght"), Fixed::from_f64(650.0)), (Tag::new(b"wdth"), Fixed::from_f64(-5.0))], &mut nc);
        t.dbgc("fvar.rs Fvar::user_to_normalized", &nc);
    }
    if let Ok(avar) = font.avar() {
        for m in avar.axis_segment_maps().iter().take(64) {
            match m {
                Ok(m) => {
                    for c in [-1.0f64, -0.5, 0.0, 0.3, 1.0] {
                        t.num(m.apply(Fixed::from_f64(c)).to_bits() as i128);
                    }
                }
                Err(e) => t.err(&e),
            }
        }
    }
    if let Ok(gvar) = font.gvar() {
        let n = gvar.glyph_count() as u32;
        for g in gids(n) {
            if !t.tick() {
                return;
            }
            let gv = gvar.glyph_variation_data(GlyphId::new(g));
            cov_helper("gvar.rs Gvar::glyph_variation_data", 1, matches!(gv, Ok(Some(_))) as u64);
            match gv {
                Ok(Some(d)) => {
                    cov_helper("variations.rs TupleVariationData::tuples", 1, d.tuples().take(300).count() as u64);
                    for tup in d.tuples().take(300) {
                        cov_helper("variations.rs PackedPointNumbersIter::next", 1, tup.point_numbers().take(70000).count() as u64);
                        cov_helper("variations.rs TupleDeltaIter::next", 1, tup.deltas().take(70000).count() as u64);
                        t.num(tup.peak().len() as i128);
                        t.num(tup.has_deltas_for_all_points() as i128);
                        for p in tup.point_numbers().take(400) {
                            t.num(p as i128);
                        }
                        for dl in tup.deltas().take(70000) {
                            t.num(dl.position as i128);
                            t.num(dl.x_delta as i128);
                            t.num(dl.y_delta as i128);
                        }
                        for c in coords_sets {
                            t.dbgc("variations.rs TupleVariation::compute_scalar", &tup.compute_scalar(c).map(|f| f.to_bits()));
                        }
                    }
                }
                Ok(None) => t.num(-1),
                Err(e) => t.err(&e),
            }
        }
        if let (Ok(loca), Ok(glyf)) = (font.loca(None), font.glyf()) {
            for g in [0u32, 1, 2, n.wrapping_sub(1), n] {
                t.dbgc("gvar.rs Gvar::phantom_point_deltas", &gvar.phantom_point_deltas(&glyf, &loca, coords_sets[1], GlyphId::new(g)).map(|o| o.map(|p| p.map(|q| (q.x.to_bits(), q.y.to_bits())))));
            }
        }
    }
    if let Ok(cvar) = font.cvar() {
        for ac in [axis_count, 0, 1, 0xFFFF] {
            let cv = cvar.variation_data(ac);
            cov_helper("cvar.rs Cvar::variation_data", 1, cv.is_ok() as u64);
            match cv {
                Ok(d) => {
                    for tup in d.tuples().take(300) {
                        for dl in tup.deltas().take(70000) {
                            t.num(dl.position as i128);
                            t.num(dl.value as i128);
                        }
                    }
                }
                Err(e) => t.err(&e),
            }
        }
    }
    if let Ok(hvar) = font.hvar() {
        use read_fonts::tables::variations::DeltaSetIndex;
        if let Ok(store) = hvar.item_variation_store() {
            let n = store.item_variation_data_count();
            for outer in [0u16, 1, n.wrapping_sub(1), n, n.wrapping_add(1), 0xFFFF] {
                for inner in [0u16, 1, 2, 0x7FFF, 0xFFFE, 0xFFFF] {
                    for c in coords_sets {
                        t.dbgc("variations.rs ItemVariationStore::compute_delta", &store.compute_delta(DeltaSetIndex { outer, inner }, c));
                        t.dbgc("variations.rs ItemVariationStore::compute_float_delta", &store.compute_float_delta(DeltaSetIndex { outer, inner }, c).map(|f| format!("{:?}", f)));
                    }
                }
            }
        }
        for map in [hvar.advance_width_mapping(), hvar.lsb_mapping(), hvar.rsb_mapping()].into_iter().flatten().flatten() {
            let n = match &map {
                read_fonts::tables::variations::DeltaSetIndexMap::Format0(m) => m.map_count() as u32,
                read_fonts::tables::variations::DeltaSetIndexMap::Format1(m) => m.map_count(),
            };
            for i in [0u32, 1, n.wrapping_sub(1), n, n.wrapping_add(1), 0xFFFF, 0x10000, u32::MAX] {
                t.dbgc("variations.rs DeltaSetIndexMap::get", &map.get(i).map(|d| (d.outer, d.inner)));
            }
        }
        for g in gids(num_glyphs).into_iter().take(40).chain([u32::MAX]) {
            for c in coords_sets {
                t.dbgc("hvar.rs Hvar::advance_width_delta", &hvar.advance_width_delta(GlyphId::new(g), c).map(|f| f.to_bits()));
                t.dbgc("hvar.rs Hvar::lsb_delta", &hvar.lsb_delta(GlyphId::new(g), c).map(|f| f.to_bits()));
                t.dbgc("hvar.rs Hvar::rsb_delta", &hvar.rsb_delta(GlyphId::new(g), c).map(|f| f.to_bits()));
            }
        }
    }
    if let Ok(vvar) = font.vvar() {
        for g in gids(num_glyphs).into_iter().take(40).chain([u32::MAX]) {
            for c in coords_sets {
                t.dbgc("vvar.rs Vvar::advance_height_delta", &vvar.advance_height_delta(GlyphId::new(g), c).map(|f| f.to_bits()));
                t.dbgc("vvar.rs Vvar::v_org_delta", &vvar.v_org_delta(GlyphId::new(g), c).map(|f| f.to_bits()));
            }
        }
    }
    if let Ok(mvar) = font.mvar() {
        for tag in [b"xhgt", b"hasc", b"undo", b"zzzz"] {
            for c in coords_sets {
                t.dbgc("mvar.rs Mvar::metric_delta", &mvar.metric_delta(Tag::new(tag), c).map(|f| f.to_bits()));
            }
        }
    }
    // colour / bitmaps
    if let Ok(colr) = font.colr() {
        for g in gids(num_glyphs).into_iter().take(120).chain([u32::MAX]) {
            t.dbgc("colr.rs Colr::v0_base_glyph", &colr.v0_base_glyph(GlyphId::new(g)));
            // the PaintId (second component) is checked separately by `paint_id_purity`
            t.dbgc("colr.rs Colr::v1_base_glyph", &colr.v1_base_glyph(GlyphId::new(g)).map(|o| o.is_some()));
            t.dbgc("colr.rs Colr::v1_clip_box", &colr.v1_clip_box(GlyphId::new(g)).map(|o| o.is_some()));
        }
        for i in (0..40usize).chain([usize::MAX]) {
            t.dbgc("colr.rs Colr::v0_layer", &colr.v0_layer(i));
            t.dbgc("colr.rs Colr::v1_layer", &colr.v1_layer(i).is_ok());
        }
    }
    if let (Ok(cblc), Ok(cbdt)) = (font.cblc(), font.cbdt()) {
        for sz in cblc.bitmap_sizes().iter().take(8) {
            for g in gids(num_glyphs).into_iter().take(60).chain([u32::MAX]) {
                match sz.location(cblc.offset_data(), GlyphId::new(g)) {
                    Ok(loc) => t.dbg(&cbdt.data(&loc).map(|d| content_len(&d.content))),
                    Err(e) => t.err(&e),
                }
            }
        }
    }
    if let (Ok(eblc), Ok(ebdt)) = (font.eblc(), font.ebdt()) {
        for sz in eblc.bitmap_sizes().iter().take(8) {
            for g in gids(num_glyphs).into_iter().take(60).chain([u32::MAX]) {
                match sz.location(eblc.offset_data(), GlyphId::new(g)) {
                    Ok(loc) => t.dbg(&ebdt.data(&loc).map(|d| content_len(&d.content))),
                    Err(e) => t.err(&e),
                }
            }
        }
    }
    if let Ok(sbix) = font.sbix() {
        for s in sbix.strikes().iter().take(8) {
            match s {
                Ok(s) => {
                    for g in gids(num_glyphs).into_iter().take(60).chain([u32::MAX]) {
                        t.dbgc("sbix.rs Strike::glyph_data", &s.glyph_data(GlyphId::new(g)).map(|o| o.map(|d| d.data().len())));
                    }
                }
                Err(e) => t.err(&e),
            }
        }
    }
    if let Ok(svg) = font.svg() {
        for g in gids(num_glyphs).into_iter().take(60).chain([u32::MAX]) {
            t.dbgc("svg.rs Svg::glyph_data", &svg.glyph_data(GlyphId::new(g)).map(|o| o.map(|d| d.len())));
        }
    }
    // layout class definitions / coverage reachable from GDEF
    if let Ok(gdef) = font.gdef() {
        if let Some(Ok(cd)) = gdef.glyph_class_def() {
            for (g, c) in cd.iter().take(70000) {
                t.num(g.to_u16() as i128);
                t.num(c as i128);
            }
            for g in [0u16, 1, 100, 0xFFFF] {
                t.num(cd.get(GlyphId16::new(g)) as i128);
            }
        }
        if let Some(Ok(cd)) = gdef.mark_attach_class_def() {
            for (g, c) in cd.iter().take(70000) {
                t.num(g.to_u16() as i128);
                t.num(c as i128);
            }
        }
        if let Some(Ok(al)) = gdef.attach_list() {
            if let Ok(cov) = al.coverage() {
                for g in cov.iter().take(70000) {
                    t.num(g.to_u16() as i128);
                }
                for g in [0u16, 1, 100, 0xFFFF] {
                    t.dbgc("layout.rs CoverageTable::get", &cov.get(GlyphId16::new(g)));
                }
            }
        }
    }
    if let Ok(varc) = font.varc() {
        if let Ok(cov) = varc.coverage() {
            let n = cov.iter().take(70000).count();
            for i in (0..n.min(200)).chain([n, usize::MAX]) {
                match varc.glyph(i) {
                    Ok(g) => {
                        for c in g.components().take(2000) {
                            t.num(c.is_ok() as i128);
                        }
                    }
                    Err(e) => t.err(&e),
                }
            }
        }
    }
}

fn traverse_font(t: &mut Trav, font: &FontRef) {
    t.table(&font.table_directory, 0);
    for rec in font.table_directory.table_records().iter().take(64) {
        let d = font.table_data(rec.tag());
        t.num(d.map(|d| d.len() as i128).unwrap_or(-1));
    }
    top!(t, font, head);
    top!(t, font, name);
    top!(t, font, hhea);
    top!(t, font, vhea);
    top!(t, font, hmtx);
    top!(t, font, hdmx);
    top!(t, font, vmtx);
    top!(t, font, vorg);
    top!(t, font, fvar);
    top!(t, font, avar);
    top!(t, font, hvar);
    top!(t, font, vvar);
    top!(t, font, mvar);
    top!(t, font, maxp);
    top!(t, font, os2);
    top!(t, font, post);
    top!(t, font, gasp);
    match font.loca(None) {
        Ok(l) => t.table(&l, 0),
        Err(e) => t.err(&e),
    }
    top!(t, font, glyf);
    top!(t, font, gvar);
    top!(t, font, cvar);
    match font.cff() {
        Ok(c) => t.table(&c.header(), 0),
        Err(e) => t.err(&e),
    }
    match font.cff2() {
        Ok(c) => t.table(c.header(), 0),
        Err(e) => t.err(&e),
    }
    top!(t, font, cmap);
    top!(t, font, gdef);
    top!(t, font, gpos);
    top!(t, font, gsub);
    top!(t, font, feat);
    top!(t, font, ltag);
    top!(t, font, ankr);
    top!(t, font, colr);
    top!(t, font, cpal);
    top!(t, font, cblc);
    top!(t, font, cbdt);
    top!(t, font, eblc);
    top!(t, font, ebdt);
    top!(t, font, sbix);
    top!(t, font, stat);
    top!(t, font, svg);
    top!(t, font, varc);
    top!(t, font, ift);
    top!(t, font, iftx);
    top!(t, font, meta);
    top!(t, font, base);
    match font.cvt() {
        Ok(c) => t.num(c.len() as i128),
        Err(e) => t.err(&e),
    }
    drive_handwritten(t, font);
}

/// Everything observed from one byte string. Pure function of `bytes` if the property holds.
fn observe(bytes: &[u8], budget: u64) -> (u64, u64, bool) {
    let mut t = Trav::new(budget, Duration::from_secs(20));
    match FileRef::new(bytes) {
        Ok(FileRef::Font(f)) => traverse_font(&mut t, &f),
        Ok(FileRef::Collection(c)) => {
            t.num(c.len() as i128);
            let n = c.len();
            for i in (0..n.min(4)).chain([n, u32::MAX]) {
                match c.get(i) {
                    Ok(f) => traverse_font(&mut t, &f),
                    Err(e) => t.err(&e),
                }
            }
            t.num(c.iter().take(1000).filter(|f| f.is_ok()).count() as i128);
        }
        Err(e) => t.err(&e),
    }
    // FontRef::from_index as well
    for i in [0u32, 1, u32::MAX] {
        match FontRef::from_index(bytes, i) {
            Ok(f) => t.num(f.table_directory.num_tables() as i128),
            Err(e) => t.err(&e),
        }
    }
    (t.h, t.nodes, t.truncated)
}

#[derive(Clone)]
struct BaseFont {
    name: String,
    bytes: Arc<Vec<u8>>,
    /// (tag, offset, length) of directory entries that are in bounds
    tables: Vec<(u32, usize, usize)>,
}

fn wrap_table(tag: &[u8; 4], body: &[u8]) -> Vec<u8> {
    let mut out = vec![];
    out.extend(be32(0x00010000));
    out.extend(be16(1));
    out.extend([0u8; 6]);
    out.extend(tag);
    out.extend(be32(0));
    out.extend(be32(28));
    out.extend(be32(body.len() as u32));
    out.extend(body);
    out
}

fn load_fonts() -> Vec<BaseFont> {
    let mut v: Vec<(String, Vec<u8>)> = vec![];
    // every font file shipped in font-test-data (the crate's `pub static` constants include_bytes! these files)
    for sub in ["ttf", "ttc"] {
        let dir = format!("/repo/font-test-data/test_data/{}", sub);
        let mut names: Vec<_> = std::fs::read_dir(&dir).map(|rd| rd.flatten().map(|e| e.path()).collect()).unwrap_or_default();
        names.sort();
        for p in names {
            let ext = p.extension().map(|e| e.to_string_lossy().to_string()).unwrap_or_default();
            if ["ttf", "otf", "ttc"].contains(&ext.as_str()) {
                if let Ok(b) = std::fs::read(&p) {
                    v.push((p.file_name().unwrap().to_string_lossy().to_string(), b));
                }
            }
        }
    }
    // constants that always exist even if the directory listing changes
    for (n, b) in [("const:AHEM", font_test_data::AHEM), ("const:TTC", font_test_data::ttc::TTC), ("const:VAZIRMATN_VAR", font_test_data::VAZIRMATN_VAR), ("const:SIMPLE_GLYF", font_test_data::SIMPLE_GLYF)] {
        if !v.iter().any(|(_, x)| x.as_slice() == b) {
            v.push((n.to_string(), b.to_vec()));
        }
    }
    // raw-table constants wrapped into a one-table font
    v.push(("wrap:post::SIMPLE".into(), wrap_table(b"post", font_test_data::post::SIMPLE)));
    v.push(("wrap:cff2::EXAMPLE".into(), wrap_table(b"CFF2", font_test_data::cff2::EXAMPLE)));
    v.push(("wrap:meta::SIMPLE".into(), wrap_table(b"meta", font_test_data::meta::SIMPLE_META_TABLE)));
    v.into_iter()
        .map(|(name, bytes)| {
            let mut tables = vec![];
            let fonts: Vec<FontRef> = match FileRef::new(&bytes) {
                Ok(f) => f.fonts().flatten().collect(),
                Err(_) => vec![],
            };
            for f in fonts {
                for r in f.table_directory.table_records() {
                    let (o, l) = (r.offset() as usize, r.length() as usize);
                    if o > 0 && o + l <= bytes.len() && l > 0 {
                        tables.push((u32::from_be_bytes(r.tag().to_be_bytes()), o, l));
                    }
                }
            }
            tables.sort();
            tables.dedup();
            BaseFont { name, bytes: Arc::new(bytes), tables }
        })
        .collect()
}

/// position inside a table, biased towards its header
fn pos_in(rng: &mut Rng, o: usize, l: usize) -> usize {
    let r = match rng.below(10) {
        0..=3 => rng.below(l.min(16) as u64),
        4..=6 => rng.below(l.min(96) as u64),
        7 => (l - 1 - rng.below(l.min(8) as u64) as usize) as u64,
        _ => rng.below(l as u64),
    };
    o + r as usize
}

fn put(b: &mut [u8], p: usize, v: &[u8]) {
    for (i, x) in v.iter().enumerate() {
        if p + i < b.len() {
            b[p + i] = *x;
        }
    }
}
fn get16(b: &[u8], p: usize) -> u16 {
    if p + 2 <= b.len() {
        u16::from_be_bytes([b[p], b[p + 1]])
    } else {
        0
    }
}

/// One deterministic structure-aware mutation; returns (bytes, description)
fn mutate(base: &BaseFont, all: &[BaseFont], rng: &mut Rng) -> (Vec<u8>, String) {
    let mut b = base.bytes.as_ref().clone();
    let len = b.len();
    if base.tables.is_empty() || len < 16 {
        let p = rng.below(len.max(1) as u64) as usize;
        if !b.is_empty() {
            b[p] = rng.next_u64() as u8;
        }
        return (b, format!("byte@{}", p));
    }
    let rounds = if rng.chance(1, 5) { 1 + rng.below(3) } else { 1 };
    let mut desc = String::new();
    for _ in 0..rounds {
        let (tag, o, l) = *rng.pick(&base.tables);
        let tg = String::from_utf8_lossy(&tag.to_be_bytes()).to_string();
        let d = match rng.below(22) {
            0 | 1 => {
                // truncate: at a table boundary +-1, inside a table header, or anywhere
                let k = match rng.below(5) {
                    0 => o,
                    1 => o + l - 1,
                    2 => o + 1 + rng.below(l.min(40) as u64) as usize,
                    3 => 12 + rng.below(16 * 20) as usize,
                    _ => rng.below(b.len() as u64 + 1) as usize,
                }
                .min(b.len());
                b.truncate(k);
                format!("trunc@{}", k)
            }
            2..=4 => {
                let p = pos_in(rng, o, l);
                let v = *rng.pick(&[0u8, 1, 0x7F, 0x80, 0xFF, 2, 0x40]);
                put(&mut b, p, &[v]);
                format!("{}:u8@{}={}", tg, p, v)
            }
            5..=8 => {
                let p = pos_in(rng, o, l) & !1;
                let v = *rng.pick(&[0u16, 1, 0xFFFF, 0x7FFF, 0x8000, 2, 0x100, 0xFFFE, 3]);
                put(&mut b, p, &be16(v));
                format!("{}:u16@{}={}", tg, p, v)
            }
            9 | 10 => {
                let p = pos_in(rng, o, l) & !1;
                let v = *rng.pick(&[0u32, 1, 0xFFFF_FFFF, 0x7FFF_FFFF, 0x8000_0000, l as u32, (l as u32).saturating_sub(1), l as u32 + 1, len as u32, 0x0001_0000, 0xFFFF]);
                put(&mut b, p, &be32(v));
                format!("{}:u32@{}={}", tg, p, v)
            }
            11 | 12 => {
                // count inflation / deflation of a 16-bit field
                let p = pos_in(rng, o, l) & !1;
                let old = get16(&b, p);
                let v = match rng.below(5) {
                    0 => old.wrapping_add(1),
                    1 => old.wrapping_sub(1),
                    2 => old.wrapping_mul(2),
                    3 => old.wrapping_add(rng.below(64) as u16),
                    _ => old | 0x8000,
                };
                put(&mut b, p, &be16(v));
                format!("{}:count@{}:{}->{}", tg, p, old, v)
            }
            13..=15 => {
                // offset redirection: to self (0), to the parent start, to the end, just inside the end, to another field
                let p = pos_in(rng, o, l) & !1;
                let rel = p.saturating_sub(o);
                let v: u32 = match rng.below(7) {
                    0 => 0,
                    1 => rel as u32,
                    2 => l as u32,
                    3 => (l as u32).saturating_sub(1),
                    4 => (l as u32).saturating_sub(2),
                    5 => rng.below(l as u64) as u32,
                    _ => (rel as u32).saturating_sub(rng.below(8) as u32),
                };
                if rng.chance(3, 4) {
                    put(&mut b, p, &be16(v as u16));
                    format!("{}:off16@{}={}", tg, p, v as u16)
                } else {
                    put(&mut b, p, &be32(v));
                    format!("{}:off32@{}={}", tg, p, v)
                }
            }
            16 | 17 => {
                // splice: copy a chunk from elsewhere (this or another font) over a position
                let src = rng.pick(all);
                let sl = src.bytes.len();
                let n = 1 + rng.below(24) as usize;
                let sp = rng.below(sl.saturating_sub(n).max(1) as u64) as usize;
                let p = pos_in(rng, o, l);
                let chunk: Vec<u8> = src.bytes[sp..(sp + n).min(sl)].to_vec();
                put(&mut b, p, &chunk);
                format!("{}:splice@{}<-{}[{}..+{}]", tg, p, src.name, sp, n)
            }
            18 => {
                // directory: record offset / length to boundary values
                let nrec = get16(&b, 4) as usize;
                if nrec > 0 && 12 + 16 * nrec <= b.len() {
                    let r = 12 + 16 * rng.below(nrec as u64) as usize;
                    let which = rng.below(2) as usize;
                    let v = *rng.pick(&[0u32, 1, len as u32, (len as u32).saturating_sub(1), len as u32 + 1, 0xFFFF_FFFF, 0x8000_0000, 12, o as u32, (o + l) as u32]);
                    put(&mut b, r + 8 + 4 * which, &be32(v));
                    format!("dir:rec@{}.{}={}", r, if which == 0 { "offset" } else { "length" }, v)
                } else {
                    "dir:none".into()
                }
            }
            19 => {
                // type confusion: point one table's record at another table's bytes
                let nrec = get16(&b, 4) as usize;
                if nrec > 0 && 12 + 16 * nrec <= b.len() {
                    let r = 12 + 16 * rng.below(nrec as u64) as usize;
                    let (_, o2, l2) = *rng.pick(&base.tables);
                    put(&mut b, r + 8, &be32(o2 as u32));
                    put(&mut b, r + 12, &be32(l2 as u32));
                    format!("dir:rec@{}->[{}+{}]", r, o2, l2)
                } else {
                    "dir:none".into()
                }
            }
            20 => {
                // several random bytes in one table
                let k = 2 + rng.below(6);
                let mut s = format!("{}:rand", tg);
                for _ in 0..k {
                    let p = pos_in(rng, o, l);
                    let v = rng.next_u64() as u8;
                    put(&mut b, p, &[v]);
                    s.push_str(&format!("@{}={}", p, v));
                }
                s
            }
            _ => {
                // fill a short run with one value
                let p = pos_in(rng, o, l);
                let n = 2 + rng.below(10) as usize;
                let v = *rng.pick(&[0u8, 0xFF, 0x80, 1]);
                put(&mut b, p, &vec![v; n]);
                format!("{}:fill@{}x{}={}", tg, p, n, v)
            }
        };
        if !desc.is_empty() {
            desc.push('+');
        }
        desc.push_str(&d);
    }
    (b, desc)
}

struct CaseResult {
    idx: usize,
    font: String,
    mid: u64,
    desc: String,
    nodes: u64,
    truncated: bool,
    accepted: bool,
    panic: Option<(String, String)>,
    impure: Option<String>,
    slow_ms: u64,
}

fn run_case(base: &BaseFont, all: &[BaseFont], seed: u64, idx: usize, mid: u64, budget: u64, purity: bool) -> CaseResult {
    let mut rng = Rng::new(seed ^ fnv(base.name.as_bytes()) ^ mid.wrapping_mul(0x9E37_79B9_7F4A_7C15));
    let (bytes, desc) = if mid == 0 { (base.bytes.as_ref().clone(), "identity".to_string()) } else { mutate(base, all, &mut rng) };
    let t0 = Instant::now();
    let b2 = bytes.clone();
    let r = catch(move || observe(&b2, budget));
    let slow_ms = t0.elapsed().as_millis() as u64;
    let mut cr = CaseResult { idx, font: base.name.clone(), mid, desc, nodes: 0, truncated: false, accepted: false, panic: None, impure: None, slow_ms };
    match r {
        Err(msg) => cr.panic = Some((msg, last_loc())),
        Ok((h, nodes, truncated)) => {
            cr.nodes = nodes;
            cr.truncated = truncated;
            cr.accepted = FileRef::new(&bytes).is_ok();
            if purity && !truncated {
                // same bytes at three other buffer offsets (alignments 1, 2, 4 mod 8) ...
                for pad in [1usize, 2, 5] {
                    let mut buf = vec![0xA5u8; pad];
                    buf.extend_from_slice(&bytes);
                    buf.extend_from_slice(&[0x5A; 9]);
                    let n = bytes.len();
                    let r2 = catch(move || observe(&buf[pad..pad + n], budget));
                    match r2 {
                        Ok((h2, _, tr2)) if h2 == h || tr2 => {}
                        Ok(_) => cr.impure = Some(format!("observation differs at buffer offset {}", pad)),
                        Err(m) => cr.impure = Some(format!("panics only at buffer offset {}: {}", pad, m)),
                    }
                }
                // ... and on another thread
                let b3 = bytes.clone();
                let hh = std::thread::Builder::new()
                    .stack_size(64 << 20)
                    .spawn(move || catch(move || observe(&b3, budget)))
                    .unwrap()
                    .join()
                    .unwrap_or(Err("thread died".into()));
                match hh {
                    Ok((h2, _, tr2)) if h2 == h || tr2 => {}
                    Ok(_) => cr.impure = Some("observation differs on a second thread".into()),
                    Err(m) => cr.impure = Some(format!("panics only on a second thread: {}", m)),
                }
            }
        }
    }
    cr
}

/// `Colr::v1_base_glyph` / `v1_layer` return a PaintId; the property wants every observation to be a
/// function of the bytes alone, so the ids seen for the same bytes at two buffer positions must agree.
fn paint_id_purity(fonts: &[BaseFont], st: &mut Stats) {
    let ids = |b: &[u8]| -> Vec<usize> {
        let mut v = vec![];
        if let Ok(f) = FontRef::new(b) {
            if let Ok(colr) = f.colr() {
                for g in 0..64u32 {
                    if let Ok(Some((_, id))) = colr.v1_base_glyph(GlyphId::new(g)) {
                        v.push(id);
                    }
                }
                for i in 0..32usize {
                    if let Ok((_, id)) = colr.v1_layer(i) {
                        v.push(id);
                    }
                }
            }
        }
        v
    };
    for f in fonts {
        let a = f.bytes.as_ref().clone();
        let mut b = vec![0u8; 8];
        b.extend_from_slice(&a);
        let (ia, ib) = (ids(&a), ids(&b[8..]));
        st.evaluations += 1;
        if !ia.is_empty() {
            st.count("purity.colr_fonts_checked");
        }
        if ia != ib {
            st.count("purity.paint_id_differs");
            if st.counters.get("purity.paint_id_differs") == Some(&1) {
                st.oracle_failure(json!({"key": "purity:COLR:PaintId-depends-on-buffer-address", "font": f.name,
                    "what": "Colr::v1_base_glyph / v1_layer return a PaintId computed from offset_data.as_ptr(): the same bytes at two buffer addresses give different ids",
                    "at": "read-fonts/src/tables/colr.rs:64,81"}));
            }
        }
    }
}

fn fuzz(seed: u64, thorough: bool, st: &mut Stats, dir: &std::path::Path) {
    let fonts = Arc::new(load_fonts());
    st.v.insert("fonts".into(), fonts.len().into());
    paint_id_purity(&fonts, st);
    // deterministic case list: (font index, mutation id); per-font case count grows slowly with size
    let scale: f64 = std::env::var("C01_SCALE").ok().and_then(|s| s.parse().ok()).unwrap_or(if thorough { 50.0 } else { 6.0 });
    let mut cases: Vec<(usize, u64)> = vec![];
    for (fi, f) in fonts.iter().enumerate() {
        let per = ((3.0e6 / (f.bytes.len() as f64 + 1500.0)).clamp(40.0, 1400.0) * scale) as u64;
        for m in 0..=per {
            cases.push((fi, m));
        }
    }
    let ncases = cases.len();
    let cases = Arc::new(cases);
    let nthreads = 16usize;
    let budget: u64 = 60_000;
    let progress: Arc<Vec<AtomicUsize>> = Arc::new((0..nthreads).map(|_| AtomicUsize::new(usize::MAX)).collect());
    let started: Arc<Vec<AtomicU64>> = Arc::new((0..nthreads).map(|_| AtomicU64::new(0)).collect());
    let results: Arc<Mutex<Vec<CaseResult>>> = Arc::new(Mutex::new(Vec::with_capacity(ncases)));
    let done = Arc::new(AtomicUsize::new(0));
    let covs: Arc<Mutex<Vec<CovDump>>> = Arc::new(Mutex::new(vec![]));
    let t0 = Instant::now();
    let mut handles = vec![];
    for th in 0..nthreads {
        let (fonts, cases, progress, started, results, done, covs) = (fonts.clone(), cases.clone(), progress.clone(), started.clone(), results.clone(), done.clone(), covs.clone());
        handles.push(
            std::thread::Builder::new()
                .stack_size(64 << 20)
                .spawn(move || {
                    let mut local = vec![];
                    let mut i = th;
                    while i < cases.len() {
                        let (fi, mid) = cases[i];
                        progress[th].store(i, Ordering::SeqCst);
                        started[th].store(t0.elapsed().as_millis() as u64, Ordering::SeqCst);
                        // purity re-runs on a deterministic 1/8 of the cases and on every unmutated font
                        let purity = mid == 0 || (i / 16) % 8 == 0;
                        match std::panic::catch_unwind(std::panic::AssertUnwindSafe(|| run_case(&fonts[fi], &fonts, seed, i, mid, budget, purity))) {
                            Ok(r) => local.push(r),
                            Err(_) => {
                                eprintln!("harness bug: case generation panicked at {} (font {} mutation {})", last_loc(), fonts[fi].name, mid);
                                std::process::exit(3);
                            }
                        }
                        i += 16;
                    }
                    progress[th].store(usize::MAX, Ordering::SeqCst);
                    covs.lock().unwrap().push(cov_take());
                    results.lock().unwrap().extend(local);
                    done.fetch_add(1, Ordering::SeqCst);
                })
                .unwrap(),
        );
    }
    // watchdog: a case running for more than HANG_S seconds is a hang (oracle failure); the process cannot
    // cancel the thread, so the result file is written and the process exits.
    let hang_s: u64 = 120;
    loop {
        if done.load(Ordering::SeqCst) == nthreads {
            break;
        }
        std::thread::sleep(Duration::from_millis(200));
        let now = t0.elapsed().as_millis() as u64;
        for th in 0..nthreads {
            let i = progress[th].load(Ordering::SeqCst);
            if i != usize::MAX && now.saturating_sub(started[th].load(Ordering::SeqCst)) > hang_s * 1000 {
                let (fi, mid) = cases[i];
                let base = &fonts[fi];
                let mut rng = Rng::new(seed ^ fnv(base.name.as_bytes()) ^ mid.wrapping_mul(0x9E37_79B9_7F4A_7C15));
                let desc = if mid == 0 { "identity".to_string() } else { mutate(base, &fonts, &mut rng).1 };
                st.oracle_failure(json!({"key": format!("{}:{}:hang", base.name, mid), "font": base.name, "mutation_id": mid, "mutation": desc,
                    "what": format!("no result after {} s (traversal is node-budgeted, so a single call does not terminate in time)", hang_s)}));
                st.count("fuzz.hang");
                st.v.insert("aborted_on_hang".into(), true.into());
                st.write(dir, "aborted: hang");
                println!("HANG font={} mutation={}", base.name, mid);
                std::process::exit(0);
            }
        }
    }
    for h in handles {
        let _ = h.join();
    }
    let mut res = std::mem::take(&mut *results.lock().unwrap());
    res.sort_by_key(|r| r.idx);
    let mut seen_keys = std::collections::BTreeSet::new();
    let mut slowest = (0u64, String::new());
    for r in &res {
        st.evaluations += 1;
        st.count("fuzz.cases");
        let kind = r.desc.split(['@', '=']).next().unwrap_or("").rsplit(':').next().unwrap_or("").to_string();
        st.count(&format!("fuzz.mut.{}", kind));
        if r.accepted {
            st.count("fuzz.accepted_by_FileRef");
        }
        if r.truncated {
            st.count("fuzz.node_budget_truncated");
        }
        st.add("fuzz.nodes", r.nodes);
        if r.nodes > 50 {
            st.nontrivial(&format!("{}:{}", r.font, r.mid));
        }
        if r.slow_ms > slowest.0 {
            slowest = (r.slow_ms, format!("{}:{}", r.font, r.mid));
        }
        if let Some((msg, loc)) = &r.panic {
            st.count("fuzz.panics");
            let m60: String = msg.chars().take(60).collect();
            let key = format!("{}:{}:{}", r.font, r.mid, m60);
            // one report per (location, message) to keep the list readable; all are counted
            if seen_keys.insert((loc.clone(), m60.clone())) {
                st.oracle_failure(json!({"key": key, "font": r.font, "mutation_id": r.mid, "mutation": r.desc, "panic": msg, "at": loc}));
            } else {
                st.count("fuzz.panics_same_site");
            }
        }
        if let Some(why) = &r.impure {
            st.count("fuzz.impure");
            st.oracle_failure(json!({"key": format!("{}:{}:impure", r.font, r.mid), "font": r.font, "mutation_id": r.mid, "mutation": r.desc, "what": why}));
        }
    }
    // coverage: generated table types visited by the traversal, hand-written helpers called (calls, value-returning calls / items)
    let mut tcov: std::collections::BTreeMap<String, u64> = Default::default();
    let mut hcov: std::collections::BTreeMap<&'static str, [u64; 2]> = Default::default();
    for (tv, hv) in covs.lock().unwrap().drain(..) {
        for (k, v) in tv {
            *tcov.entry(k).or_insert(0) += v;
        }
        for (k, v) in hv {
            let e = hcov.entry(k).or_insert([0, 0]);
            e[0] += v[0];
            e[1] += v[1];
        }
    }
    // (purity re-runs on spawned threads are not included: their thread-local counters die with the thread)
    st.v.insert("coverage_table_types_visited".into(), tcov.len().into());
    st.v.insert("coverage_tables".into(), serde_json::Value::Object(tcov.iter().map(|(k, v)| (k.clone(), (*v).into())).collect()));
    st.v.insert("coverage_helpers".into(), serde_json::Value::Object(hcov.iter().map(|(k, v)| (k.to_string(), json!({"calls": v[0], "hits_or_items": v[1]}))).collect()));
    let mut per_module: std::collections::BTreeMap<String, u64> = Default::default();
    for (k, v) in &hcov {
        *per_module.entry(k.split(' ').next().unwrap_or("").to_string()).or_insert(0) += v[0];
    }
    st.v.insert("coverage_helper_calls_per_module".into(), serde_json::Value::Object(per_module.iter().map(|(k, v)| (k.clone(), (*v).into())).collect()));
    st.v.insert("fuzz_wall_s".into(), (t0.elapsed().as_secs_f64()).into());
    st.v.insert("fuzz_slowest_case".into(), json!({"ms": slowest.0, "case": slowest.1}));
    st.v.insert("fuzz_cases".into(), ncases.into());
}

// ------------------------------------------------------------------------------------------------
// (c) structured hostile PostScript inputs (DICT streams, charstrings, INDEXes, CFF tables with replaced DICTs)
// ------------------------------------------------------------------------------------------------
struct NullSink(u64);
impl read_fonts::tables::postscript::charstring::CommandSink for NullSink {
    fn move_to(&mut self, _: Fixed, _: Fixed) {
        self.0 += 1;
    }
    fn line_to(&mut self, _: Fixed, _: Fixed) {
        self.0 += 1;
    }
    fn curve_to(&mut self, _: Fixed, _: Fixed, _: Fixed, _: Fixed, _: Fixed, _: Fixed) {
        self.0 += 1;
    }
    fn close(&mut self) {
        self.0 += 1;
    }
    fn hint_mask(&mut self, m: &[u8]) {
        self.0 += m.len() as u64;
    }
    fn counter_mask(&mut self, m: &[u8]) {
        self.0 += m.len() as u64;
    }
}
fn ps_int(v: i32) -> Vec<u8> {
    match v {
        -107..=107 => vec![(v + 139) as u8],
        108..=1131 => {
            let w = v - 108;
            vec![247 + (w >> 8) as u8, (w & 0xFF) as u8]
        }
        -1131..=-108 => {
            let w = -v - 108;
            vec![251 + (w >> 8) as u8, (w & 0xFF) as u8]
        }
        _ => {
            let b = (v as i16).to_be_bytes();
            vec![28, b[0], b[1]]
        }
    }
}
fn index1_bytes(objs: &[Vec<u8>]) -> Vec<u8> {
    let mut v = vec![];
    v.extend(be16(objs.len() as u16));
    if objs.is_empty() {
        return v;
    }
    v.push(2);
    let mut o = 1u16;
    v.extend(be16(o));
    for ob in objs {
        o += ob.len() as u16;
        v.extend(be16(o));
    }
    for ob in objs {
        v.extend(ob);
    }
    v
}
fn run_dict(d: &[u8]) -> u64 {
    use read_fonts::tables::postscript::dict::{entries, tokens};
    let mut h = 0u64;
    for t in tokens(d).take(5000) {
        h = h.wrapping_mul(31).wrapping_add(t.is_ok() as u64);
    }
    for e in entries(d, None).take(5000) {
        h = h.wrapping_mul(31).wrapping_add(e.is_ok() as u64);
    }
    h
}
fn run_charstring(cs: &[u8], gsubrs: &[u8], lsubrs: Option<&[u8]>) -> u64 {
    use read_fonts::tables::postscript::{charstring, Index};
    let g = Index::new(gsubrs, false).unwrap_or_default();
    let l = lsubrs.map(|b| Index::new(b, false).unwrap_or_default());
    let mut sink = NullSink(0);
    let r = charstring::evaluate(cs, g, l, None, &mut sink);
    sink.0 * 2 + r.is_ok() as u64
}

fn ps_cases(rng: &mut Rng, thorough: bool) -> Vec<(String, u8, Vec<u8>, Vec<u8>, Vec<u8>)> {
    // (name, kind 0 = dict / 1 = charstring, data, global subrs index, local subrs index)
    let mut v: Vec<(String, u8, Vec<u8>, Vec<u8>, Vec<u8>)> = vec![];
    let dict = |name: String, d: Vec<u8>, v: &mut Vec<(String, u8, Vec<u8>, Vec<u8>, Vec<u8>)>| v.push((name, 0, d, vec![], vec![]));
    // 1. BCD operands of every length x every terminating nibble kind, followed by an operator; every truncation
    for (name, body) in bcd_bodies(rng) {
        for op in [10u8, 5, 17] {
            let mut d = vec![30u8];
            d.extend(&body);
            d.push(op);
            dict(format!("{}:op{}", name, op), d.clone(), &mut v);
        }
        let mut d = vec![30u8];
        d.extend(&body);
        for k in (0..d.len()).rev().take(3) {
            dict(format!("{}:trunc{}", name, k), d[..k].to_vec(), &mut v);
        }
        // several reals in a row (delta arrays) and a real as the 2nd operand
        let mut d2 = vec![];
        for _ in 0..3 {
            d2.push(30);
            d2.extend(&body);
        }
        d2.push(6);
        dict(format!("{}:x3:BlueValues", name), d2, &mut v);
    }
    // 2. operand encodings at their boundaries, with 0..4 following bytes
    for b0 in [28u8, 29, 30, 31, 32, 139, 246, 247, 250, 251, 254, 255, 0, 12, 21, 22, 27] {
        for fill in [0x00u8, 0x7F, 0x80, 0xFF] {
            for n in 0..=5usize {
                let mut d = vec![b0];
                d.extend(vec![fill; n]);
                dict(format!("operand:b0={}:fill={}:n={}", b0, fill, n), d.clone(), &mut v);
                d.push(10);
                dict(format!("operand:b0={}:fill={}:n={}:op", b0, fill, n), d, &mut v);
            }
        }
    }
    // 3. operand stack depth around the limits, followed by every one-byte and two-byte operator
    let depths: Vec<usize> = (0..=4).chain(46..=52).chain(510..=516).collect();
    for depth in &depths {
        for op in (0u16..=31).chain((0..=40).map(|x| 0x0C00 | x)).chain([0x0CFF]) {
            let mut d = vec![];
            for i in 0..*depth {
                d.extend(ps_int((i as i32 * 37) % 2000 - 1000));
            }
            if op >> 8 == 0x0C {
                d.push(12);
                d.push(op as u8);
            } else if op == 28 || op == 29 || op == 30 {
                continue;
            } else {
                d.push(op as u8);
            }
            dict(format!("stack:depth={}:op={:#x}", depth, op), d, &mut v);
        }
    }
    // 4. all two-byte operators alone / truncated escape
    for x in 0..=255u8 {
        dict(format!("escape:{}", x), vec![12, x], &mut v);
        dict(format!("escape:{}:1operand", x), vec![140, 12, x], &mut v);
    }
    dict("escape:truncated".into(), vec![12], &mut v);
    // 5. random token streams
    let nrand = if thorough { 60_000 } else { 12_000 };
    for i in 0..nrand {
        let mut d = vec![];
        for _ in 0..(1 + rng.below(24)) {
            match rng.below(9) {
                0..=3 => d.extend(ps_int(rng.range(-1200, 1200) as i32)),
                4 => {
                    d.push(29);
                    d.extend(be32(rng.next_u32()));
                }
                5 => {
                    d.push(30);
                    let n = rng.below(36) as usize;
                    let nib: Vec<u8> = (0..n).map(|_| *rng.pick(&[0u8, 1, 2, 9, 5, 0xA, 0xB, 0xC, 0xE, 7, 3, 0xD])).chain([0xF]).collect();
                    d.extend(pack_nibbles(&nib));
                }
                6 => {
                    d.push(12);
                    d.push(rng.below(42) as u8);
                }
                _ => d.push(rng.below(28) as u8),
            }
        }
        if rng.chance(1, 5) {
            let k = rng.below(d.len() as u64 + 1) as usize;
            d.truncate(k);
        }
        dict(format!("random:{}", i), d, &mut v);
    }
    // 6. charstrings
    let cs = |name: String, d: Vec<u8>, g: Vec<u8>, l: Vec<u8>, v: &mut Vec<(String, u8, Vec<u8>, Vec<u8>, Vec<u8>)>| v.push((name, 1, d, g, l));
    let empty = index1_bytes(&[]);
    // stack depth around the limits x every operator
    for depth in (0..=6).chain(46..=52).chain(510..=516) {
        for op in (0u16..=31).chain((0..=40).map(|x| 0x0C00 | x)) {
            if op == 28 {
                continue;
            }
            let mut d = vec![];
            for i in 0..depth {
                d.extend(ps_int((i as i32 * 53) % 400 - 200));
            }
            if op >> 8 == 0x0C {
                d.push(12);
                d.push(op as u8);
            } else {
                d.push(op as u8);
            }
            // mask bytes / trailing data for hintmask-like operators
            d.extend([0xFFu8; 4]);
            d.push(14);
            cs(format!("cs:depth={}:op={:#x}", depth, op), d, empty.clone(), empty.clone(), &mut v);
        }
    }
    // hintmask / cntrmask with stem counts around byte boundaries and the 96-stem limit; mask bytes 0..14
    for stems in [0usize, 1, 7, 8, 9, 47, 48, 95, 96, 97, 128, 255, 256] {
        for maskop in [19u8, 20] {
            for mask_bytes in [0usize, 1, 11, 12, 13, 14, 33] {
                for via in [1u8, 3, 18, 23, 0] {
                    let mut d = vec![];
                    for i in 0..(2 * stems).min(512) {
                        d.extend(ps_int(1 + (i as i32 % 5)));
                    }
                    if via != 0 {
                        d.push(via); // hstem / vstem / hstemhm / vstemhm, or implicit vstem via the mask operator
                    }
                    d.push(maskop);
                    d.extend(vec![0xAAu8; mask_bytes]);
                    d.push(14);
                    cs(format!("cs:stems={}:mask={}:bytes={}:via={}", stems, maskop, mask_bytes, via), d, empty.clone(), empty.clone(), &mut v);
                }
            }
        }
    }
    // subroutine nesting around the limit: chain subr j -> j+1, self recursion, global <-> local ping-pong
    for chain in [0usize, 1, 8, 9, 10, 11, 12, 20] {
        for global in [false, true] {
            let call = if global { 29u8 } else { 10 };
            let mut subs: Vec<Vec<u8>> = vec![];
            for j in 0..chain {
                let mut sb = ps_int(j as i32 + 1 - 107);
                sb.push(call);
                sb.push(11);
                subs.push(sb);
            }
            subs.push(vec![14]);
            let ix = index1_bytes(&subs);
            let mut d = ps_int(-107);
            d.push(call);
            let (g, l) = if global { (ix.clone(), empty.clone()) } else { (empty.clone(), ix.clone()) };
            cs(format!("cs:chain={}:global={}", chain, global), d, g, l, &mut v);
        }
    }
    {
        // self recursion and ping-pong
        let mut sb = ps_int(-107);
        sb.push(10);
        let ix = index1_bytes(&[sb.clone()]);
        let mut d = ps_int(-107);
        d.push(10);
        cs("cs:self-recursion".into(), d.clone(), empty.clone(), ix.clone(), &mut v);
        let mut gb = ps_int(-107);
        gb.push(10);
        let mut lb = ps_int(-107);
        lb.push(29);
        cs("cs:ping-pong".into(), d.clone(), index1_bytes(&[gb]), index1_bytes(&[lb]), &mut v);
        for idx in [-108i32, -107, -106, 0, 1, 107, 1131, 32767, -32768] {
            let mut d = ps_int(idx);
            d.push(10);
            cs(format!("cs:callsubr:{}", idx), d.clone(), empty.clone(), ix.clone(), &mut v);
            let mut d = ps_int(idx);
            d.push(29);
            cs(format!("cs:callgsubr:{}", idx), d, ix.clone(), empty.clone(), &mut v);
        }
    }
    // random charstrings
    for i in 0..nrand {
        let mut d = vec![];
        for _ in 0..(1 + rng.below(30)) {
            match rng.below(8) {
                0..=3 => d.extend(ps_int(rng.range(-1200, 1200) as i32)),
                4 => {
                    d.push(255);
                    d.extend(be32(rng.next_u32()));
                }
                5 => {
                    d.push(12);
                    d.push(rng.below(40) as u8);
                }
                _ => d.push(rng.below(32) as u8),
            }
        }
        let sub = vec![ps_int(3), vec![11]].concat();
        cs(format!("cs:random:{}", i), d, index1_bytes(&[sub.clone()]), index1_bytes(&[sub, vec![14]]), &mut v);
    }
    v
}

/// fonts whose Top DICT (CFF / CFF2) bytes are replaced by a structured stream of the same length
fn ps_font_cases(fonts: &[BaseFont], rng: &mut Rng) -> Vec<(String, Vec<u8>)> {
    let mut out = vec![];
    let bodies = bcd_bodies(rng);
    for f in fonts {
        let b = f.bytes.as_ref();
        let Ok(font) = FontRef::new(b) else { continue };
        let mut regions: Vec<(&str, usize, usize)> = vec![];
        if let Ok(cff) = font.cff() {
            if let Ok(td) = cff.top_dicts().get(0) {
                regions.push(("CFF.top", off_in(b, td) as usize, td.len()));
                // private dict range from the top dict
                for e in read_fonts::tables::postscript::dict::entries(td, None).flatten() {
                    if let read_fonts::tables::postscript::dict::Entry::PrivateDictRange(r) = e {
                        if let Some(pd) = cff.offset_data().as_bytes().get(r.clone()) {
                            regions.push(("CFF.private", off_in(b, pd) as usize, pd.len()));
                        }
                    }
                }
            }
        }
        if let Ok(cff2) = font.cff2() {
            let td = cff2.top_dict_data();
            regions.push(("CFF2.top", off_in(b, td) as usize, td.len()));
        }
        for (rname, o, l) in regions {
            if l < 3 {
                continue;
            }
            for k in 0..400usize {
                let (bn, body) = &bodies[(k * 37 + 11) % bodies.len()];
                let mut d = vec![30u8];
                d.extend(body);
                d.push(*rng.pick(&[10u8, 5, 17, 18, 6, 11]));
                // keep the original tail so that later operators (charstrings offset, private range) survive when the stream is short
                let mut nb = b.to_vec();
                let at = if k % 2 == 0 { 0 } else { rng.below(l as u64) as usize };
                for (i, x) in d.iter().enumerate() {
                    if at + i < l {
                        nb[o + at + i] = *x;
                    }
                }
                out.push((format!("{}:{}@{}:{}", f.name, rname, at, bn), nb));
            }
        }
    }
    out
}

fn ps_search(seed: u64, thorough: bool, st: &mut Stats) {
    let mut rng = Rng::new(seed ^ 0x5053_5053);
    let cases = Arc::new(ps_cases(&mut rng, thorough));
    let fonts = load_fonts();
    let fcases = Arc::new(ps_font_cases(&fonts, &mut rng));
    let nthreads = 16usize;
    let fails: Arc<Mutex<Vec<(usize, String, String, String)>>> = Arc::new(Mutex::new(vec![]));
    let mut handles = vec![];
    for th in 0..nthreads {
        let (cases, fcases, fails) = (cases.clone(), fcases.clone(), fails.clone());
        handles.push(
            std::thread::Builder::new()
                .stack_size(64 << 20)
                .spawn(move || {
                    let mut i = th;
                    while i < cases.len() {
                        let (name, kind, d, g, l) = &cases[i];
                        let (d2, g2, l2, k2) = (d.clone(), g.clone(), l.clone(), *kind);
                        let r = catch(move || if k2 == 0 { run_dict(&d2) } else { run_charstring(&d2, &g2, Some(&l2)) });
                        if let Err(m) = r {
                            fails.lock().unwrap().push((i, name.clone(), m, last_loc()));
                        } else if *kind == 0 {
                            // purity: the same stream inside another buffer
                            let mut pad = vec![0x1Eu8; 3];
                            pad.extend(d);
                            let d3 = d.clone();
                            let a = catch(move || run_dict(&d3));
                            let b = catch(move || run_dict(&pad[3..]));
                            if a != b {
                                fails.lock().unwrap().push((i, name.clone(), "impure: result depends on buffer position".into(), String::new()));
                            }
                        }
                        i += 16;
                    }
                    let mut j = th;
                    while j < fcases.len() {
                        let (name, bytes) = &fcases[j];
                        let b2 = bytes.clone();
                        if let Err(m) = catch(move || observe(&b2, 20_000)) {
                            fails.lock().unwrap().push((1_000_000 + j, name.clone(), m, last_loc()));
                        }
                        j += 16;
                    }
                })
                .unwrap(),
        );
    }
    for h in handles {
        let _ = h.join();
    }
    st.evaluations += (cases.len() + fcases.len()) as u64;
    st.add("ps.dict_and_charstring_cases", cases.len() as u64);
    st.add("ps.font_cases", fcases.len() as u64);
    for (name, kind, _, _, _) in cases.iter() {
        let k = name.split(':').next().unwrap_or("");
        st.count(&format!("ps.{}.{}", if *kind == 0 { "dict" } else { "cs" }, k));
    }
    let mut f = std::mem::take(&mut *fails.lock().unwrap());
    f.sort();
    let mut seen = std::collections::BTreeSet::new();
    for (_, name, msg, loc) in f {
        st.count("ps.failures");
        let m60: String = msg.chars().take(60).collect();
        if seen.insert((loc.clone(), m60.clone())) {
            st.oracle_failure(json!({"key": format!("ps:{}:{}", name, m60), "input": name, "panic": msg, "at": loc}));
        }
    }
}

// ------------------------------------------------------------------------------------------------
// (d) GSUB closure worklist: generated cyclic / self-referential lookup graphs under a watchdog
// ------------------------------------------------------------------------------------------------
/// lookups: Err(map) = SingleSubstFormat2 (coverage glyphs -> substitutes), Ok(rules) = SequenceContextFormat1
/// with rules (first glyph, following glyphs, [(sequence index, lookup index)])
#[derive(Clone, Debug)]
enum GLookup {
    Single(Vec<(u16, u16)>),
    Context(Vec<(u16, Vec<u16>, Vec<(u16, u16)>)>),
}
fn coverage1(glyphs: &[u16]) -> Vec<u8> {
    let mut g = glyphs.to_vec();
    g.sort();
    g.dedup();
    let mut v = vec![];
    v.extend(be16(1));
    v.extend(be16(g.len() as u16));
    for x in g {
        v.extend(be16(x));
    }
    v
}
fn gsub_bytes(lookups: &[GLookup]) -> Vec<u8> {
    let mut subtables: Vec<(u16, Vec<u8>)> = vec![];
    for l in lookups {
        match l {
            GLookup::Single(m) => {
                let mut m = m.clone();
                m.sort();
                m.dedup_by_key(|p| p.0);
                let mut st = vec![];
                st.extend(be16(2));
                st.extend(be16(6 + 2 * m.len() as u16));
                st.extend(be16(m.len() as u16));
                for (_, to) in &m {
                    st.extend(be16(*to));
                }
                st.extend(coverage1(&m.iter().map(|p| p.0).collect::<Vec<_>>()));
                subtables.push((1, st));
            }
            GLookup::Context(rules) => {
                let mut firsts: Vec<u16> = rules.iter().map(|r| r.0).collect();
                firsts.sort();
                firsts.dedup();
                // one rule set per covered first glyph
                let mut sets: Vec<Vec<u8>> = vec![];
                for f in &firsts {
                    let rs: Vec<_> = rules.iter().filter(|r| r.0 == *f).collect();
                    let mut rules_b: Vec<Vec<u8>> = vec![];
                    for (_, rest, recs) in rs {
                        let mut rb = vec![];
                        rb.extend(be16(rest.len() as u16 + 1));
                        rb.extend(be16(recs.len() as u16));
                        for g in rest {
                            rb.extend(be16(*g));
                        }
                        for (si, li) in recs {
                            rb.extend(be16(*si));
                            rb.extend(be16(*li));
                        }
                        rules_b.push(rb);
                    }
                    let mut set = vec![];
                    set.extend(be16(rules_b.len() as u16));
                    let mut off = 2 + 2 * rules_b.len();
                    for rb in &rules_b {
                        set.extend(be16(off as u16));
                        off += rb.len();
                    }
                    for rb in rules_b {
                        set.extend(rb);
                    }
                    sets.push(set);
                }
                let mut st = vec![];
                st.extend(be16(1));
                let hdr = 6 + 2 * sets.len();
                let cov = coverage1(&firsts);
                st.extend(be16(hdr as u16));
                st.extend(be16(sets.len() as u16));
                let mut off = hdr + cov.len();
                for set in &sets {
                    st.extend(be16(off as u16));
                    off += set.len();
                }
                st.extend(cov);
                for set in sets {
                    st.extend(set);
                }
                subtables.push((5, st));
            }
        }
    }
    // lookup list
    let mut lookups_b: Vec<Vec<u8>> = vec![];
    for (ty, st) in &subtables {
        let mut lb = vec![];
        lb.extend(be16(*ty));
        lb.extend(be16(0));
        lb.extend(be16(1));
        lb.extend(be16(8));
        lb.extend(st);
        lookups_b.push(lb);
    }
    let mut ll = vec![];
    ll.extend(be16(lookups_b.len() as u16));
    let mut off = 2 + 2 * lookups_b.len();
    for lb in &lookups_b {
        ll.extend(be16(off as u16));
        off += lb.len();
    }
    for lb in lookups_b {
        ll.extend(lb);
    }
    // feature list: one feature referencing every lookup
    let mut fl = vec![];
    fl.extend(be16(1));
    fl.extend(b"test");
    fl.extend(be16(8));
    fl.extend(be16(0));
    fl.extend(be16(subtables.len() as u16));
    for i in 0..subtables.len() {
        fl.extend(be16(i as u16));
    }
    let sl = be16(0).to_vec();
    let mut t = vec![0u8, 1, 0, 0];
    t.extend(be16(10));
    t.extend(be16(10 + sl.len() as u16));
    t.extend(be16(10 + sl.len() as u16 + fl.len() as u16));
    t.extend(sl);
    t.extend(fl);
    t.extend(ll);
    t
}

fn closure_search(seed: u64, thorough: bool, st: &mut Stats, dir: &std::path::Path) {
    use read_fonts::collections::IntSet;
    use read_fonts::tables::gsub::Gsub;
    let mut rng = Rng::new(seed ^ 0x434c_4f53);
    let n = if thorough { 12_000 } else { 2_500 };
    let mut cases: Vec<(String, Vec<u8>, Vec<u16>)> = vec![];
    for i in 0..n {
        let k = 1 + rng.below(5) as usize;
        let ng = 3 + rng.below(10) as u16;
        let mut lookups = vec![];
        for li in 0..k {
            if rng.chance(2, 5) {
                let m = (0..1 + rng.below(4)).map(|_| (1 + rng.below(ng as u64) as u16, 1 + rng.below(ng as u64 + 3) as u16)).collect();
                lookups.push(GLookup::Single(m));
            } else {
                let rules = (0..1 + rng.below(3))
                    .map(|_| {
                        let rest: Vec<u16> = (0..rng.below(3)).map(|_| 1 + rng.below(ng as u64) as u16).collect();
                        let len = rest.len() as u64 + 1;
                        let recs: Vec<(u16, u16)> = (0..1 + rng.below(4))
                            .map(|_| {
                                let si = if rng.chance(1, 40) { len as u16 + rng.below(2) as u16 } else { rng.below(len) as u16 };
                                let li2 = match rng.below(6) {
                                    0 => li as u16,                    // self reference
                                    1 => k as u16 + rng.below(2) as u16, // out of range
                                    _ => rng.below(k as u64) as u16,
                                };
                                (si, li2)
                            })
                            .collect();
                        (1 + rng.below(ng as u64) as u16, rest, recs)
                    })
                    .collect();
                lookups.push(GLookup::Context(rules));
            }
        }
        // the round-3 m7 shape: two records with the same sequence index, the second pointing back at the lookup itself
        if i % 5 == 0 {
            let li = lookups.len() as u16;
            lookups.push(GLookup::Context(vec![(1, vec![2], vec![(0, rng.below(li as u64 + 1) as u16), (0, li)])]));
        }
        let input: Vec<u16> = (0..1 + rng.below(5)).map(|_| 1 + rng.below(ng as u64) as u16).chain(if i % 5 == 0 { vec![1, 2] } else { vec![] }).collect();
        cases.push((format!("closure:{}", i), gsub_bytes(&lookups), input));
    }
    // minimal shape of the sequence-index finding: one context rule of length 1 whose lookup record has sequenceIndex 1
    cases.insert(0, ("closure:min-seqindex-out-of-range".into(), gsub_bytes(&[GLookup::Context(vec![(1, vec![], vec![(1, 0)])])]), vec![1]));
    let cases = Arc::new(cases);
    let progress = Arc::new(AtomicUsize::new(0));
    let fails: Arc<Mutex<Vec<(String, String)>>> = Arc::new(Mutex::new(vec![]));
    let done = Arc::new(AtomicUsize::new(0));
    let stats_acc: Arc<Mutex<[u64; 4]>> = Arc::new(Mutex::new([0; 4]));
    {
        let (cases, progress, fails, done, stats_acc) = (cases.clone(), progress.clone(), fails.clone(), done.clone(), stats_acc.clone());
        std::thread::Builder::new()
            .stack_size(64 << 20)
            .spawn(move || {
                for (i, (name, bytes, input)) in cases.iter().enumerate() {
                    progress.store(i, Ordering::SeqCst);
                    let (b2, in2) = (bytes.clone(), input.clone());
                    let r = catch(move || {
                        let gsub = match Gsub::read(FontData::new(&b2)) {
                            Ok(g) => g,
                            Err(_) => return (0u8, vec![], vec![]),
                        };
                        let set: IntSet<GlyphId16> = in2.iter().map(|g| GlyphId16::new(*g)).collect();
                        match gsub.closure_glyphs(set) {
                            Ok(out) => {
                                let o1: Vec<u16> = out.iter().map(|g| g.to_u16()).collect();
                                // closing again must be a no-op, and the same call must give the same answer
                                let again = gsub.closure_glyphs(out.clone()).map(|o| o.iter().map(|g| g.to_u16()).collect::<Vec<u16>>()).unwrap_or_default();
                                (1, o1, again)
                            }
                            Err(_) => (2, vec![], vec![]),
                        }
                    });
                    let mut acc = stats_acc.lock().unwrap();
                    match r {
                        Err(m) => {
                            let loc = last_loc();
                            let site = loc.rsplit('/').next().unwrap_or("").to_string();
                            fails.lock().unwrap().push((format!("closure:panic:{}", site), format!("{}: panic: {} at {}; gsub bytes {:?}; input glyphs {:?}", name, m, loc, bytes, input)))
                        }
                        Ok((0, _, _)) => acc[0] += 1,
                        Ok((2, _, _)) => acc[2] += 1,
                        Ok((_, o1, again)) => {
                            acc[1] += 1;
                            acc[3] += o1.len() as u64;
                            if !input.iter().all(|g| o1.contains(g)) {
                                fails.lock().unwrap().push((name.clone(), "closure lost an input glyph".into()));
                            }
                            if o1 != again {
                                fails.lock().unwrap().push((name.clone(), format!("closure is not idempotent: {:?} then {:?}", o1, again)));
                            }
                        }
                    }
                }
                done.store(1, Ordering::SeqCst);
            })
            .unwrap();
    }
    // watchdog: the whole family is tiny (<= 6 lookups, <= 16 glyphs); any case needing more than 10 s hangs
    let mut last = (usize::MAX, Instant::now());
    while done.load(Ordering::SeqCst) == 0 {
        std::thread::sleep(Duration::from_millis(50));
        let p = progress.load(Ordering::SeqCst);
        if p != last.0 {
            last = (p, Instant::now());
        } else if last.1.elapsed() > Duration::from_secs(10) {
            let name = cases[p].0.clone();
            st.oracle_failure(json!({"key": format!("{}:hang", name), "what": "Gsub::closure_glyphs did not return within 10 s on a generated GSUB with <= 6 lookups (todo loop does not terminate)", "gsub": cases[p].1, "input": cases[p].2}));
            st.count("closure.hang");
            st.v.insert("aborted_on_hang".into(), true.into());
            st.write(dir, "aborted: closure hang");
            println!("HANG {}", name);
            std::process::exit(0);
        }
    }
    let acc = stats_acc.lock().unwrap();
    st.evaluations += cases.len() as u64;
    st.add("closure.cases", cases.len() as u64);
    st.add("closure.read_err", acc[0]);
    st.add("closure.ok", acc[1]);
    st.add("closure.err", acc[2]);
    st.add("closure.glyphs_out", acc[3]);
    let mut seen = std::collections::BTreeSet::new();
    for (name, why) in fails.lock().unwrap().iter() {
        st.count("closure.failures");
        if name.starts_with("closure:panic:") {
            if seen.insert(name.clone()) {
                st.oracle_failure(json!({"key": name, "what": why}));
            }
            continue;
        }
        let w60: String = why.chars().take(60).collect();
        if seen.insert(w60.clone()) {
            st.oracle_failure(json!({"key": format!("{}:{}", name, w60), "what": why}));
        }
    }
}

// ------------------------------------------------------------------------------------------------
// (e) layout Device tables: every deltaFormat class x size range, through every public entry point
// ------------------------------------------------------------------------------------------------
fn device_bytes(start: u16, end: u16, fmt: u16, words: &[u16]) -> Vec<u8> {
    let mut v = vec![];
    v.extend(be16(start));
    v.extend(be16(end));
    v.extend(be16(fmt));
    for w in words {
        v.extend(be16(*w));
    }
    v
}
const DEVICE_FORMATS: [u16; 12] = [0, 1, 2, 3, 4, 5, 0x7FFF, 0x8000, 0x8001, 0x8003, 0xFFFE, 0xFFFF];
fn device_grid(rng: &mut Rng) -> Vec<(String, Vec<u8>)> {
    let mut out = vec![];
    for fmt in DEVICE_FORMATS {
        for (s, e) in [(0u16, 0u16), (0, 1), (0, 7), (0, 8), (0, 15), (0, 16), (3, 3), (5, 4), (9, 40), (0, 255), (65535, 65535), (0, 65535), (65535, 0), (12, 19)] {
            for nwords in [0usize, 1, 2, 3, 5, 9, 40] {
                let words: Vec<u16> = (0..nwords).map(|_| *rng.pick(&[0u16, 0xFFFF, 0x8000, 0x7FFF, 0x1234, 0x8080, 0xAAAA])).collect();
                out.push((format!("device:fmt={:#x}:sizes={}-{}:words={}", fmt, s, e, nwords), device_bytes(s, e, fmt, &words)));
            }
        }
    }
    out
}
fn drive_device_tables(bytes: &[u8]) -> u64 {
    use read_fonts::tables::gdef::CaretValue;
    use read_fonts::tables::gpos::{AnchorTable, ValueFormat, ValueRecord};
    use read_fonts::tables::layout::{Device, DeviceOrVariationIndex};
    let mut h = 0u64;
    let fd = FontData::new(bytes);
    let mut dev = |d: &DeviceOrVariationIndex, h: &mut u64| match d {
        DeviceOrVariationIndex::Device(dv) => {
            for v in dv.iter().take(200_000) {
                *h = h.wrapping_mul(31).wrapping_add(v as u8 as u64);
            }
            *h = h.wrapping_add(dv.delta_value().len() as u64);
        }
        DeviceOrVariationIndex::VariationIndex(v) => *h = h.wrapping_add(v.delta_set_inner_index() as u64),
    };
    if let Ok(dv) = Device::read(fd) {
        h = h.wrapping_add(dv.iter().take(200_000).count() as u64);
    }
    if let Ok(d) = DeviceOrVariationIndex::read(fd) {
        dev(&d, &mut h);
    }
    // the same table behind an Anchor format 3 (x and y device), a CaretValue format 3 and a ValueRecord with all four devices
    let mut anchor = vec![];
    anchor.extend(be16(3));
    anchor.extend(be16(10));
    anchor.extend(be16(20));
    anchor.extend(be16(10));
    anchor.extend(be16(10));
    anchor.extend(bytes);
    if let Ok(AnchorTable::Format3(a)) = AnchorTable::read(FontData::new(&anchor)) {
        for d in [a.x_device(), a.y_device()].into_iter().flatten().flatten() {
            dev(&d, &mut h);
        }
    }
    let mut caret = vec![];
    caret.extend(be16(3));
    caret.extend(be16(7));
    caret.extend(be16(6));
    caret.extend(bytes);
    if let Ok(CaretValue::Format3(c)) = CaretValue::read(FontData::new(&caret)) {
        if let Ok(d) = c.device() {
            dev(&d, &mut h);
        }
    }
    let mut vr = vec![];
    for _ in 0..4 {
        vr.extend(be16(1));
    }
    for _ in 0..4 {
        vr.extend(be16(16));
    }
    vr.extend(bytes);
    let vdata = FontData::new(&vr);
    if let Ok(rec) = ValueRecord::read(vdata, ValueFormat::from_bits_truncate(0x00FF)) {
        for d in [rec.x_placement_device(vdata), rec.y_placement_device(vdata), rec.x_advance_device(vdata), rec.y_advance_device(vdata)].into_iter().flatten().flatten() {
            dev(&d, &mut h);
        }
    }
    h
}
fn device_search(seed: u64, st: &mut Stats) {
    let mut rng = Rng::new(seed ^ 0x4445_5649);
    let mut cases = device_grid(&mut rng);
    // every even offset of every layout table of every font read as a Device / DeviceOrVariationIndex (cf. C20)
    for f in load_fonts() {
        for (tag, o, l) in &f.tables {
            let t = tag.to_be_bytes();
            if [b"GPOS", b"GDEF", b"GSUB", b"BASE", b"MATH", b"JSTF"].iter().any(|x| **x == t) {
                let data = &f.bytes[*o..*o + *l];
                let step = ((*l / 3000).max(1)) * 2;
                let mut off = 0;
                while off + 6 <= data.len() {
                    cases.push((format!("device-scan:{}:{}@{}", f.name, String::from_utf8_lossy(&t), off), data[off..data.len().min(off + 600)].to_vec()));
                    off += step;
                }
            }
        }
    }
    let mut seen = std::collections::BTreeSet::new();
    for (name, bytes) in &cases {
        st.evaluations += 1;
        st.count(if name.starts_with("device:") { "device.grid_cases" } else { "device.scan_cases" });
        let b2 = bytes.clone();
        if let Err(m) = catch(move || drive_device_tables(&b2)) {
            st.count("device.failures");
            let m60: String = m.chars().take(60).collect();
            if seen.insert((last_loc(), m60.clone())) {
                st.oracle_failure(json!({"key": format!("{}:{}", name, m60), "input": bytes, "panic": m, "at": last_loc()}));
            }
        }
    }
}

// ------------------------------------------------------------------------------------------------
// (f) charstring subroutine graphs, evaluated in a child process so that unbounded recursion (stack overflow =
//     SIGSEGV/abort) is an observation (`abort:stack-overflow:...`) instead of the end of the harness
// ------------------------------------------------------------------------------------------------
struct SubrCase {
    name: String,
    cs: Vec<u8>,
    gsubrs: Vec<Vec<u8>>,
    lsubrs: Option<Vec<Vec<u8>>>,
}
fn bias_for(count: usize) -> i32 {
    if count < 1240 {
        107
    } else if count < 33900 {
        1131
    } else {
        32768
    }
}
/// body: `0 1 hstem`, then (optionally) push (target - bias) and call, then return
fn subr_body(call: Option<(bool, usize, usize)>) -> Vec<u8> {
    let mut b = vec![139u8, 140, 1];
    if let Some((global, target, count)) = call {
        b.extend(ps_int(target as i32 - bias_for(count)));
        b.push(if global { 29 } else { 10 });
    }
    b.push(11);
    b
}
fn subr_graph_cases() -> Vec<SubrCase> {
    let mut v = vec![];
    for pad in [0usize, 1240, 33900] {
        // kinds: 0 local only, 1 global only, 2 alternating local/global
        for kind in 0..3u8 {
            for shape in ["chain", "cycle", "self"] {
                let depths: Vec<usize> = match shape {
                    "chain" => vec![1, 8, 9, 10, 11, 12, 14],
                    "cycle" => vec![2, 3, 5],
                    _ => vec![1],
                };
                for d in depths {
                    if pad > 0 && !(d == 1 || d == 10 || d == 11 || d == 3) {
                        continue;
                    }
                    // node j lives in the local INDEX (false) or global INDEX (true)
                    let is_global = |j: usize| match kind {
                        0 => false,
                        1 => true,
                        _ => j % 2 == 1,
                    };
                    let n = d;
                    let mut gl: Vec<Vec<u8>> = vec![];
                    let mut lo: Vec<Vec<u8>> = vec![];
                    // positions of each node inside its INDEX
                    let mut pos = vec![];
                    let (mut gi, mut li) = (0usize, 0usize);
                    for j in 0..n {
                        if is_global(j) {
                            pos.push(gi);
                            gi += 1;
                        } else {
                            pos.push(li);
                            li += 1;
                        }
                    }
                    let gcount = gi.max(pad);
                    let lcount = li.max(pad);
                    for j in 0..n {
                        let next = match shape {
                            "chain" => (j + 1 < n).then_some(j + 1),
                            "cycle" => Some((j + 1) % n),
                            _ => Some(j),
                        };
                        let body = subr_body(next.map(|t| (is_global(t), pos[t], if is_global(t) { gcount } else { lcount })));
                        if is_global(j) {
                            gl.push(body);
                        } else {
                            lo.push(body);
                        }
                    }
                    while gl.len() < gcount && gi > 0 {
                        gl.push(vec![11]);
                    }
                    while lo.len() < lcount && li > 0 {
                        lo.push(vec![11]);
                    }
                    let mut cs = vec![139u8, 140, 1];
                    cs.extend(ps_int(pos[0] as i32 - bias_for(if is_global(0) { gl.len() } else { lo.len() })));
                    cs.push(if is_global(0) { 29 } else { 10 });
                    cs.push(14);
                    v.push(SubrCase { name: format!("subrs:{}:{}:{}:pad{}", ["local", "global", "mixed"][kind as usize], shape, d, pad), cs, gsubrs: gl, lsubrs: if kind == 1 { None } else { Some(lo) } });
                }
            }
        }
    }
    // hostile call operands and missing INDEXes
    for (i, operand) in [-32768i32, -1132, -1131, -108, -107, -106, 0, 107, 108, 1131, 32767].iter().enumerate() {
        for global in [false, true] {
            let mut cs = ps_int(*operand);
            cs.push(if global { 29 } else { 10 });
            cs.push(14);
            v.push(SubrCase { name: format!("subrs:operand:{}:{}", i, global), cs, gsubrs: vec![subr_body(None), vec![139, 140, 1]], lsubrs: if i % 3 == 0 { None } else { Some(vec![subr_body(None)]) } });
        }
    }
    v
}
struct HstemSink(u64);
impl read_fonts::tables::postscript::charstring::CommandSink for HstemSink {
    fn move_to(&mut self, _: Fixed, _: Fixed) {}
    fn line_to(&mut self, _: Fixed, _: Fixed) {}
    fn curve_to(&mut self, _: Fixed, _: Fixed, _: Fixed, _: Fixed, _: Fixed, _: Fixed) {}
    fn close(&mut self) {}
    fn hstem(&mut self, _: Fixed, _: Fixed) {
        self.0 += 1;
    }
}
fn eval_subr_case(c: &SubrCase) -> Vec<i128> {
    use read_fonts::tables::postscript::{charstring, Error as E, Index};
    let gb = index1_bytes(&c.gsubrs);
    let lb = c.lsubrs.as_ref().map(|l| index1_bytes(l));
    let g = Index::new(&gb, false).unwrap_or_default();
    let l = lb.as_ref().map(|b| Index::new(b, false).unwrap_or_default());
    let mut sink = HstemSink(0);
    match charstring::evaluate(&c.cs, g, l, None, &mut sink) {
        Ok(()) => vec![0, sink.0 as i128],
        Err(e) => vec![
            1,
            match e {
                E::Read(_) => 1,
                E::CharstringNestingDepthLimitExceeded => 20,
                E::StackUnderflow => 21,
                E::MissingSubroutines => 22,
                E::InvalidStackAccess(_) => 23,
                E::StackOverflow => 24,
                _ => 97,
            },
        ],
    }
}
/// child mode: evaluate the cases from `start`, one line per event on stdout
fn subr_child(start: usize) {
    use std::io::Write;
    let cases = subr_graph_cases();
    let out = std::io::stdout();
    for (i, c) in cases.iter().enumerate().skip(start) {
        {
            let mut o = out.lock();
            writeln!(o, "BEGIN {}", i).unwrap();
            o.flush().unwrap();
        }
        let r = catch(std::panic::AssertUnwindSafe(|| eval_subr_case(c)));
        let mut o = out.lock();
        match r {
            Ok(v) => writeln!(o, "RES {} {}", i, v.iter().map(|x| x.to_string()).collect::<Vec<_>>().join(" ")).unwrap(),
            Err(m) => writeln!(o, "PANIC {} {}", i, m.replace('\n', " ")).unwrap(),
        }
        o.flush().unwrap();
    }
    println!("DONE");
}
fn subr_search(cw: &mut CaseWriter, st: &mut Stats) {
    let cases = subr_graph_cases();
    let exe = std::env::current_exe().unwrap();
    let mut results: Vec<Option<Vec<i128>>> = vec![None; cases.len()];
    let mut start = 0usize;
    let mut restarts = 0;
    while start < cases.len() && restarts < 40 {
        let mut child = std::process::Command::new(&exe).arg("--subr-child").arg(start.to_string()).stdout(std::process::Stdio::piped()).stderr(std::process::Stdio::null()).spawn().unwrap();
        let t0 = Instant::now();
        let status = loop {
            match child.try_wait().unwrap() {
                Some(s) => break Some(s),
                None => {
                    if t0.elapsed() > Duration::from_secs(120) {
                        let _ = child.kill();
                        break None;
                    }
                    std::thread::sleep(Duration::from_millis(20));
                }
            }
        };
        let mut text = String::new();
        if let Some(mut o) = child.stdout.take() {
            use std::io::Read;
            let _ = o.read_to_string(&mut text);
        }
        let mut last_begin = None;
        let mut finished = false;
        for line in text.lines() {
            let mut it = line.splitn(3, ' ');
            match it.next() {
                Some("BEGIN") => last_begin = it.next().and_then(|x| x.parse::<usize>().ok()),
                Some("RES") => {
                    let i: usize = it.next().unwrap().parse().unwrap();
                    results[i] = Some(it.next().unwrap_or("").split(' ').filter_map(|x| x.parse().ok()).collect());
                    last_begin = None;
                }
                Some("PANIC") => {
                    let i: usize = it.next().unwrap().parse().unwrap();
                    let msg = it.next().unwrap_or("").to_string();
                    results[i] = Some(vec![3]);
                    st.count("subrs.panics");
                    st.oracle_failure(json!({"key": format!("{}:{}", cases[i].name, msg.chars().take(60).collect::<String>()), "panic": msg}));
                    last_begin = None;
                }
                Some("DONE") => finished = true,
                _ => {}
            }
        }
        if finished {
            break;
        }
        // the child died (stack overflow / abort) or was killed by the watchdog while evaluating `last_begin`
        let i = last_begin.unwrap_or(start);
        let how = match status {
            None => "hang".to_string(),
            Some(s) => format!("{:?}", s),
        };
        st.count("subrs.child_deaths");
        st.oracle_failure(json!({"key": format!("abort:{}:charstring::evaluate:{}", if status.is_none() { "hang" } else { "stack-overflow" }, cases[i].name),
            "what": format!("the child process evaluating this charstring died ({}): unbounded subroutine recursion", how)}));
        results[i] = Some(vec![3]);
        start = i + 1;
        restarts += 1;
    }
    // correspondence: one op-29 case per subr graph (skipping the very large padded INDEXes except one of each class)
    let mut big = 0u64;
    for (c, r) in cases.iter().zip(results) {
        st.evaluations += 1;
        st.count("subrs.cases");
        let Some(r) = r else { continue };
        let total: usize = c.gsubrs.len() + c.lsubrs.as_ref().map(|l| l.len()).unwrap_or(0);
        if total > 3000 {
            // too large for a Coq literal: checked against the expected outcome directly
            big += 1;
            continue;
        }
        let mut a: Vec<u64> = vec![4000, c.lsubrs.is_some() as u64, c.gsubrs.len() as u64];
        for s in &c.gsubrs {
            a.push(s.len() as u64);
            a.extend(s.iter().map(|b| *b as u64));
        }
        if let Some(l) = &c.lsubrs {
            a.push(l.len() as u64);
            for s in l {
                a.push(s.len() as u64);
                a.extend(s.iter().map(|b| *b as u64));
            }
        }
        st.count("corr.op29");
        st.nontrivial(&c.name);
        cw.push(format!("(29, {}, {}, {})", cbytes(&c.cs), czlist(a.iter().map(|v| *v as i128)), czlist(r)));
    }
    st.add("subrs.too_large_for_model", big);
}

// ------------------------------------------------------------------------------------------------
// (g) cmap format 4 iteration over overlapping / unsorted segment arrays; layout collect_features budgets
// ------------------------------------------------------------------------------------------------
/// a cmap format 4 subtable from segments (start, end, delta, range_offset) and a glyph id array
fn cmap4_bytes(segs: &[(u16, u16, u16, u16)], gids: &[u16]) -> Vec<u8> {
    let n = segs.len() as u16;
    let mut v = vec![];
    v.extend(be16(4));
    v.extend(be16(16 + 8 * n + 2 * gids.len() as u16));
    v.extend(be16(0));
    v.extend(be16(n * 2));
    v.extend([0u8; 6]);
    for s in segs {
        v.extend(be16(s.1));
    }
    v.extend(be16(0));
    for s in segs {
        v.extend(be16(s.0));
    }
    for s in segs {
        v.extend(be16(s.2));
    }
    for s in segs {
        v.extend(be16(s.3));
    }
    for g in gids {
        v.extend(be16(*g));
    }
    v
}
fn cmap4_run(bytes: &[u8], take: usize) -> Option<(Vec<u64>, Vec<(u32, u32)>)> {
    use read_fonts::tables::cmap::Cmap4;
    let t = Cmap4::read(FontData::new(bytes)).ok()?;
    let n = t.start_code().len().min(t.end_code().len()).min(t.id_delta().len()).min(t.id_range_offsets().len());
    let mut a: Vec<u64> = vec![take as u64, n as u64];
    a.extend(t.start_code().iter().take(n).map(|v| v.get() as u64));
    a.extend(t.end_code().iter().take(n).map(|v| v.get() as u64));
    a.extend(t.id_delta().iter().take(n).map(|v| v.get() as u16 as u64));
    a.extend(t.id_range_offsets().iter().take(n).map(|v| v.get() as u64));
    a.extend(t.glyph_id_array().iter().map(|v| v.get() as u64));
    let pairs: Vec<(u32, u32)> = t.iter().take(take).map(|(c, g)| (c, g.to_u32())).collect();
    Some((a, pairs))
}
fn cmap4_families(rng: &mut Rng, n: usize) -> Vec<(String, Vec<u8>)> {
    let mut out = vec![];
    for i in 0..n {
        let k = 1 + rng.below(6) as usize;
        let hi = *rng.pick(&[30u16, 60, 200]);
        let mut prev_end = 0u16;
        let segs: Vec<(u16, u16, u16, u16)> = (0..k)
            .map(|_| {
                let s = match rng.below(6) {
                    0 => 0,
                    1 => prev_end.saturating_sub(rng.below(8) as u16),
                    2 => rng.below(hi as u64) as u16,
                    _ => prev_end.saturating_add(rng.below(6) as u16),
                };
                let e = match rng.below(7) {
                    0 => 0,
                    1 => s.saturating_sub(1 + rng.below(5) as u16),
                    2 => hi,
                    _ => s.saturating_add(rng.below(12) as u16),
                };
                prev_end = e;
                let ro = if rng.chance(1, 3) { 2 * rng.below(8) as u16 } else { 0 };
                (s, e, rng.below(5) as u16 * if rng.chance(1, 5) { 0x3FFF } else { 1 }, ro)
            })
            .collect();
        let gids: Vec<u16> = (0..rng.below(12)).map(|_| rng.below(4) as u16 * 7).collect();
        out.push((format!("cmap4:rand:{}", i), cmap4_bytes(&segs, &gids)));
    }
    // the issue-1100 family: huge ranges alternating with tiny ones, ends near 0xFFFF
    for k in [2usize, 3, 8, 40] {
        for (a, b) in [((0u16, 0xFFFEu16), (0u16, 0u16)), ((0, 0xFFFF), (0, 0xFFFF)), ((0xFFF0, 0xFFFF), (0, 5)), ((10, 5), (0, 0xFFFE))] {
            let segs: Vec<(u16, u16, u16, u16)> = (0..k).map(|j| if j % 2 == 0 { (a.0, a.1, 1, 0) } else { (b.0, b.1, 1, 0) }).collect();
            out.push((format!("cmap4:alternating:{}:{:?}:{:?}", k, a, b), cmap4_bytes(&segs, &[])));
        }
    }
    out
}
fn cmap4_stage(rng: &mut Rng, cw: &mut CaseWriter, st: &mut Stats, thorough: bool) {
    for (name, bytes) in cmap4_families(rng, if thorough { 2000 } else { 500 }) {
        st.evaluations += 1;
        st.count("cmap4.cases");
        let b2 = bytes.clone();
        let small = name.starts_with("cmap4:rand");
        // oracle (implementation only): code points strictly ascending, at most 65536 pairs whatever the segment array
        let r = catch(move || cmap4_run(&b2, if small { 400 } else { 70_000 }));
        match r {
            Err(m) => st.oracle_failure(json!({"key": format!("{}:{}", name, m.chars().take(60).collect::<String>()), "panic": m, "at": last_loc()})),
            Ok(None) => st.count("cmap4.read_err"),
            Ok(Some((a, pairs))) => {
                if pairs.len() > 65536 {
                    st.oracle_failure(json!({"key": format!("{}:more-than-65536-pairs", name), "pairs": pairs.len()}));
                }
                if pairs.windows(2).any(|w| w[0].0 >= w[1].0) {
                    st.oracle_failure(json!({"key": format!("{}:code-points-not-ascending", name), "pairs": pairs.len()}));
                }
                if small {
                    st.count("corr.op30");
                    st.nontrivial(&name);
                    let mut res = vec![(pairs.len() < 400) as i128, pairs.len() as i128];
                    for (c, g) in pairs {
                        res.push(c as i128);
                        res.push(g as i128);
                    }
                    cw.push(format!("(30, [], {}, {})", czlist(a.iter().map(|v| *v as i128)), czlist(res)));
                }
            }
        }
    }
}

/// GSUB/GPOS with one script whose LangSys tables carry the given feature-index counts (the largest one last)
fn layout_with_langsys(counts: &[u16], required: u16) -> Vec<u8> {
    let mut script = vec![];
    let k = counts.len();
    let hdr = 4 + 6 * (k - 1);
    let mut offs = vec![];
    let mut pos = hdr;
    for c in counts {
        offs.push(pos as u16);
        pos += 6 + 2 * *c as usize;
    }
    script.extend(be16(offs[0]));
    script.extend(be16(k as u16 - 1));
    for (i, o) in offs.iter().enumerate().skip(1) {
        script.extend([b'L', b'A', b'0' + (i as u8 % 10), b' ']);
        script.extend(be16(*o));
    }
    for c in counts {
        script.extend(be16(0));
        script.extend(be16(required));
        script.extend(be16(*c));
        for j in 0..*c {
            script.extend(be16(j % 3));
        }
    }
    let mut sl = vec![];
    sl.extend(be16(1));
    sl.extend(b"latn");
    sl.extend(be16(8));
    sl.extend(script);
    let mut fl = vec![];
    fl.extend(be16(2));
    fl.extend(b"kern");
    fl.extend(be16(14));
    fl.extend(b"liga");
    fl.extend(be16(18));
    fl.extend([0u8; 8]);
    let ll = be16(0).to_vec();
    // put the (possibly > 64 KiB) script list last
    let mut t = vec![0u8, 1, 0, 0];
    t.extend(be16(10 + fl.len() as u16 + ll.len() as u16));
    t.extend(be16(10));
    t.extend(be16(10 + fl.len() as u16));
    t.extend(fl);
    t.extend(ll);
    t.extend(sl);
    t
}
fn collect_features_stage(st: &mut Stats) {
    use read_fonts::collections::IntSet;
    use read_fonts::tables::{gpos::Gpos, gsub::Gsub};
    let interesting: [u16; 10] = [0, 1, 499, 1000, 1499, 1500, 1501, 2000, 16000, 0];
    let big: [u16; 6] = [0, 1501, 32768, 64035, 65000, 65535];
    let mut cases: Vec<(String, Vec<u16>)> = vec![];
    for a in interesting {
        for b in interesting {
            for c in big {
                cases.push((format!("features:{}+{}+{}", a, b, c), vec![a, b, c]));
            }
        }
    }
    for c in big {
        cases.push((format!("features:{}", c), vec![c]));
    }
    let tagset = |tags: &[&[u8; 4]]| -> IntSet<Tag> { tags.iter().map(|t| Tag::new(t)).collect() };
    let mut seen = std::collections::BTreeSet::new();
    for (name, counts) in cases {
        for required in [0xFFFFu16, 0, 1] {
            if required != 0xFFFF && counts.len() == 3 && counts[0] % 7 != 3 && counts[2] != 65535 {
                continue;
            }
            let bytes = layout_with_langsys(&counts, required);
            st.evaluations += 1;
            st.count("features.cases");
            let r = catch(move || {
                let mut h = 0u64;
                let scripts: [IntSet<Tag>; 3] = [tagset(&[b"latn"]), IntSet::all(), tagset(&[b"zzzz"])];
                let langs: [IntSet<Tag>; 4] = [IntSet::empty(), IntSet::all(), tagset(&[b"LA1 ", b"LA2 "]), tagset(&[b"LA2 "])];
                let feats: [IntSet<Tag>; 4] = [IntSet::empty(), IntSet::all(), tagset(&[b"liga"]), tagset(&[b"kern", b"liga", b"zzzz"])];
                let gsub = Gsub::read(FontData::new(&bytes));
                let gpos = Gpos::read(FontData::new(&bytes));
                for s in &scripts {
                    for l in &langs {
                        for f in &feats {
                            if let Ok(g) = &gsub {
                                h = h.wrapping_mul(31).wrapping_add(g.collect_features(s, l, f).map(|o| o.len()).unwrap_or(9999) as u64);
                            }
                            if let Ok(g) = &gpos {
                                h = h.wrapping_mul(31).wrapping_add(g.collect_features(s, l, f).map(|o| o.len()).unwrap_or(9999) as u64);
                            }
                        }
                    }
                }
                h
            });
            if let Err(m) = r {
                st.count("features.failures");
                let m60: String = m.chars().take(60).collect();
                if seen.insert((last_loc(), m60.clone())) {
                    st.oracle_failure(json!({"key": format!("{}:req{}:{}", name, required, m60), "panic": m, "at": last_loc()}));
                }
            }
        }
    }
}

fn main() {
    install_hook();
    let args: Vec<String> = std::env::args().collect();
    if let Some(p) = args.iter().position(|a| a == "--subr-child") {
        subr_child(args.get(p + 1).and_then(|x| x.parse().ok()).unwrap_or(0));
        return;
    }
    let thorough = tier_is_thorough(&args);
    let seed = seed_from_env();
    let dir = out_dir(&args, "C01");
    let mut rng = Rng::new(seed);
    let mut st = Stats::new();
    let mut cw = CaseWriter::new(
        &dir,
        "From Coq Require Import ZArith List. Import ListNotations. Open Scope Z_scope.\nFrom FV Require Import Lib.Cases C01.Model C01.ModelH C01.IterModel C01.CsModel C01.Cmap4Model.",
        "Z * list Z * list Z * list Z",
        "check_case_all4",
        900,
    );
    correspondence(&mut rng, &mut cw, &mut st, thorough);
    correspondence_bcd(&mut rng, &mut cw, &mut st);
    correspondence_iters(&mut rng, &mut cw, &mut st, thorough);
    {
        let grid = device_grid(&mut rng);
        let mut c = Corr { cw: &mut cw, st: &mut st };
        for (i, (_, b)) in grid.iter().enumerate() {
            // every case with <= 9 words, a third of the long ones; plus truncations
            if b.len() <= 6 + 18 || i % 3 == 0 {
                c.emit(28, b, &[]);
            }
            if i % 7 == 0 && b.len() > 2 {
                c.emit(28, &b[..b.len() - 1 - (i % 5).min(b.len() - 2)], &[]);
            }
        }
    }
    subr_search(&mut cw, &mut st);
    cmap4_stage(&mut rng, &mut cw, &mut st, thorough);
    let shards = cw.finish();
    st.v.insert("shards".into(), shards.into());
    st.v.insert("model_cases".into(), cw.len().into());
    if std::env::var("C01_NO_FUZZ").is_err() {
        ps_search(seed, thorough, &mut st);
        closure_search(seed, thorough, &mut st, &dir);
        device_search(seed, &mut st);
        collect_features_stage(&mut st);
        fuzz(seed, thorough, &mut st, &dir);
    }
    st.write(
        &dir,
        "correspondence: core-reader operations with boundary usize arguments (0, len-1, len, len+1, 2^32, isize::MAX, usize::MAX...) on small buffers and synthetic sfnt/ttc/INDEX/loca/array inputs (sorted/unsorted/duplicate tags, lying counts, overflowing offset+length, truncations); non-trivial = non-empty data. search: every font-test-data font x deterministic structure-aware mutations, generic traversal + hand-written helpers; non-trivial = more than 50 traversal nodes visited",
    );
    println!("model_cases={} shards={} fuzz_cases={} oracle_failures={}", cw.len(), shards, st.v.get("fuzz_cases").cloned().unwrap_or_default(), st.oracle_failures.len());
}
