//! C11 harness: axis normalisation (fvar/avar), tent scalars, ItemVariationStore::compute_delta,
//! DeltaSetIndexMap::get / pack_map_data, the write-fonts VariationStoreBuilder (build -> dump_table ->
//! read back -> retrieve) and HVAR metric deltas through skrifa GlyphMetrics.
//! Every case runs the REAL code; a Coq term (input + observed output) is pushed for the model
//! (coq/C11/Model.v `check_case`); implementation-only oracles check the property's wording
//! (retrieval identity, endpoints/clamp/range/monotone, exact rational tent reference) directly.
use font_types::{F2Dot14, Fixed, GlyphId, Tag};
use read_fonts::tables::avar::Avar;
use read_fonts::tables::fvar::Fvar;
use read_fonts::tables::variations::{
    DeltaSetIndex, DeltaSetIndexMap as RDsim, ItemVariationData as RIvd, ItemVariationStore as RStore,
};
use read_fonts::{FontData, FontRead, FontRef};
use serde_json::json;
use std::collections::BTreeMap;
use std::panic::AssertUnwindSafe;
use vh::*;
use write_fonts::tables::variations::ivs_builder::VariationStoreBuilder;
use write_fonts::tables::variations::{
    DeltaSetIndexMap as WDsim, RegionAxisCoordinates, VariationRegion,
};
use write_fonts::{dump_table, FontBuilder};

type Reg = Vec<(i16, i16, i16)>;

// ---------- Coq printers ----------
fn creg(r: &Reg) -> String {
    clist(r.iter(), |(s, p, e)| format!("({}, {}, {})", cz(*s as i128), cz(*p as i128), cz(*e as i128)))
}
fn cz16(xs: &[i16]) -> String {
    czlist(xs.iter().map(|v| *v as i128))
}
fn cmaps(m: &[(i16, i16)]) -> String {
    clist(m.iter(), |(f, t)| format!("({}, {})", cz(*f as i128), cz(*t as i128)))
}

#[derive(Clone, Debug, PartialEq)]
struct DSub {
    item_count: u16,
    wdc: u16,
    ridx: Vec<u16>,
    rows: Vec<Vec<i32>>,
}
#[derive(Clone, Debug, PartialEq)]
struct DStore {
    regions: Vec<Reg>,
    data: Vec<Option<DSub>>,
}
fn cstore(s: &DStore) -> String {
    format!(
        "{{| vs_regions := {}; vs_data := {} |}}",
        clist(s.regions.iter(), creg),
        clist(s.data.iter(), |d| match d {
            None => "None".to_string(),
            Some(d) => format!(
                "(Some {{| st_item_count := {}; st_wdc := {}; st_regions := {}; st_rows := {} |}})",
                d.item_count,
                d.wdc,
                czlist(d.ridx.iter().map(|v| *v as i128)),
                clist(d.rows.iter(), |r| czlist(r.iter().map(|v| *v as i128)))
            ),
        })
    )
}

/// decoded view of a parsed store through the real read-fonts accessors; None if some part fails to parse
fn decode_store(s: &RStore) -> Option<DStore> {
    let rl = s.variation_region_list().ok()?;
    let mut regions = vec![];
    for r in rl.variation_regions().iter() {
        let r = r.ok()?;
        regions.push(
            r.region_axes()
                .iter()
                .map(|a| (a.start_coord().to_bits(), a.peak_coord().to_bits(), a.end_coord().to_bits()))
                .collect::<Reg>(),
        );
    }
    let mut data = vec![];
    for d in s.item_variation_data().iter() {
        match d {
            None => data.push(None),
            Some(Err(_)) => return None,
            Some(Ok(d)) => {
                let rows = (0..d.item_count()).map(|i| d.delta_set(i).collect::<Vec<i32>>()).collect();
                data.push(Some(DSub {
                    item_count: d.item_count(),
                    wdc: d.word_delta_count(),
                    ridx: d.region_indexes().iter().map(|x| x.get()).collect(),
                    rows,
                }));
            }
        }
    }
    Some(DStore { regions, data })
}

// ---------- byte assemblers (so that malformed / boundary tables can be produced) ----------
fn be16(v: &mut Vec<u8>, x: u16) {
    v.extend_from_slice(&x.to_be_bytes());
}
fn be32(v: &mut Vec<u8>, x: u32) {
    v.extend_from_slice(&x.to_be_bytes());
}
fn fvar_bytes(axes: &[(i32, i32, i32)]) -> Vec<u8> {
    let mut v = vec![];
    be16(&mut v, 1);
    be16(&mut v, 0);
    be16(&mut v, 16);
    be16(&mut v, 2);
    be16(&mut v, axes.len() as u16);
    be16(&mut v, 20);
    be16(&mut v, 0);
    be16(&mut v, (4 * axes.len() + 4) as u16);
    for (i, (mn, df, mx)) in axes.iter().enumerate() {
        v.extend_from_slice(&[b'a', b'x', b'0' + (i / 10) as u8, b'0' + (i % 10) as u8]);
        be32(&mut v, *mn as u32);
        be32(&mut v, *df as u32);
        be32(&mut v, *mx as u32);
        be16(&mut v, 0);
        be16(&mut v, 256 + i as u16);
    }
    v
}
fn axis_tag(i: usize) -> Tag {
    Tag::new(&[b'a', b'x', b'0' + (i / 10) as u8, b'0' + (i % 10) as u8])
}
fn avar_bytes(maps: &[Vec<(i16, i16)>]) -> Vec<u8> {
    let mut v = vec![];
    be16(&mut v, 1);
    be16(&mut v, 0);
    be16(&mut v, 0);
    be16(&mut v, maps.len() as u16);
    for m in maps {
        be16(&mut v, m.len() as u16);
        for (f, t) in m {
            be16(&mut v, *f as u16);
            be16(&mut v, *t as u16);
        }
    }
    v
}
/// raw subtable: (item_count, word_delta_count, region indexes, delta bytes)
type RawSub = (u16, u16, Vec<u16>, Vec<u8>);
fn store_bytes(axis_count: u16, regions: &[Reg], subs: &[Option<RawSub>]) -> Vec<u8> {
    let mut v = vec![];
    be16(&mut v, 1);
    let header = 8 + 4 * subs.len();
    be32(&mut v, header as u32);
    be16(&mut v, subs.len() as u16);
    let mut rl = vec![];
    be16(&mut rl, axis_count);
    be16(&mut rl, regions.len() as u16);
    for r in regions {
        for (s, p, e) in r {
            be16(&mut rl, *s as u16);
            be16(&mut rl, *p as u16);
            be16(&mut rl, *e as u16);
        }
    }
    let mut off = header + rl.len();
    let mut bodies = vec![];
    for s in subs {
        match s {
            None => be32(&mut v, 0),
            Some((ic, wdc, ri, bytes)) => {
                be32(&mut v, off as u32);
                let mut b = vec![];
                be16(&mut b, *ic);
                be16(&mut b, *wdc);
                be16(&mut b, ri.len() as u16);
                for x in ri {
                    be16(&mut b, *x);
                }
                b.extend_from_slice(bytes);
                off += b.len();
                bodies.push(b);
            }
        }
    }
    v.extend_from_slice(&rl);
    for b in bodies {
        v.extend_from_slice(&b);
    }
    v
}

// ---------- exact references (the property's wording) ----------
fn rha(n: i128, d: i128) -> i128 {
    let s = n.signum() * d.signum();
    s * ((2 * n.abs() + d.abs()) / (2 * d.abs()))
}
/// OpenType tent: None = 0, Some((n, d)) = n/d
fn tent_frac(c: i64, s: i64, p: i64, e: i64) -> Option<(i64, i64)> {
    if s > p || p > e {
        Some((1, 1))
    } else if s < 0 && e > 0 && p != 0 {
        Some((1, 1))
    } else if p == 0 {
        Some((1, 1))
    } else if c < s || c > e {
        None
    } else if c == p {
        Some((1, 1))
    } else if c < p {
        Some((c - s, p - s))
    } else {
        Some((e - c, e - p))
    }
}
/// exact scalar as f64, number of interpolating axes, and (for <= 1 interpolating axis) the exact 16.16 value
fn tent_exact(r: &Reg, coords: &[i16]) -> (f64, u32, Option<i128>) {
    let mut v = 1.0f64;
    let mut k = 0;
    let mut single: Option<(i64, i64)> = None;
    for (i, (s, p, e)) in r.iter().enumerate() {
        let c = coords.get(i).copied().unwrap_or(0) as i64;
        match tent_frac(c, *s as i64, *p as i64, *e as i64) {
            None => return (0.0, 0, Some(0)),
            Some((1, 1)) => {}
            Some((n, d)) => {
                v *= n as f64 / d as f64;
                k += 1;
                single = Some((n, d));
            }
        }
    }
    let exact = match (k, single) {
        (0, _) => Some(65536),
        (1, Some((n, d))) => Some(rha(65536 * n as i128, d as i128)),
        _ => None,
    };
    (v, k, exact)
}

struct Ctx {
    st: Stats,
    cw: CaseWriter,
    rng: Rng,
    thorough: bool,
}

// =====================================================================================
// A. normalisation
// =====================================================================================
fn real_normalize(mn: i32, df: i32, mx: i32, v: i32) -> Result<i32, String> {
    catch(move || {
        let b = fvar_bytes(&[(mn, df, mx)]);
        let f = Fvar::read(FontData::new(&b)).unwrap();
        let ax = f.axes().unwrap()[0];
        ax.normalize(Fixed::from_bits(v)).to_bits()
    })
}

fn norm_section(cx: &mut Ctx) {
    let g = boundary_i32();
    let f = |x: f64| (x * 65536.0) as i32;
    let mut records: Vec<(i32, i32, i32, &str)> = vec![
        (f(100.0), f(400.0), f(900.0), "valid"),
        (f(-1.0), 0, f(1.0), "valid"),
        (0, 0, f(1000.0), "valid-min=def"),
        (f(-20.0), 0, 0, "valid-def=max"),
        (f(62.5), f(100.0), f(100.0), "valid-def=max"),
        (1, 2, 3, "valid-tiny"),
        (0, 1, 2, "valid-tiny"),
        (-1, 0, 1, "valid-tiny"),
        (i32::MIN, 0, i32::MAX, "valid-extreme"),
        (i32::MIN, -1, i32::MAX, "valid-extreme"),
        (i32::MIN, i32::MIN + 1, i32::MAX, "valid-extreme"),
        (i32::MIN, i32::MAX - 1, i32::MAX, "valid-extreme"),
        (-1726023270, 538975370, 538975370, "fuzz-69787"),
        (0, f(-5.0), f(10.0), "def<min"),
        (0, f(20.0), f(10.0), "def>max"),
        (f(10.0), f(5.0), 0, "min>max"),
        (f(10.0), f(20.0), 0, "min>max"),
        (f(10.0), 0, 0, "min>max"),
        (i32::MAX, 0, i32::MIN, "min>max-extreme"),
        (i32::MAX, i32::MIN, i32::MIN, "min>max-extreme"),
        (i32::MIN, i32::MAX, i32::MIN, "def>max-extreme"),
        (i32::MAX, i32::MAX, i32::MAX, "all-equal"),
        (i32::MIN, i32::MIN, i32::MIN, "all-equal"),
        (0, 0, 0, "all-equal"),
        (5, 5, 5, "all-equal"),
    ];
    let nrand = if cx.thorough { 400 } else { 60 };
    for i in 0..nrand {
        let mut t = [0i32; 3];
        for x in t.iter_mut() {
            *x = match cx.rng.below(3) {
                0 => *cx.rng.pick(&g),
                1 => cx.rng.next_u32() as i32,
                _ => (cx.rng.range(-2000, 2000) * 65536 + cx.rng.range(-3, 3) * 16384) as i32,
            };
        }
        if i % 2 == 0 {
            t.sort();
            records.push((t[0], t[1], t[2], "random-sorted"));
        } else {
            records.push((t[0], t[1], t[2], "random-any"));
        }
    }
    for (mn, df, mx, kind) in records {
        cx.st.count(&format!("norm.record.{}", kind));
        let mut vs: Vec<i64> = vec![];
        for b in [mn as i64, df as i64, mx as i64, 0, i32::MIN as i64, i32::MAX as i64] {
            for d in -2i64..=2 {
                vs.push(b + d);
            }
        }
        vs.push((mn as i64 + df as i64) / 2);
        vs.push((mx as i64 + df as i64) / 2);
        vs.push((mn as i64 + 3 * df as i64) / 4);
        for _ in 0..6 {
            let (lo, hi) = if mn <= mx { (mn as i64, mx as i64) } else { (mx as i64, mn as i64) };
            vs.push(cx.rng.range(lo, hi));
            vs.push(cx.rng.next_u32() as i32 as i64);
        }
        vs.retain(|v| *v >= i32::MIN as i64 && *v <= i32::MAX as i64);
        vs.sort();
        vs.dedup();
        let mut prev: Option<(i64, i32)> = None;
        let at = |v: i32| real_normalize(mn, df, mx, v);
        let r_min = at(mn);
        let r_max = at(mx.max(mn));
        for v in vs {
            let v = v as i32;
            let res = at(v);
            cx.st.evaluations += 1;
            let key = format!("norm:{},{},{},{}", mn, df, mx, v);
            cx.cw.push(format!(
                "CNorm {} {} {} {} {}",
                cz(mn as i128),
                cz(df as i128),
                cz(mx as i128),
                cz(v as i128),
                czlist(res.clone().ok().into_iter().map(|x| x as i128))
            ));
            cx.st.nontrivial(&key);
            match &res {
                Err(e) => {
                    cx.st.count("norm.panic");
                    cx.st.oracle_failure(json!({"key": format!("normalize-panic:{},{},{}", mn, df, mx), "input": key, "what": "normalize panics", "panic": e}));
                }
                Ok(r) => {
                    let r = *r;
                    cx.st.count(if v < mn { "norm.branch.below-min" } else if v > mx.max(mn) { "norm.branch.above-max" } else if v < df { "norm.branch.less" } else if v > df { "norm.branch.greater" } else { "norm.branch.equal" });
                    let mut fail = |what: &str, st: &mut Stats| {
                        st.oracle_failure(json!({"key": format!("normalize:{}:{},{},{}", what, mn, df, mx), "input": key, "what": what, "got": r}));
                    };
                    if !(-65536..=65536).contains(&r) {
                        fail("range", &mut cx.st);
                    }
                    if mn < df && df < mx {
                        if v == mn && r != -65536 {
                            fail("min-not--1", &mut cx.st);
                        }
                        if v == df && r != 0 {
                            fail("default-not-0", &mut cx.st);
                        }
                        if v == mx && r != 65536 {
                            fail("max-not-1", &mut cx.st);
                        }
                    }
                    if v <= mn && res != r_min {
                        fail("clamp-low", &mut cx.st);
                    }
                    if v >= mx.max(mn) && res != r_max {
                        fail("clamp-high", &mut cx.st);
                    }
                    if let Some((_, pr)) = prev {
                        if pr > r {
                            fail("monotone", &mut cx.st);
                        }
                    }
                    prev = Some((v as i64, r));
                    // exact OpenType formula with explicit rounding, when nothing saturates
                    if mn <= df && df <= mx && (df as i64 - mn as i64) <= i32::MAX as i64 && (mx as i64 - df as i64) <= i32::MAX as i64 {
                        let vc = (v as i128).clamp(mn as i128, mx as i128);
                        let e = if vc < df as i128 {
                            -rha((df as i128 - vc) * 65536, df as i128 - mn as i128)
                        } else if vc > df as i128 {
                            rha((vc - df as i128) * 65536, mx as i128 - df as i128)
                        } else {
                            0
                        };
                        cx.st.count("norm.exact-checked");
                        if e != r as i128 {
                            fail("exact-formula", &mut cx.st);
                        }
                    }
                }
            }
        }
    }
}

// =====================================================================================
// B. avar SegmentMaps::apply and Fvar::user_to_normalized
// =====================================================================================
fn real_avar_apply(maps: &[(i16, i16)], coord: i32) -> Result<i32, String> {
    let maps = maps.to_vec();
    catch(move || {
        let b = avar_bytes(&[maps]);
        let a = Avar::read(FontData::new(&b)).unwrap();
        let sm = a.axis_segment_maps().get(0).unwrap().unwrap();
        sm.apply(Fixed::from_bits(coord)).to_bits()
    })
}

fn gen_map(cx: &mut Ctx, kind: u64) -> (Vec<(i16, i16)>, &'static str) {
    let one = 16384i16;
    match kind {
        0 => (vec![(-one, -one), (0, 0), (one, one)], "identity"),
        1 => {
            // valid: strictly increasing from, non-decreasing to, required points present
            let n = cx.rng.range(0, 5) as usize;
            let mut fs: Vec<i16> = (0..n).map(|_| cx.rng.range(-16383, 16383) as i16).filter(|x| *x != 0).collect();
            fs.extend([-one, 0, one]);
            fs.sort();
            fs.dedup();
            let mut ts: Vec<i16> = fs.iter().map(|f| if *f == -one || *f == 0 || *f == one { *f } else { 0 }).collect();
            // fill interior tos monotonically between required points
            for i in 0..fs.len() {
                if fs[i] != -one && fs[i] != 0 && fs[i] != one {
                    let lo = ts[i - 1];
                    let hi = if fs[i] < 0 { 0 } else { one };
                    ts[i] = cx.rng.range(lo as i64, hi as i64) as i16;
                }
            }
            (fs.into_iter().zip(ts).collect(), "valid")
        }
        2 => (vec![], "empty"),
        3 => (vec![(cx.rng.range(-16384, 16384) as i16, cx.rng.range(-16384, 16384) as i16)], "single"),
        4 => {
            // unsorted / duplicated / out-of-range points
            let n = cx.rng.range(1, 6) as usize;
            let pool = [-32768i16, -16385, -16384, -8192, -1, 0, 1, 8192, 16384, 16385, 32767];
            ((0..n).map(|_| (*cx.rng.pick(&pool), *cx.rng.pick(&pool))).collect(), "malformed")
        }
        _ => {
            // sorted from (with possible duplicates), arbitrary to
            let n = cx.rng.range(2, 6) as usize;
            let mut fs: Vec<i16> = (0..n).map(|_| cx.rng.range(-16384, 16384) as i16).collect();
            fs.sort();
            (fs.into_iter().map(|f| (f, cx.rng.range(-20000, 20000) as i16)).collect(), "sorted-any-to")
        }
    }
}

fn avar_section(cx: &mut Ctx) {
    let nmaps = if cx.thorough { 600 } else { 120 };
    for i in 0..nmaps {
        let kk = if i < 6 { i as u64 } else { cx.rng.below(6) };
        let (maps, kind) = gen_map(cx, kk);
        cx.st.count(&format!("avar.map.{}", kind));
        let mut cs: Vec<i64> = vec![0, 65536, -65536, 65537, -65537, 1, -1, i32::MAX as i64, i32::MIN as i64, 131072, -131072];
        for w in maps.windows(2) {
            let (a, b) = (w[0].0 as i64 * 4, w[1].0 as i64 * 4);
            cs.extend([(a + b) / 2, a + 1, b - 1, (3 * a + b) / 4]);
        }
        for (f, _) in &maps {
            cs.extend([*f as i64 * 4, *f as i64 * 4 - 1, *f as i64 * 4 + 1]);
        }
        for _ in 0..4 {
            cs.push(cx.rng.range(-70000, 70000));
        }
        cs.push(cx.rng.next_u32() as i32 as i64);
        cs.retain(|v| *v >= i32::MIN as i64 && *v <= i32::MAX as i64);
        cs.sort();
        cs.dedup();
        let valid = kind == "valid" || kind == "identity";
        let mut prev: Option<i32> = None;
        for c in cs {
            let c = c as i32;
            let res = real_avar_apply(&maps, c);
            cx.st.evaluations += 1;
            let key = format!("avar:{:?}@{}", maps, c);
            cx.st.nontrivial(&key);
            let Ok(r) = res else {
                cx.st.oracle_failure(json!({"key": format!("avar-panic:{:?}", maps), "input": key, "what": "SegmentMaps::apply panics"}));
                continue;
            };
            cx.cw.push(format!("CAvar {} {} {}", cmaps(&maps), cz(c as i128), cz(r as i128)));
            if valid {
                let c64 = c as i64;
                let mut exp: Option<i128> = None;
                let first = maps[0].0 as i64 * 4;
                let last = maps[maps.len() - 1].0 as i64 * 4;
                if c64 < first || c64 > last {
                    exp = Some(c as i128);
                    cx.st.count("avar.branch.outside");
                } else {
                    for w in 0..maps.len() {
                        let f = maps[w].0 as i64 * 4;
                        if f == c64 {
                            exp = Some(maps[w].1 as i128 * 4);
                            cx.st.count("avar.branch.at-point");
                            break;
                        }
                        if f > c64 {
                            let (pf, pt) = (maps[w - 1].0 as i128 * 4, maps[w - 1].1 as i128 * 4);
                            let t = maps[w].1 as i128 * 4;
                            exp = Some(pt + rha((t - pt) * (c as i128 - pf), f as i128 - pf));
                            cx.st.count("avar.branch.between");
                            break;
                        }
                    }
                }
                if exp != Some(r as i128) {
                    cx.st.oracle_failure(json!({"key": format!("avar-interp:{:?}", maps), "input": key, "what": "not the linear interpolation between neighbouring points", "expected": format!("{:?}", exp), "got": r}));
                }
                if (-65536..=65536).contains(&c) {
                    if let Some(p) = prev {
                        if p > r {
                            cx.st.oracle_failure(json!({"key": format!("avar-monotone:{:?}", maps), "input": key, "what": "monotone map gives non-monotone result"}));
                        }
                    }
                    prev = Some(r);
                }
            }
        }
    }
    // user_to_normalized: fvar + avar v1
    let recs = [(100 << 16, 400 << 16, 900 << 16), (0, 0, 1000 << 16), (-(1 << 16), 0, 1 << 16), (50 << 16, 100 << 16, 100 << 16), (10 << 16, 5 << 16, 0)];
    let n = if cx.thorough { 300 } else { 60 };
    for i in 0..n {
        let (mn, df, mx) = recs[i % recs.len()];
        let with_avar = i % 3 != 0;
        let kk = if i % 2 == 0 { 1 } else { cx.rng.below(6) };
        let (maps, kind) = if with_avar { gen_map(cx, kk) } else { (vec![], "none") };
        let mut us: Vec<i64> = vec![mn as i64, df as i64, mx as i64, mn as i64 - 65536, mx as i64 + 65536, (mn as i64 + df as i64) / 2, (mx as i64 + df as i64) / 2];
        for _ in 0..4 {
            us.push(cx.rng.range(mn.min(mx) as i64 - 100000, mx.max(mn) as i64 + 100000));
        }
        for u in us {
            let u = u as i32;
            let m2 = maps.clone();
            let res = catch(move || {
                let fb = fvar_bytes(&[(mn, df, mx)]);
                let f = Fvar::read(FontData::new(&fb)).unwrap();
                let ab = avar_bytes(&[m2]);
                let a = Avar::read(FontData::new(&ab)).unwrap();
                let mut out = [F2Dot14::ZERO; 1];
                f.user_to_normalized(if with_avar { Some(&a) } else { None }, [(axis_tag(0), Fixed::from_bits(u))], &mut out);
                out[0].to_bits()
            });
            cx.st.evaluations += 1;
            cx.st.count(&format!("u2n.{}", kind));
            cx.cw.push(format!(
                "CU2N {} {} {} {} {} {}",
                cz(mn as i128),
                cz(df as i128),
                cz(mx as i128),
                if with_avar { format!("(Some {})", cmaps(&maps)) } else { "None".to_string() },
                cz(u as i128),
                czlist(res.clone().ok().into_iter().map(|x| x as i128))
            ));
            if mn < df && df < mx && (kind == "valid" || kind == "none") {
                let exp = if u == mn { Some(-16384) } else if u == df { Some(0) } else if u == mx { Some(16384) } else { None };
                if let Some(e) = exp {
                    if res != Ok(e) {
                        cx.st.oracle_failure(json!({"key": format!("u2n-endpoint:{},{},{}", mn, df, mx), "what": "min/default/max do not map to -1/0/1", "user": u, "maps": format!("{:?}", maps), "got": format!("{:?}", res)}));
                    }
                }
            }
        }
    }
}

// =====================================================================================
// C. tent scalar / compute_delta on assembled stores (boundary + malformed stream)
// =====================================================================================
const TV: [i16; 15] = [-16384, -16383, -12288, -8192, -1, 0, 1, 4096, 8192, 8193, 12288, 16383, 16384, -32768, 32767];

fn gen_region(cx: &mut Ctx, axes: usize, valid: bool) -> Reg {
    (0..axes)
        .map(|_| {
            if valid {
                // a proper tent on one side of zero, or the "ignored axis" (0,0,0)
                match cx.rng.below(6) {
                    0 => (0, 0, 0),
                    1 => (0, 16384, 16384),
                    2 => (-16384, -16384, 0),
                    _ => {
                        let mut t = [cx.rng.range(0, 16384) as i16, cx.rng.range(1, 16384) as i16, cx.rng.range(0, 16384) as i16];
                        t.sort();
                        if t[1] == 0 {
                            t[1] = 1;
                            t[2] = t[2].max(1);
                        }
                        if cx.rng.chance(1, 3) {
                            (-t[2], -t[1], -t[0])
                        } else {
                            (t[0], t[1], t[2])
                        }
                    }
                }
            } else {
                (*cx.rng.pick(&TV), *cx.rng.pick(&TV), *cx.rng.pick(&TV))
            }
        })
        .collect()
}

fn gen_coords(cx: &mut Ctx, regions: &[Reg], axes: usize) -> Vec<i16> {
    let len = match cx.rng.below(8) {
        0 => axes.saturating_sub(1),
        1 => axes + 1,
        _ => axes,
    };
    (0..len)
        .map(|i| {
            if !regions.is_empty() && i < axes && cx.rng.chance(3, 4) {
                let r = cx.rng.pick(regions);
                let (s, p, e) = r[i];
                let c = match cx.rng.below(9) {
                    0 => s as i32,
                    1 => p as i32,
                    2 => e as i32,
                    3 => s as i32 - 1,
                    4 => e as i32 + 1,
                    5 => (s as i32 + p as i32) / 2,
                    6 => (p as i32 + e as i32) / 2,
                    7 => p as i32 + 1,
                    _ => p as i32 - 1,
                };
                c.clamp(-32768, 32767) as i16
            } else if cx.rng.chance(1, 2) {
                *cx.rng.pick(&TV)
            } else {
                cx.rng.range(-16384, 16384) as i16
            }
        })
        .collect()
}

fn scalar_oracle(cx: &mut Ctx, r: &Reg, coords: &[i16], got: i32) {
    let (v, k, exact) = tent_exact(r, coords);
    let key = format!("scalar:{:?}@{:?}", r, coords);
    if let Some(e) = exact {
        cx.st.count(if k == 0 { if e == 0 { "scalar.zero-outside" } else { "scalar.one" } } else { "scalar.single-axis-interp" });
        if e != got as i128 {
            cx.st.oracle_failure(json!({"key": format!("tent:{:?}", r), "input": key, "what": "tent scalar differs from the specified tent (exact, rounding explicit)", "expected": e as i64, "got": got}));
        }
    } else {
        cx.st.count("scalar.multi-axis-interp");
        if (got as f64 - 65536.0 * v).abs() > 0.5 * k as f64 + 1e-6 {
            cx.st.oracle_failure(json!({"key": format!("tent:{:?}", r), "input": key, "what": "tent scalar further than k/2 ulp from the exact product", "exact": 65536.0 * v, "got": got}));
        }
    }
}

/// expected delta from (delta, region) pairs by the spec; returns (exact f64, tolerance, exact integer if all regions single-axis)
fn delta_reference(pairs: &[(i32, &Reg)], coords: &[i16]) -> (f64, f64, Option<i128>) {
    let mut sum = 0.0f64;
    let mut tol = 0.5 + 1e-3;
    let mut acc: Option<i128> = Some(0);
    for (d, r) in pairs {
        let (v, k, exact) = tent_exact(r, coords);
        sum += *d as f64 * v;
        tol += (*d as f64).abs() * (k as f64) / 131072.0 + (*d as f64).abs() * 1e-12;
        acc = match (acc, exact) {
            (Some(a), Some(e)) => Some(a + *d as i128 * e),
            _ => None,
        };
    }
    (sum, tol, acc.map(|a| (a + 0x8000).div_euclid(65536)))
}

fn real_compute_delta(bytes: &[u8], outer: u16, inner: u16, coords: &[i16]) -> Result<Option<i32>, String> {
    let cs: Vec<F2Dot14> = coords.iter().map(|c| F2Dot14::from_bits(*c)).collect();
    catch(AssertUnwindSafe(|| {
        let s = RStore::read(FontData::new(bytes)).ok()?;
        s.compute_delta(DeltaSetIndex { outer, inner }, &cs).ok()
    }))
}

fn push_delta_case(cx: &mut Ctx, ds: &DStore, bytes: &[u8], outer: u16, inner: u16, coords: &[i16]) -> Option<i32> {
    let res = real_compute_delta(bytes, outer, inner, coords);
    cx.st.evaluations += 1;
    let out = match &res {
        Ok(Some(v)) => vec![*v as i128],
        Ok(None) => vec![],
        Err(_) => vec![-999],
    };
    if res.is_err() {
        cx.st.count("delta.panic");
        cx.st.oracle_failure(json!({"key": "compute_delta-panic", "what": "compute_delta panics", "store": cstore(ds), "outer": outer, "inner": inner, "coords": coords}));
    }
    cx.cw.push(format!("CDelta {} {} {} {} {}", cstore(ds), outer, inner, cz16(coords), czlist(out)));
    res.ok().flatten()
}

fn tent_section(cx: &mut Ctx) {
    let n = if cx.thorough { 1500 } else { 300 };
    for i in 0..n {
        let axes = cx.rng.range(1, 3) as usize;
        let valid = i % 3 != 0;
        let nreg = cx.rng.range(1, 5) as usize;
        let regions: Vec<Reg> = (0..nreg).map(|_| gen_region(cx, axes, valid)).collect();
        // hand-assembled subtables: widths from wdc, random deltas in the width; some malformed region indexes
        let nsub = cx.rng.range(1, 3) as usize;
        let malformed = i % 7 == 0;
        let mut subs: Vec<Option<RawSub>> = vec![];
        for _ in 0..nsub {
            if cx.rng.chance(1, 8) {
                subs.push(None);
                continue;
            }
            let rc = cx.rng.range(0, nreg as i64 + if malformed { 1 } else { 0 }) as usize;
            let mut ri: Vec<u16> = (0..rc).map(|_| { let extra = if malformed && cx.rng.chance(1, 3) { 2 } else { 0 }; cx.rng.below(nreg as u64 + extra) as u16 }).collect();
            if !malformed {
                ri.sort();
                ri.dedup();
            }
            let rc = ri.len();
            let long = cx.rng.chance(1, 3);
            let wc = if (malformed && cx.rng.chance(1, 4)) || cx.rng.chance(1, 6) { rc as u16 + cx.rng.range(1, 4) as u16 } else { cx.rng.range(0, rc as i64) as u16 };
            cx.st.count(if wc as usize > rc { if long { "row.word-count-beyond-columns.long" } else { "row.word-count-beyond-columns.short" } } else { "row.word-count-within-columns" });
            let wdc = wc | if long { 0x8000 } else { 0 };
            let items = cx.rng.range(0, 3) as u16;
            let row_len = RIvd::delta_row_len(wdc, rc as u16);
            let mut bytes = cx.rng.bytes(row_len * items as usize);
            // make boundary values frequent
            for b in bytes.iter_mut() {
                if cx.rng.chance(1, 3) {
                    *b = *cx.rng.pick(&[0u8, 0x7f, 0x80, 0xff, 1]);
                }
            }
            subs.push(Some((items, wdc, ri, bytes)));
        }
        let bytes = store_bytes(axes as u16, &regions, &subs);
        let Ok(store) = RStore::read(FontData::new(&bytes)) else {
            cx.st.count("tent.store-unreadable");
            continue;
        };
        // scalars
        for (ri, r) in regions.iter().enumerate() {
            for _ in 0..3 {
                let coords = gen_coords(cx, &regions, axes);
                let cs: Vec<F2Dot14> = coords.iter().map(|c| F2Dot14::from_bits(*c)).collect();
                let got = store.variation_region_list().unwrap().variation_regions().get(ri).unwrap().compute_scalar(&cs).to_bits();
                cx.st.evaluations += 1;
                cx.st.nontrivial(&format!("{:?}{:?}", r, coords));
                cx.cw.push(format!("CScalar {} {} {}", creg(r), cz16(&coords), cz(got as i128)));
                scalar_oracle(cx, r, &coords, got);
            }
        }
        // raw row decoding
        for (si, s) in subs.iter().enumerate() {
            if let (Some((items, wdc, ri, data)), Some(Ok(d))) = (s, store.item_variation_data().get(si)) {
                for inner in 0..=*items {
                    let row: Vec<i32> = d.delta_set(inner).collect();
                    cx.st.evaluations += 1;
                    cx.st.count(if *wdc & 0x8000 != 0 { "row.long-words" } else { "row.short-words" });
                    cx.cw.push(format!("CRow {} {} {} {} {}", wdc, ri.len(), cbytes(data), inner, czlist(row.iter().map(|v| *v as i128))));
                }
            }
        }
        // compute_delta straight from the raw subtables (row decoding + accumulation in one model function)
        let craw = format!(
            "{} {}",
            clist(regions.iter(), creg),
            clist(subs.iter(), |s| match s {
                None => "None".to_string(),
                Some((items, wdc, ri, data)) => format!(
                    "(Some {{| rs_item_count := {}; rs_wdc := {}; rs_regions := {}; rs_data := {} |}})",
                    items, wdc, czlist(ri.iter().map(|v| *v as i128)), cbytes(data)),
            })
        );
        for _ in 0..3 {
            let outer = cx.rng.below(nsub as u64 + 1) as u16;
            let inner = cx.rng.below(5) as u16;
            let coords = gen_coords(cx, &regions, axes);
            let res = real_compute_delta(&bytes, outer, inner, &coords);
            cx.st.evaluations += 1;
            let out = match &res {
                Ok(Some(v)) => vec![*v as i128],
                Ok(None) => vec![],
                Err(_) => vec![-999],
            };
            if res.is_err() {
                cx.st.oracle_failure(json!({"key": "compute_delta-panic", "what": "compute_delta panics on an assembled store", "outer": outer, "inner": inner, "coords": coords}));
            }
            cx.st.count("delta.raw-case");
            cx.cw.push(format!("CDeltaRaw {} {} {} {} {}", craw, outer, inner, cz16(&coords), czlist(out)));
        }
        // deltas
        let Some(ds) = decode_store(&store) else {
            cx.st.count("tent.store-undecodable");
            continue;
        };
        for _ in 0..4 {
            let outer = cx.rng.below(nsub as u64 + 1) as u16;
            let inner = cx.rng.below(4) as u16;
            let coords = if cx.rng.chance(1, 12) { vec![] } else { gen_coords(cx, &regions, axes) };
            let got = push_delta_case(cx, &ds, &bytes, outer, inner, &coords);
            cx.st.count(match got {
                Some(_) => "delta.ok",
                None => "delta.err",
            });
            // reference from the decoded rows (spec formula), well-formed rows only
            if let (Some(v), Some(Some(sub))) = (got, ds.data.get(outer as usize)) {
                if !coords.is_empty() && sub.ridx.iter().all(|r| (*r as usize) < regions.len()) {
                    if let Some(row) = sub.rows.get(inner as usize) {
                        let pairs: Vec<(i32, &Reg)> = row.iter().zip(sub.ridx.iter()).map(|(d, r)| (*d, &regions[*r as usize])).collect();
                        check_delta_ref(cx, &pairs, &coords, v, "assembled");
                    }
                }
            }
        }
    }
}

fn check_delta_ref(cx: &mut Ctx, pairs: &[(i32, &Reg)], coords: &[i16], got: i32, what: &str) {
    let (sum, tol, exact) = delta_reference(pairs, coords);
    if sum.abs() > 2147480000.0 {
        cx.st.count("delta.ref-skipped-wraps-i32");
        return;
    }
    if let Some(e) = exact {
        cx.st.count("delta.ref-exact");
        if e != got as i128 {
            cx.st.oracle_failure(json!({"key": format!("delta-exact:{}", what), "what": "delta differs from (sum delta*tent + 0x8000) >> 16", "pairs": format!("{:?}", pairs), "coords": coords, "expected": e as i64, "got": got}));
        }
    } else {
        cx.st.count("delta.ref-rational");
        if (got as f64 - sum).abs() > tol {
            cx.st.oracle_failure(json!({"key": format!("delta-rational:{}", what), "what": "delta differs from sum of tent * delta beyond the rounding bound", "pairs": format!("{:?}", pairs), "coords": coords, "expected": sum, "got": got}));
        }
    }
}

// =====================================================================================
// D. VariationStoreBuilder
// =====================================================================================
fn to_vr(r: &Reg) -> VariationRegion {
    VariationRegion::new(r.iter().map(|(s, p, e)| RegionAxisCoordinates::new(F2Dot14::from_bits(*s), F2Dot14::from_bits(*p), F2Dot14::from_bits(*e))).collect())
}

fn gen_delta(cx: &mut Ctx, class: u64) -> i32 {
    match class {
        0 => 0,
        1 => *cx.rng.pick(&[1, -1, 127, -128, 126, -127, 5, -12]),
        2 => *cx.rng.pick(&[128, -129, 32767, -32768, 1000, -300, 255, 256, -256]),
        3 => *cx.rng.pick(&[32768, -32769, i32::MAX, i32::MIN, 65536, -65536, 100000, -70000, i32::MIN + 1]),
        4 => cx.rng.range(-128, 127) as i32,
        5 => cx.rng.range(-32768, 32767) as i32,
        _ => cx.rng.next_u32() as i32,
    }
}

struct Built {
    pool: Vec<Reg>,
    inputs: Vec<Vec<(usize, i32)>>,
    ids: Vec<u32>,
    bytes: Vec<u8>,
    remap: BTreeMap<u32, (u16, u16)>,
}

/// run the real builder; Err = panic / dump error text
fn run_builder(axes: u16, pool: &[Reg], inputs: &[Vec<(usize, i32)>], direct: bool) -> Result<Built, String> {
    let pool2 = pool.to_vec();
    let inputs2 = inputs.to_vec();
    let r = catch(move || {
        let mut b = if direct { VariationStoreBuilder::new_with_implicit_indices(axes) } else { VariationStoreBuilder::new(axes) };
        let mut ids = vec![];
        for ds in &inputs2 {
            ids.push(b.add_deltas(ds.iter().map(|(r, d)| (to_vr(&pool2[*r]), *d)).collect::<Vec<_>>()));
        }
        let (store, remap) = b.build();
        let bytes = dump_table(&store).map_err(|e| format!("dump_table: {:?}", e))?;
        let mut m = BTreeMap::new();
        for id in &ids {
            if let Some(v) = remap.get(*id) {
                m.insert(*id, (v.delta_set_outer_index, v.delta_set_inner_index));
            }
        }
        Ok::<_, String>((ids, bytes, m))
    });
    match r {
        Ok(Ok((ids, bytes, remap))) => Ok(Built { pool: pool.to_vec(), inputs: inputs.to_vec(), ids, bytes, remap }),
        Ok(Err(e)) => Err(e),
        Err(e) => Err(format!("panic: {}", e)),
    }
}

/// the property's wording checked on the real output: every (k, region) retrievable with the same delta
fn retrieval_oracle(cx: &mut Ctx, b: &Built, direct: bool, label: &str) -> Option<DStore> {
    // stable key = failure class + storage mode; the generated case is named in the "case" field of the details
    let key = |what: &str| format!("ivs-{}:{}", what, if direct { "direct" } else { "dedup" });
    let Ok(store) = RStore::read(FontData::new(&b.bytes)) else {
        cx.st.oracle_failure(json!({"key": key("unreadable"), "what": "built store does not parse"}));
        return None;
    };
    let Some(ds) = decode_store(&store) else {
        cx.st.oracle_failure(json!({"key": key("undecodable"), "what": "built store has unreadable parts"}));
        return None;
    };
    // region list must have distinct regions
    for (k, input) in b.inputs.iter().enumerate() {
        cx.st.evaluations += 1;
        let id = b.ids[k];
        let Some((outer, inner)) = b.remap.get(&id).copied() else {
            cx.st.oracle_failure(json!({"key": key("no-index"), "what": "no VariationIndex returned for a delta set", "k": k, "input": format!("{:?}", input)}));
            continue;
        };
        let row = ds.data.get(outer as usize).and_then(|s| s.as_ref()).and_then(|s| s.rows.get(inner as usize).map(|r| (s, r)));
        let Some((sub, row)) = row else {
            cx.st.oracle_failure(json!({"key": key("missing-row"), "what": "returned index does not address a row", "k": k, "index": [outer, inner]}));
            continue;
        };
        if row.len() != sub.ridx.len() {
            cx.st.oracle_failure(json!({"key": key("short-row"), "what": "row shorter than the region index list", "k": k}));
            continue;
        }
        for (ri, reg) in b.pool.iter().enumerate() {
            let want: i64 = input.iter().filter(|(r, _)| *r == ri).map(|(_, d)| *d as i64).sum();
            let got: i64 = sub.ridx.iter().zip(row.iter()).filter(|(x, _)| ds.regions.get(**x as usize) == Some(reg)).map(|(_, d)| *d as i64).sum();
            if want != got {
                cx.st.oracle_failure(json!({"key": key("retrieval"), "what": "retrieved per-region delta differs from the delta set added", "k": k, "region": format!("{:?}", reg), "want": want, "got": got, "input": format!("{:?}", input), "index": [outer, inner], "case": label, "pool": format!("{:?}", b.pool)}));
            }
        }
    }
    Some(ds)
}

fn builder_section(cx: &mut Ctx) {
    let n = if cx.thorough { 2500 } else { 500 };
    for i in 0..n {
        let axes = cx.rng.range(1, 3) as usize;
        let direct = i % 4 == 3;
        // wide stores: many regions (33..200) in a few rows, each column with its own width class, so that one subtable
        // has long runs of equal-width columns next to wider / narrower ones (column order vs region_indexes)
        let wide = i % 13 == 12;
        let small = wide || i % 5 != 4;
        let npool = if wide { *cx.rng.pick(&[33usize, 40, 48, 64, 64, 100, 200]) + cx.rng.below(5) as usize } else { cx.rng.range(1, if small { 5 } else { 12 }) as usize };
        let axes = if wide { 3 } else { axes };
        let col_class: Vec<u64> = (0..npool).map(|_| *cx.rng.pick(&[1u64, 4, 4, 2, 5, 5, 3, 6])).collect();
        if wide {
            cx.st.count(if direct { "ivs.store.wide.direct" } else { "ivs.store.wide.dedup" });
        }
        let mut pool: Vec<Reg> = vec![];
        while pool.len() < npool {
            let r = gen_region(cx, axes, true);
            if !pool.contains(&r) {
                pool.push(r);
            }
        }
        let nsets = if wide { cx.rng.range(2, 7) as usize } else if small { cx.rng.range(0, 10) as usize } else { cx.rng.range(20, if cx.thorough { 3000 } else { 600 }) as usize };
        // a profile decides which magnitude classes dominate (so that shapes repeat and merges happen)
        let profile = cx.rng.below(5);
        let mut inputs: Vec<Vec<(usize, i32)>> = vec![];
        for _ in 0..nsets {
            if !inputs.is_empty() && cx.rng.chance(1, 6) {
                let j = cx.rng.below(inputs.len() as u64) as usize;
                let mut dup = inputs[j].clone();
                if cx.rng.chance(1, 2) {
                    cx.rng.shuffle(&mut dup);
                }
                inputs.push(dup);
                cx.st.count("ivs.set.duplicate");
                continue;
            }
            let mut set = vec![];
            for r in 0..npool {
                if cx.rng.chance(if wide { 5 } else { 2 }, if wide { 6 } else { 3 }) {
                    let class = if wide { col_class[r] } else { match profile {
                        0 => cx.rng.below(7),
                        1 => *cx.rng.pick(&[0, 1, 4, 4, 4]),
                        2 => *cx.rng.pick(&[1, 2, 5, 5, 4]),
                        3 => *cx.rng.pick(&[3, 6, 5, 4, 0]),
                        _ => *cx.rng.pick(&[0, 0, 0, 1, 2, 3]),
                    } };
                    set.push((r, gen_delta(cx, class)));
                }
            }
            if cx.rng.chance(1, 2) {
                cx.rng.shuffle(&mut set);
            }
            cx.st.count(if set.is_empty() { "ivs.set.empty" } else if set.iter().all(|(_, d)| *d == 0) { "ivs.set.all-zero" } else { "ivs.set.general" });
            for (_, d) in &set {
                cx.st.count(match *d {
                    0 => "ivs.delta.zero",
                    -128..=127 => "ivs.delta.i8",
                    -32768..=32767 => "ivs.delta.i16",
                    _ => "ivs.delta.i32",
                });
            }
            inputs.push(set);
        }
        let label = format!("seedcase{}", i);
        cx.st.count(if direct { "ivs.store.direct" } else { "ivs.store.dedup" });
        let built = match run_builder(axes as u16, &pool, &inputs, direct) {
            Ok(b) => b,
            Err(e) => {
                cx.st.oracle_failure(json!({"key": format!("ivs-build-fails:{}", if direct { "direct" } else { "dedup" }), "what": "builder panics or does not compile", "error": e, "pool": format!("{:?}", pool), "inputs": format!("{:?}", &inputs[..inputs.len().min(20)])}));
                continue;
            }
        };
        let Some(ds) = retrieval_oracle(cx, &built, direct, &label) else { continue };
        cx.st.nontrivial(&format!("{:?}{:?}{}", pool, inputs, direct));
        cx.st.add("ivs.subtables", ds.data.len() as u64);
        cx.st.add("ivs.rows", ds.data.iter().flatten().map(|s| s.rows.len() as u64).sum());
        cx.st.add("ivs.regions-pruned", (pool.len() - ds.regions.len().min(pool.len())) as u64);
        for s in ds.data.iter().flatten() {
            cx.st.count(if s.wdc & 0x8000 != 0 { "ivs.subtable.long-words" } else { "ivs.subtable.short-words" });
        }
        // deltas at locations on and between region boundaries, against the INPUT delta sets
        let nloc = if small { 3 } else { 2 };
        for _ in 0..nloc {
            if inputs.is_empty() {
                break;
            }
            let k = cx.rng.below(inputs.len() as u64) as usize;
            let Some((outer, inner)) = built.remap.get(&built.ids[k]).copied() else { continue };
            let coords = gen_coords(cx, &pool, axes);
            if coords.is_empty() {
                continue;
            }
            let got = if small && !wide {
                push_delta_case(cx, &ds, &built.bytes, outer, inner, &coords)
            } else {
                cx.st.evaluations += 1;
                real_compute_delta(&built.bytes, outer, inner, &coords).ok().flatten()
            };
            match got {
                Some(v) => {
                    let pairs: Vec<(i32, &Reg)> = inputs[k].iter().map(|(r, d)| (*d, &pool[*r])).collect();
                    check_delta_ref(cx, &pairs, &coords, v, "built");
                }
                None => cx.st.oracle_failure(json!({"key": "ivs-delta-error", "what": "compute_delta fails on a built store", "k": k})),
            }
        }
        // model case: the builder itself (small stores only)
        if small && !(wide && npool > 110) {
            let mut partition: Vec<Vec<(u16, u32)>> = vec![vec![]; ds.data.len()];
            let mut ok = true;
            for (id, (o, inn)) in &built.remap {
                match partition.get_mut(*o as usize) {
                    Some(p) => p.push((*inn, *id)),
                    None => ok = false,
                }
            }
            if ok {
                for p in partition.iter_mut() {
                    p.sort();
                }
                let cinputs = clist(inputs.iter(), |s| clist(s.iter(), |(r, d)| format!("({}, {})", creg(&pool[*r]), cz(*d as i128))));
                cx.cw.push(format!(
                    "CBuild {} {} {} {} {} {}",
                    cbool(direct),
                    cinputs,
                    czlist(built.ids.iter().map(|v| *v as i128)),
                    clist(partition.iter(), |p| czlist(p.iter().map(|(_, id)| *id as i128))),
                    cstore(&ds),
                    clist(built.remap.iter(), |(id, (o, i))| format!("({}, ({}, {}))", id, o, i))
                ));
                cx.st.count("ivs.model-case");
            }
        }
    }
    // encodings with exactly / about 0xFFFF rows (MAX_ITEMS): group A (two columns, 3 bytes a row) is cheaper than
    // group B (one 32-bit column) and is therefore encoded first; merging them would cost more than it saves
    let fulls: &[(usize, usize)] = if cx.thorough { &[(65535, 5), (65536, 5), (65534, 3), (65535, 0), (131070, 4), (131071, 2)] } else { &[(65535, 5), (65536, 3), (65535, 0)] };
    for (na, nb) in fulls {
        let pool: Vec<Reg> = vec![vec![(0, 16384, 16384)], vec![(-16384, -16384, 0)], vec![(0, 8192, 16384)]];
        let mut inputs: Vec<Vec<(usize, i32)>> = (0..*na).map(|i| vec![(0, 128 + (i % 32000) as i32), (1, 1 + (i / 32000) as i32)]).collect();
        inputs.extend((0..*nb).map(|j| vec![(2usize, 100000 + j as i32)]));
        let label = format!("full{}+{}", na, nb);
        match run_builder(1, &pool, &inputs, false) {
            Ok(b) => {
                if let Some(ds) = retrieval_oracle(cx, &b, false, &label) {
                    cx.st.count("ivs.store.exactly-or-about-0xFFFF-rows");
                    let out: Vec<i128> = ds.data.iter().map(|s| s.as_ref().map(|s| s.item_count as i128).unwrap_or(-1)).collect();
                    let mut sizes = vec![*na as i128];
                    if *nb > 0 {
                        sizes.push(*nb as i128);
                    }
                    cx.cw.push(format!("CChunks {} {}", czlist(sizes), czlist(out.clone())));
                    // the property's wording, directly: no NULL subtable, none above 0xFFFF rows, row counts add up
                    let total: i128 = out.iter().filter(|v| **v >= 0).sum();
                    if out.iter().any(|v| *v < 0 || *v > 0xFFFF) || total != (*na + *nb) as i128 {
                        cx.st.oracle_failure(json!({"key": "ivs-split", "what": "0xFFFF split produced a NULL / oversized subtable or lost rows", "case": label, "item_counts": format!("{:?}", out)}));
                    }
                }
            }
            Err(e) => cx.st.oracle_failure(json!({"key": "ivs-build-fails:full", "what": "builder fails around 0xFFFF rows", "case": label, "error": e})),
        }
    }
    // stores with more than 65 535 distinct rows: the 0xFFFF split (thorough tier only)
    if cx.thorough {
        for t in 0..3 {
            let pool: Vec<Reg> = vec![vec![(0, 16384, 16384)], vec![(-16384, -16384, 0)], vec![(0, 8192, 16384)]];
            let total = 66000 + 500 * t;
            let inputs: Vec<Vec<(usize, i32)>> = (0..total)
                .map(|i| match t {
                    0 => vec![(0, (i % 251) as i32 - 125), (1, (i / 251) as i32 - 128)],
                    1 => vec![(0, i as i32 - 33000), (2, if i % 7 == 0 { 70000 } else { 3 })],
                    _ => vec![(i % 3, i as i32 + 1)],
                })
                .collect();
            match run_builder(1, &pool, &inputs, false) {
                Ok(b) => {
                    if let Some(ds) = retrieval_oracle(cx, &b, false, &format!("big{}", t)) {
                        cx.st.count("ivs.store.over-65535-rows");
                        cx.st.add("ivs.big.subtables", ds.data.len() as u64);
                        if ds.data.iter().flatten().any(|s| s.rows.len() > 0xFFFF) {
                            cx.st.oracle_failure(json!({"key": "ivs-split", "what": "subtable with more than 0xFFFF rows"}));
                        }
                    }
                }
                Err(e) => cx.st.oracle_failure(json!({"key": "ivs-build-fails:big", "what": "builder fails on > 65535 rows", "error": e})),
            }
        }
    }
}

// =====================================================================================
// E. DeltaSetIndexMap
// =====================================================================================
fn dsim_section(cx: &mut Ctx) {
    let n = if cx.thorough { 1500 } else { 300 };
    for i in 0..n {
        // well-formed: through the real writer
        let len = match i % 6 {
            0 => 1,
            1 => 2,
            _ => cx.rng.range(1, 12) as usize,
        };
        let omax = *cx.rng.pick(&[0u32, 1, 3, 255, 256, 65535]);
        let imax = *cx.rng.pick(&[0u32, 1, 2, 127, 128, 255, 256, 4095, 65535]);
        let mut mapping: Vec<u32> = (0..len).map(|_| (cx.rng.below(omax as u64 + 1) as u32) << 16 | cx.rng.below(imax as u64 + 1) as u32).collect();
        if cx.rng.chance(1, 3) && len > 1 {
            let l = mapping[len - 2];
            mapping[len - 1] = l;
            if len > 2 && cx.rng.chance(1, 2) {
                mapping[len - 3] = l;
            }
        }
        let m2 = mapping.clone();
        let Ok(Ok(bytes)) = catch(move || dump_table(&m2.into_iter().collect::<WDsim>())) else {
            cx.st.oracle_failure(json!({"key": "dsim-build-fails", "what": "DeltaSetIndexMap::from_iter / dump_table fails", "mapping": mapping}));
            continue;
        };
        let Ok(r) = RDsim::read(FontData::new(&bytes)) else {
            cx.st.oracle_failure(json!({"key": "dsim-unreadable", "what": "packed DeltaSetIndexMap does not parse", "mapping": mapping}));
            continue;
        };
        let (fmt, mc, data) = match &r {
            RDsim::Format0(f) => (f.entry_format().bits(), f.map_count() as u32, f.map_data().to_vec()),
            RDsim::Format1(f) => (f.entry_format().bits(), f.map_count(), f.map_data().to_vec()),
        };
        cx.st.count(&format!("dsim.entry-size-{}", ((fmt >> 4) & 3) + 1));
        cx.cw.push(format!("CPack {} {} {} {}", czlist(mapping.iter().map(|v| *v as i128)), fmt, mc, cbytes(&data)));
        for idx in (0..len as u32 + 2).chain([65535, 65536, u32::MAX]) {
            let got = r.get(idx).ok().map(|d| (d.outer, d.inner));
            cx.st.evaluations += 1;
            let want = mapping[(idx as usize).min(len - 1)];
            if got != Some(((want >> 16) as u16, want as u16)) {
                cx.st.oracle_failure(json!({"key": "dsim-get", "what": "DeltaSetIndexMap::get differs from the mapping (last entry beyond the count)", "mapping": mapping, "index": idx, "got": format!("{:?}", got)}));
            }
            cx.cw.push(format!(
                "CDsim {} {} {} {} {}",
                fmt,
                mc,
                cbytes(&data),
                idx,
                czlist(got.into_iter().flat_map(|(o, i)| [o as i128, i as i128]))
            ));
        }
        // raw: arbitrary entry format byte, count and data
        let fmt = cx.rng.next_u32() as u8;
        let es = ((fmt >> 4) & 3) as usize + 1;
        let mc = cx.rng.range(0, 5) as u16;
        let mut raw = vec![0u8, fmt];
        be16(&mut raw, mc);
        let data = cx.rng.bytes(es * mc as usize);
        raw.extend_from_slice(&data);
        if let Ok(r) = RDsim::read(FontData::new(&raw)) {
            for idx in 0..mc as u32 + 2 {
                let got = r.get(idx).ok().map(|d| (d.outer, d.inner));
                cx.st.evaluations += 1;
                cx.st.count("dsim.raw");
                cx.cw.push(format!(
                    "CDsim {} {} {} {} {}",
                    fmt,
                    mc,
                    cbytes(&data),
                    idx,
                    czlist(got.into_iter().flat_map(|(o, i)| [o as i128, i as i128]))
                ));
            }
        }
    }
}

// =====================================================================================
// F. HVAR through skrifa GlyphMetrics
// =====================================================================================
fn hvar_section(cx: &mut Ctx) {
    use skrifa::instance::{LocationRef, Size};
    use skrifa::MetadataProvider;
    use write_fonts::tables::{head::Head, hhea::Hhea, hmtx::Hmtx, hmtx::LongMetric, hvar::Hvar, maxp::Maxp};
    let n = if cx.thorough { 200 } else { 40 };
    for i in 0..n {
        let nglyphs = cx.rng.range(1, 8) as usize;
        let nlong = cx.rng.range(1, nglyphs as i64) as usize;
        let wide = i % 8 == 3;
        let advs: Vec<u16> = (0..nlong).map(|_| if wide { cx.rng.range(30000, 65535) as u16 } else { cx.rng.range(0, 3000) as u16 }).collect();
        let lsbs: Vec<i16> = (0..nglyphs).map(|_| cx.rng.range(-500, 500) as i16).collect();
        let pool: Vec<Reg> = vec![vec![(0, 16384, 16384)], vec![(-16384, -16384, 0)], vec![(0, 8192, 16384)], vec![(8192, 16384, 16384)]];
        let big = i % 8 == 7;
        let implicit = i % 2 == 0;
        let nrows = if implicit { nglyphs } else { cx.rng.range(1, 6) as usize };
        let inputs: Vec<Vec<(usize, i32)>> = (0..nrows)
            .map(|_| {
                let mut s = vec![];
                for r in 0..pool.len() {
                    if cx.rng.chance(1, 2) {
                        s.push((r, if big { *cx.rng.pick(&[40000, -40000, 32768, -32769, 65535]) } else { cx.rng.range(-400, 400) as i32 }));
                    }
                }
                s
            })
            .collect();
        // advance map: one entry per glyph up to map_len (shorter than the glyph count sometimes)
        let map_len = cx.rng.range(1, nglyphs as i64) as usize;
        let adv_rows: Vec<usize> = (0..map_len).map(|_| cx.rng.below(nrows as u64) as usize).collect();
        let lsb_rows: Vec<usize> = (0..map_len).map(|_| cx.rng.below(nrows as u64) as usize).collect();
        let (pool2, inputs2, advs2, lsbs2, adv_rows2, lsb_rows2) = (pool.clone(), inputs.clone(), advs.clone(), lsbs.clone(), adv_rows.clone(), lsb_rows.clone());
        let font = catch(move || {
            let mut b = if implicit { VariationStoreBuilder::new_with_implicit_indices(1) } else { VariationStoreBuilder::new(1) };
            let ids: Vec<u32> = inputs2.iter().map(|ds| b.add_deltas(ds.iter().map(|(r, d)| (to_vr(&pool2[*r]), *d)).collect::<Vec<_>>())).collect();
            let (store, remap) = b.build();
            let vi = |row: usize| -> u32 { remap.get(ids[row]).unwrap().into() };
            let hvar = if implicit {
                Hvar::new(store, None, None, None)
            } else {
                Hvar::new(store, Some(adv_rows2.iter().map(|r| vi(*r)).collect()), Some(lsb_rows2.iter().map(|r| vi(*r)).collect()), None)
            };
            let hmtx = Hmtx::new(advs2.iter().zip(lsbs2.iter()).map(|(a, l)| LongMetric::new(*a, *l)).collect(), lsbs2[advs2.len()..].to_vec());
            let hhea = Hhea::new(800.into(), (-200).into(), 0.into(), 3000.into(), 0.into(), 0.into(), 0.into(), 1, 0, 0, advs2.len() as u16);
            let head = Head { units_per_em: 1000, ..Default::default() };
            let maxp = Maxp::new(lsbs2.len() as u16);
            let mut fb = FontBuilder::new();
            fb.add_table(&head).unwrap();
            fb.add_table(&hhea).unwrap();
            fb.add_table(&maxp).unwrap();
            fb.add_table(&hmtx).unwrap();
            fb.add_table(&hvar).unwrap();
            fb.add_raw(Tag::new(b"fvar"), fvar_bytes(&[(100 << 16, 400 << 16, 900 << 16)]));
            fb.build()
        });
        let Ok(font) = font else {
            cx.st.oracle_failure(json!({"key": "hvar-font-build", "what": "could not build the HVAR test font", "error": format!("{:?}", font.err())}));
            continue;
        };
        let Ok(fr) = FontRef::new(&font) else { continue };
        if let Some(mf) = extract_mfont(&fr) {
            let gids: Vec<u32> = (0..nglyphs as u32 + 2).collect();
            let locs: Vec<Vec<i16>> = vec![vec![0], vec![16384], vec![-16384], vec![8192], vec![12288], vec![cx.rng.range(-16384, 16384) as i16], vec![]];
            metrics_queries(cx, "synthetic", &fr, &mf, &gids, &locs);
        }
        for c in [0i16, 16384, -16384, 8192, 4096, 12288, -8192, 1, 16383, cx.rng.range(-16384, 16384) as i16] {
            let coords = [F2Dot14::from_bits(c)];
            for (size, div, sname) in [(Size::unscaled(), 1.0f32, "unscaled"), (Size::new(62.5), 16.0f32, "ppem62.5")] {
            let gm = fr.glyph_metrics(size, LocationRef::new(&coords));
            for gid in 0..nglyphs as u32 + 1 {
                let adv = gm.advance_width(GlyphId::new(gid));
                let lsb = gm.left_side_bearing(GlyphId::new(gid));
                cx.st.evaluations += 1;
                if gid as usize >= nglyphs {
                    if adv.is_some() || lsb.is_some() {
                        cx.st.oracle_failure(json!({"key": "hvar-gid-beyond-count", "what": "metrics returned for a glyph id beyond the glyph count"}));
                    }
                    continue;
                }
                let g = gid as usize;
                cx.st.count(if g >= nlong { "hvar.gid-beyond-long-metrics" } else { "hvar.gid-long-metric" });
                let base_adv = advs[g.min(nlong - 1)] as i64;
                let base_lsb = lsbs[g] as i64;
                let delta_of = |row: usize| -> i64 {
                    let pairs: Vec<(i32, &Reg)> = inputs[row].iter().map(|(r, d)| (*d, &pool[*r])).collect();
                    delta_reference(&pairs, &[c]).2.unwrap() as i64
                };
                let (adv_row, lsb_row) = if implicit {
                    (Some(g), None)
                } else {
                    if g >= map_len {
                        cx.st.count("hvar.gid-beyond-map");
                    }
                    (Some(adv_rows[g.min(map_len - 1)]), Some(lsb_rows[g.min(map_len - 1)]))
                };
                let d_adv = adv_row.map(delta_of).unwrap_or(0);
                let d_lsb = lsb_row.map(delta_of).unwrap_or(0);
                let want_adv = base_adv + d_adv;
                let want_lsb = base_lsb + d_lsb;
                if div == 1.0 {
                    cx.cw.push(format!("CMetric {} {} {}", base_adv, cz(d_adv as i128), cz(adv.map(|a| (a as f64 * 65536.0) as i128).unwrap_or(-999999))));
                }
                cx.st.count(if d_adv.abs() >= 32768 { "hvar.delta-beyond-16-bit" } else { "hvar.delta-16-bit" });
                // known 16.16 range limits get their own keys, decided per metric: a delta of magnitude >= 32768
                // (Fixed::from_i32 wraps), or an unscaled value of magnitude >= 32768 (identity scale overflows);
                // every other failure is keyed hvar-advance / hvar-lsb
                let key_for = |d: i64, want: i64, which: &str| -> String {
                    if d.abs() >= 32768 {
                        format!("hvar-large-delta-{}", which)
                    } else if div == 1.0 && want.abs() >= 32768 {
                        format!("hvar-unscaled-large-value-{}", which)
                    } else {
                        format!("hvar-{}", which)
                    }
                };
                if adv != Some(want_adv as f32 / div) {
                    let key = key_for(d_adv, want_adv, "advance");
                    cx.st.count(&format!("fail.{}.{}", key, sname));
                    // the list of recorded failures is capped: keep a few per key so that a different key cannot be crowded out
                    if *cx.st.counters.get(&format!("fail.{}.{}", key, sname)).unwrap_or(&0) <= 3 {
                    cx.st.oracle_failure(json!({"key": key, "what": "advance is not base + delta from HVAR", "size": sname, "gid": gid, "coord": c, "base": base_adv, "delta": d_adv, "want": want_adv as f32 / div, "got": format!("{:?}", adv), "implicit": implicit}));
                    }
                }
                if lsb != Some(want_lsb as f32 / div) {
                    let key = key_for(d_lsb, want_lsb, "lsb");
                    cx.st.count(&format!("fail.{}.{}", key, sname));
                    if *cx.st.counters.get(&format!("fail.{}.{}", key, sname)).unwrap_or(&0) <= 3 {
                    cx.st.oracle_failure(json!({"key": key, "what": "left side bearing is not base + delta from HVAR", "size": sname, "gid": gid, "coord": c, "base": base_lsb, "delta": d_lsb, "want": want_lsb as f32 / div, "got": format!("{:?}", lsb), "implicit": implicit}));
                    }
                }
            }
            }
        }
    }
}

// =====================================================================================
// G. metrics glue on parsed fonts: model term + independent reference
// =====================================================================================
struct MFont {
    glyph_count: u32,
    upem: u16,
    hm: Vec<(u16, i16)>,
    lsbs: Vec<i16>,
    /// (decoded store, adv map, lsb map); map = (fmt, count, data)
    hvar: Option<(DStore, Option<(u8, u32, Vec<u8>)>, Option<(u8, u32, Vec<u8>)>)>,
    has_gvar: bool,
    axes: usize,
}
fn dsim_parts(m: Option<Result<RDsim, read_fonts::ReadError>>) -> Option<(u8, u32, Vec<u8>)> {
    match m {
        Some(Ok(RDsim::Format0(f))) => Some((f.entry_format().bits(), f.map_count() as u32, f.map_data().to_vec())),
        Some(Ok(RDsim::Format1(f))) => Some((f.entry_format().bits(), f.map_count(), f.map_data().to_vec())),
        _ => None,
    }
}
fn extract_mfont(fr: &FontRef) -> Option<MFont> {
    use read_fonts::TableProvider;
    let hmtx = fr.hmtx().ok()?;
    let hvar = match fr.hvar() {
        Ok(h) => {
            let store = h.item_variation_store().ok()?;
            Some((decode_store(&store)?, dsim_parts(h.advance_width_mapping()), dsim_parts(h.lsb_mapping())))
        }
        Err(_) => None,
    };
    Some(MFont {
        glyph_count: fr.maxp().map(|m| m.num_glyphs() as u32).unwrap_or(0),
        upem: fr.head().map(|h| h.units_per_em()).unwrap_or(0),
        hm: hmtx.h_metrics().iter().map(|m| (m.advance(), m.side_bearing())).collect(),
        lsbs: hmtx.left_side_bearings().iter().map(|l| l.get()).collect(),
        hvar,
        has_gvar: fr.gvar().is_ok(),
        axes: fr.fvar().map(|f| f.axis_count() as usize).unwrap_or(0),
    })
}
fn cdsim(m: &Option<(u8, u32, Vec<u8>)>) -> String {
    match m {
        None => "None".to_string(),
        Some((f, c, d)) => format!("(Some ({}, {}, {}))", f, c, cbytes(d)),
    }
}
fn cmfont(f: &MFont) -> String {
    format!(
        "{{| mf_glyph_count := {}; mf_upem := {}; mf_h_metrics := {}; mf_lsbs := {}; mf_hvar := {} |}}",
        f.glyph_count,
        f.upem,
        clist(f.hm.iter(), |(a, l)| format!("({}, {})", a, cz(*l as i128))),
        czlist(f.lsbs.iter().map(|v| *v as i128)),
        match &f.hvar {
            None => "None".to_string(),
            Some((st, a, l)) => format!("(Some {{| hv_store := {}; hv_adv_map := {}; hv_lsb_map := {} |}})", cstore(st), cdsim(a), cdsim(l)),
        }
    )
}
fn mfont_cells(f: &MFont) -> usize {
    f.hm.len() + f.lsbs.len() + f.hvar.as_ref().map(|(st, a, l)| {
        st.data.iter().flatten().map(|s| s.rows.iter().map(|r| r.len() + 1).sum::<usize>() + s.ridx.len()).sum::<usize>()
            + st.regions.iter().map(|r| r.len() * 3).sum::<usize>()
            + a.as_ref().map(|m| m.2.len()).unwrap_or(0) + l.as_ref().map(|m| m.2.len()).unwrap_or(0)
    }).unwrap_or(0)
}
/// own unpacking of a DeltaSetIndexMap entry (the OpenType text): last entry beyond the count
fn ref_index(m: &(u8, u32, Vec<u8>), gid: u32) -> Option<(usize, usize)> {
    let (fmt, count, data) = m;
    if *count == 0 {
        return None;
    }
    let es = ((fmt >> 4) & 3) as usize + 1;
    let bits = (fmt & 15) as u32 + 1;
    let i = gid.min(count - 1) as usize;
    let e = data.get(i * es..i * es + es)?.iter().fold(0u64, |a, b| a << 8 | *b as u64);
    Some(((e >> bits) as usize, (e & ((1u64 << bits) - 1)) as usize))
}
/// reference delta for a row of the decoded store at coords: (exact integer if all regions single-axis, float sum, tolerance)
fn ref_row_delta(st: &DStore, ix: (usize, usize), coords: &[i16]) -> Option<(Option<i128>, f64, f64)> {
    let sub = st.data.get(ix.0)?.as_ref()?;
    let Some(row) = sub.rows.get(ix.1) else { return Some((Some(0), 0.0, 0.0)) };
    let pairs: Vec<(i32, &Reg)> = row.iter().zip(sub.ridx.iter()).map(|(d, r)| st.regions.get(*r as usize).map(|reg| (*d, reg))).collect::<Option<_>>()?;
    let (sum, tol, exact) = delta_reference(&pairs, coords);
    Some((exact, sum, tol))
}

/// queries every (gid, coords) through skrifa GlyphMetrics at two sizes; pushes one model case per size and checks the
/// unscaled values against the independent reference. `known` = the recorded 16.16 range limits apply (synthetic fonts)
fn metrics_queries(cx: &mut Ctx, name: &str, fr: &FontRef, mf: &MFont, gids: &[u32], locs: &[Vec<i16>]) {
    use skrifa::instance::{LocationRef, Size};
    use skrifa::MetadataProvider;
    let small = mfont_cells(mf) <= 40000;
    for (size, ppem64, sname) in [(Size::unscaled(), None, "unscaled"), (Size::new(16.0), Some(1024i64), "ppem16")] {
        let mut queries = vec![];
        for loc in locs {
            let coords: Vec<F2Dot14> = loc.iter().map(|c| F2Dot14::from_bits(*c)).collect();
            let gm = fr.glyph_metrics(size, LocationRef::new(&coords));
            for gid in gids {
                let adv = gm.advance_width(GlyphId::new(*gid));
                let lsb = gm.left_side_bearing(GlyphId::new(*gid));
                cx.st.evaluations += 1;
                let bits = |v: Option<f32>| -> i128 {
                    match v {
                        None => -999999,
                        Some(x) => {
                            let b = (x as f64 * 65536.0).round() as i128;
                            // f32 holds 24 significant bits: larger raw values were rounded by to_f32 (not modelled)
                            if b.abs() < (1 << 24) || b % 65536 == 0 { b } else { -888888 }
                        }
                    }
                };
                queries.push(format!("({}, {}, {}, {})", gid, cz16(loc), cz(bits(adv)), cz(bits(lsb))));
                // independent reference (unscaled only): hmtx rule + index map rule + spec delta
                if ppem64.is_none() && *gid < mf.glyph_count {
                    let g = *gid as usize;
                    let base_adv = mf.hm.get(g).map(|m| m.0).or(mf.hm.last().map(|m| m.0)).unwrap_or(0) as i64;
                    let base_lsb = mf.hm.get(g).map(|m| m.1).or(mf.lsbs.get(g.saturating_sub(mf.hm.len())).copied()).unwrap_or(0) as i64;
                    cx.st.count(if g >= mf.hm.len() { "metrics.gid-beyond-long-metrics" } else { "metrics.gid-long-metric" });
                    let zero = loc.iter().all(|c| *c == 0);
                    for (which, base, got, map) in [("advance", base_adv, adv, 0), ("lsb", base_lsb, lsb, 1)] {
                        let Some((st, am, lm)) = &mf.hvar else {
                            if !mf.has_gvar && got != Some(base as f32) {
                                cx.st.oracle_failure(json!({"key": format!("metrics-{}-no-hvar", which), "font": name, "gid": gid, "want": base, "got": format!("{:?}", got)}));
                            }
                            continue;
                        };
                        let ix = if zero { None } else if map == 0 {
                            match am { Some(m) => { if *gid >= m.1 { cx.st.count("metrics.gid-beyond-advance-map"); } ref_index(m, *gid) }, None => Some((0usize, g & 0xFFFF)) }
                        } else {
                            match lm { Some(m) => ref_index(m, *gid), None => None }
                        };
                        let (exact, sum, tol) = match ix { Some(ix) => ref_row_delta(st, ix, loc).unwrap_or((Some(0), 0.0, 0.0)), None => (Some(0), 0.0, 0.0) };
                        let Some(g) = got else {
                            cx.st.oracle_failure(json!({"key": format!("metrics-{}-none", which), "font": name, "gid": gid}));
                            continue;
                        };
                        let ok = match exact {
                            Some(d) => { cx.st.count("metrics.ref-exact"); d.abs() >= 32768 || (base as i128 + d).abs() >= 32768 || g as f64 == (base as i128 + d) as f64 }
                            None => { cx.st.count("metrics.ref-rational"); sum.abs() >= 32000.0 || (g as f64 - (base as f64 + sum)).abs() <= tol + 1.0 }
                        };
                        if !ok {
                            cx.st.oracle_failure(json!({"key": format!("metrics-{}", which), "what": "metric is not base + HVAR delta at the (clamped) index", "font": name, "gid": gid, "coords": loc, "base": base, "delta_exact": format!("{:?}", exact), "delta_sum": sum, "got": g}));
                        }
                    }
                }
            }
        }
        if small && (mf.hvar.is_some() || !mf.has_gvar) {
            cx.st.count(&format!("metrics.model-case.{}", sname));
            for chunk in queries.chunks(60) {
                cx.cw.push(format!("CFontMetrics {} {} {}", cmfont(mf), match ppem64 { Some(p) => format!("(Some {})", p), None => "None".to_string() }, clist(chunk.iter(), |q| q.clone())));
            }
        } else {
            cx.st.count("metrics.model-case-skipped");
        }
    }
}

fn fonts_section(cx: &mut Ctx) {
    let dir = "/repo/font-test-data/test_data/ttf";
    let mut names: Vec<String> = std::fs::read_dir(dir).map(|rd| rd.flatten().map(|e| e.file_name().to_string_lossy().to_string()).collect()).unwrap_or_default();
    names.sort();
    for name in names {
        let Ok(bytes) = std::fs::read(format!("{}/{}", dir, name)) else { continue };
        let Ok(fr) = FontRef::new(&bytes) else { continue };
        let Some(mf) = extract_mfont(&fr) else { continue };
        if mf.axes == 0 {
            continue;
        }
        cx.st.count(if mf.hvar.is_some() { "fonts.variable-with-hvar" } else if mf.has_gvar { "fonts.variable-gvar-only" } else { "fonts.variable-no-metrics-variation" });
        let n = mf.glyph_count;
        let mut gids: Vec<u32> = vec![0, 1, n.saturating_sub(1), n, n + 1, mf.hm.len() as u32, (mf.hm.len() as u32).saturating_sub(1)];
        if let Some((_, Some(m), _)) = &mf.hvar {
            gids.extend([m.1.saturating_sub(1), m.1, m.1 + 1]);
        }
        let extra = if cx.thorough { 60 } else { 20 };
        for _ in 0..extra {
            gids.push(cx.rng.below(n as u64 + 1) as u32);
        }
        gids.sort();
        gids.dedup();
        let mut locs: Vec<Vec<i16>> = vec![vec![0; mf.axes], vec![16384; mf.axes], vec![-16384; mf.axes]];
        for _ in 0..(if cx.thorough { 12 } else { 5 }) {
            locs.push((0..mf.axes).map(|_| match cx.rng.below(5) { 0 => 0, 1 => 16384, 2 => -16384, 3 => 8192, _ => cx.rng.range(-16384, 16384) as i16 }).collect());
        }
        locs.push(vec![8192]); // fewer coords than axes (or exactly one)
        metrics_queries(cx, &name, &fr, &mf, &gids, &locs);
    }
}

// =====================================================================================
// B2. Fvar::user_to_normalized / skrifa location_to_slice over all axes, with REUSED (dirty) output slices
// =====================================================================================
fn fvar_bytes_tagged(axes: &[(u32, i32, i32, i32)]) -> Vec<u8> {
    let mut v = fvar_bytes(&axes.iter().map(|a| (a.1, a.2, a.3)).collect::<Vec<_>>());
    for (i, a) in axes.iter().enumerate() {
        v[16 + 20 * i..16 + 20 * i + 4].copy_from_slice(&a.0.to_be_bytes());
    }
    v
}
fn u2n_multi_section(cx: &mut Ctx) {
    use skrifa::MetadataProvider;
    let tags: [u32; 4] = [u32::from_be_bytes(*b"wght"), u32::from_be_bytes(*b"wdth"), u32::from_be_bytes(*b"opsz"), u32::from_be_bytes(*b"ZZZZ")];
    let recs = [(100 << 16, 400 << 16, 900 << 16), (0, 0, 1000 << 16), (-(1 << 16), 0, 1 << 16), (50 << 16, 100 << 16, 100 << 16), (8 << 16, 14 << 16, 144 << 16)];
    let n = if cx.thorough { 400 } else { 80 };
    for i in 0..n {
        let naxes = cx.rng.range(1, 4) as usize;
        // tags of the font's axes: usually distinct, sometimes one tag twice (the code handles that explicitly)
        let axes: Vec<(u32, i32, i32, i32)> = (0..naxes)
            .map(|k| {
                let t = if cx.rng.chance(1, 5) { tags[cx.rng.below(3) as usize] } else { tags[k % 3] };
                let r = *cx.rng.pick(&recs);
                (t, r.0, r.1, r.2)
            })
            .collect();
        let with_avar = i % 3 != 0;
        let nmaps = if with_avar { if cx.rng.chance(1, 4) { cx.rng.range(0, naxes as i64) as usize } else { naxes } } else { 0 };
        let maps: Vec<Vec<(i16, i16)>> = (0..nmaps).map(|_| { let k = if cx.rng.chance(2, 3) { 1 } else { cx.rng.below(6) }; gen_map(cx, k).0 }).collect();
        let fb = fvar_bytes_tagged(&axes);
        let ab = avar_bytes(&maps);
        let font = {
            let mut b = FontBuilder::new();
            b.add_raw(Tag::new(b"fvar"), fb.clone());
            if with_avar {
                b.add_raw(Tag::new(b"avar"), ab.clone());
            }
            b.build()
        };
        let caxes = clist(axes.iter(), |a| format!("({}, {}, {}, {})", a.0, cz(a.1 as i128), cz(a.2 as i128), cz(a.3 as i128)));
        let cmaps_all = if with_avar { format!("(Some {})", clist(maps.iter(), |m| cmaps(m))) } else { "None".to_string() };
        // one output vector per slice length, REUSED across the requests below
        let lens: Vec<usize> = vec![naxes, naxes.saturating_sub(1), naxes + 1, naxes + 3, 0];
        let mut reused: Vec<Vec<i16>> = lens.iter().map(|l| (0..*l).map(|_| cx.rng.range(-32768, 32767) as i16).collect()).collect();
        let mut reused_skrifa: Vec<Vec<i16>> = reused.clone();
        for req in 0..5 {
            // settings: full, partial, empty, duplicates of one tag, unknown tags only
            let settings: Vec<(u32, i32)> = match req {
                0 => axes.iter().map(|a| (a.0, a.3)).collect(), // every axis at its maximum: leaves non-zero coordinates behind
                1 => vec![],
                _ => {
                    let k = cx.rng.range(0, 4) as usize;
                    (0..k)
                        .map(|_| {
                            let t = if cx.rng.chance(1, 4) { tags[3] } else { tags[cx.rng.below(3) as usize] };
                            let r = *cx.rng.pick(&recs);
                            let v = match cx.rng.below(4) { 0 => r.0, 1 => r.2, 2 => r.1, _ => (cx.rng.range(-4000, 8000) * 16384) as i32 };
                            (t, v)
                        })
                        .collect()
                }
            };
            cx.st.count(if settings.is_empty() { "u2n-multi.settings.empty" } else if settings.iter().all(|s| s.0 == tags[3]) { "u2n-multi.settings.unknown-only" } else if settings.len() < naxes { "u2n-multi.settings.partial" } else { "u2n-multi.settings.full-or-more" });
            let csettings = clist(settings.iter(), |s| format!("({}, {})", s.0, cz(s.1 as i128)));
            for (li, len) in lens.iter().enumerate() {
                let run_raw = |buf: &[i16]| -> Result<Vec<i16>, String> {
                    let (fb, ab, settings, mut out) = (fb.clone(), ab.clone(), settings.clone(), buf.iter().map(|v| F2Dot14::from_bits(*v)).collect::<Vec<_>>());
                    catch(move || {
                        let f = Fvar::read(FontData::new(&fb)).unwrap();
                        let a = Avar::read(FontData::new(&ab)).unwrap();
                        f.user_to_normalized(if with_avar { Some(&a) } else { None }, settings.iter().map(|s| (Tag::from_be_bytes(s.0.to_be_bytes()), Fixed::from_bits(s.1))), &mut out);
                        out.iter().map(|v| v.to_bits()).collect()
                    })
                };
                let run_skrifa = |buf: &[i16]| -> Result<Vec<i16>, String> {
                    let (font, settings, mut out) = (font.clone(), settings.clone(), buf.iter().map(|v| F2Dot14::from_bits(*v)).collect::<Vec<_>>());
                    catch(move || {
                        let fr = FontRef::new(&font).unwrap();
                        fr.axes().location_to_slice(settings.iter().map(|s| (Tag::from_be_bytes(s.0.to_be_bytes()), (s.1 as f64 / 65536.0) as f32)), &mut out);
                        out.iter().map(|v| v.to_bits()).collect()
                    })
                };
                let fresh = run_raw(&vec![0i16; *len]);
                for (api, dirty_in, res) in [("raw", reused[li].clone(), run_raw(&reused[li])), ("skrifa", reused_skrifa[li].clone(), run_skrifa(&reused_skrifa[li]))] {
                    cx.st.evaluations += 1;
                    cx.st.count(&format!("u2n-multi.{}.len{}", api, if *len == naxes { "=axes" } else if *len < naxes { "<axes" } else { ">axes" }));
                    if dirty_in.iter().any(|v| *v != 0) {
                        cx.st.count("u2n-multi.dirty-buffer");
                    }
                    cx.st.nontrivial(&format!("{:?}{:?}{:?}{:?}{}", axes, maps, settings, dirty_in, api));
                    let out = match &res { Ok(v) => v.iter().map(|x| *x as i128).collect::<Vec<_>>(), Err(_) => vec![-999] };
                    cx.cw.push(format!("CU2NMulti {} {} {} {} {}", caxes, cmaps_all, csettings, cz16(&dirty_in), czlist(out)));
                    match (&res, &fresh) {
                        (Ok(r), Ok(f)) => {
                            if r != f {
                                cx.st.oracle_failure(json!({"key": format!("u2n-stale-buffer:{}", api), "what": "the result depends on what the output slice held before the call", "axes": format!("{:?}", axes), "settings": format!("{:?}", settings), "buffer_before": dirty_in, "got": r, "fresh": f}));
                            }
                            for (j, v) in r.iter().enumerate() {
                                let unset = j >= naxes || !settings.iter().any(|s| s.0 == axes[j].0);
                                if unset && *v != 0 {
                                    cx.st.oracle_failure(json!({"key": format!("u2n-unset-axis-nonzero:{}", api), "what": "an axis without a setting (or an excess entry) is not at the default 0", "axis_index": j, "axes": format!("{:?}", axes), "settings": format!("{:?}", settings), "buffer_before": dirty_in, "got": r}));
                                }
                            }
                        }
                        _ => cx.st.oracle_failure(json!({"key": format!("u2n-panic:{}", api), "what": "user_to_normalized panics", "axes": format!("{:?}", axes), "settings": format!("{:?}", settings)})),
                    }
                    if let Ok(r) = res {
                        if api == "raw" { reused[li] = r } else { reused_skrifa[li] = r }
                    }
                }
            }
        }
    }
}

fn main() {
    silence_panics();
    let args: Vec<String> = std::env::args().collect();
    let thorough = tier_is_thorough(&args);
    let seed = seed_from_env();
    let dir = out_dir(&args, "C11");
    let cw = CaseWriter::new(
        &dir,
        "From Coq Require Import ZArith List. Import ListNotations. Open Scope Z_scope.\nFrom FV Require Import Lib.Cases C11.Model.",
        "case",
        "check_case",
        if thorough { 1200 } else { 700 },
    );
    let mut cx = Ctx { st: Stats::new(), cw, rng: Rng::new(seed), thorough };
    norm_section(&mut cx);
    avar_section(&mut cx);
    u2n_multi_section(&mut cx);
    tent_section(&mut cx);
    builder_section(&mut cx);
    dsim_section(&mut cx);
    hvar_section(&mut cx);
    fonts_section(&mut cx);
    let shards = cx.cw.finish();
    cx.st.v.insert("shards".into(), shards.into());
    cx.st.v.insert("model_cases".into(), cx.cw.len().into());
    cx.st.write(
        &dir,
        "axis records (valid, degenerate, extreme) x boundary user values; segment maps (valid, empty, single, malformed) x coords on/between/outside points; assembled stores with boundary tents and raw rows; random multisets of delta sets (8/16/32-bit, zeros, duplicates) through the real VariationStoreBuilder in both storage modes; DeltaSetIndexMaps packed by the writer and raw; HVAR fonts through skrifa. non-trivial = distinct (record,value) / (map,coord) / (region,coords) / builder inputs",
    );
    println!("cases={} shards={} oracle_failures={}", cx.cw.len(), shards, cx.st.oracle_failures.len());
}
