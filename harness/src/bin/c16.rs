//! C16 harness: layout builders (coverage / classdef) and GPOS overflow splitting / extension promotion.
//!
//! * glyph sets / class assignments -> real CoverageTableBuilder / ClassDef builders -> dump_table ->
//!   read-fonts `get` for every probe glyph; shards compare with coq/C16/Model.v (format chosen, arrays /
//!   ranges, answers); raw (malformed) tables through the readers as a boundary stream.
//! * pair-rule sets and mark/base sets, tiny .. several times 64 KiB, compiled by the real PairPosBuilder /
//!   MarkToBaseBuilder inside a Gpos table (dump_table: forces splitting and promotion); a reference lookup
//!   walker over the compiled bytes (read-fonts) evaluates every pair that has a rule plus a sample without
//!   and compares with the input rules (implementation-only oracle).  Split structure of small abstract
//!   summaries goes to the shards (split_coverage, class re-basing, mark re-indexing, promotion header).
use read_fonts::tables::gpos as rgpos;
use read_fonts::tables::layout as rlayout;
use read_fonts::{FontData, FontRead};
use serde_json::json;
use std::collections::{BTreeMap, BTreeSet, HashMap};
use vh::*;
use write_fonts::tables::gpos as wgpos;
use write_fonts::tables::gpos::builders::{AnchorBuilder, CursivePosBuilder, MarkToBaseBuilder, MarkToLigBuilder, MarkToMarkBuilder, PairPosBuilder, ValueRecordBuilder};
use write_fonts::tables::layout as wlayout;
use write_fonts::tables::layout::builders::{Builder, ClassDefBuilder, CoverageTableBuilder, DeviceOrDeltas, LookupBuilder, Metric};
use write_fonts::tables::variations::ivs_builder::VariationStoreBuilder;
use write_fonts::types::GlyphId16;

type Flat = (i64, Vec<i64>);

fn cflat(f: &Flat) -> String {
    format!("({}, {})", f.0, czlist(f.1.iter().map(|v| *v as i128)))
}
fn cpairs(p: &[(i64, i64)]) -> String {
    clist(p.iter(), |(a, b)| format!("({}, {})", cz(*a as i128), cz(*b as i128)))
}
fn gid(g: u16) -> GlyphId16 {
    GlyphId16::new(g)
}

// ------------------------------------------------------------------------------------------------
// coverage / classdef

fn flat_of_rcov(c: &rlayout::CoverageTable) -> Flat {
    match c {
        rlayout::CoverageTable::Format1(t) => (1, t.glyph_array().iter().map(|g| g.get().to_u16() as i64).collect()),
        rlayout::CoverageTable::Format2(t) => (
            2,
            t.range_records()
                .iter()
                .flat_map(|r| [r.start_glyph_id().to_u16() as i64, r.end_glyph_id().to_u16() as i64, r.start_coverage_index() as i64])
                .collect(),
        ),
    }
}
fn flat_of_wcov(c: &wlayout::CoverageTable) -> Flat {
    match c {
        wlayout::CoverageTable::Format1(t) => (1, t.glyph_array.iter().map(|g| g.to_u16() as i64).collect()),
        wlayout::CoverageTable::Format2(t) => (
            2,
            t.range_records
                .iter()
                .flat_map(|r| [r.start_glyph_id.to_u16() as i64, r.end_glyph_id.to_u16() as i64, r.start_coverage_index as i64])
                .collect(),
        ),
    }
}
fn flat_of_rcd(c: &rlayout::ClassDef) -> Flat {
    match c {
        rlayout::ClassDef::Format1(t) => {
            let mut v = vec![t.start_glyph_id().to_u16() as i64];
            v.extend(t.class_value_array().iter().map(|c| c.get() as i64));
            (1, v)
        }
        rlayout::ClassDef::Format2(t) => (
            2,
            t.class_range_records()
                .iter()
                .flat_map(|r| [r.start_glyph_id().to_u16() as i64, r.end_glyph_id().to_u16() as i64, r.class() as i64])
                .collect(),
        ),
    }
}
fn flat_of_wcd(c: &wlayout::ClassDef) -> Flat {
    match c {
        wlayout::ClassDef::Format1(t) => {
            let mut v = vec![t.start_glyph_id.to_u16() as i64];
            v.extend(t.class_value_array.iter().map(|c| *c as i64));
            (1, v)
        }
        wlayout::ClassDef::Format2(t) => (
            2,
            t.class_range_records
                .iter()
                .flat_map(|r| [r.start_glyph_id.to_u16() as i64, r.end_glyph_id.to_u16() as i64, r.class as i64])
                .collect(),
        ),
    }
}

fn cov_bytes(f: &Flat) -> Vec<u8> {
    let mut b = vec![];
    b.extend((f.0 as u16).to_be_bytes());
    let n = if f.0 == 1 { f.1.len() } else { f.1.len() / 3 };
    b.extend((n as u16).to_be_bytes());
    for v in &f.1 {
        b.extend((*v as u16).to_be_bytes());
    }
    b
}
fn cd_bytes(f: &Flat) -> Vec<u8> {
    let mut b = vec![];
    b.extend((f.0 as u16).to_be_bytes());
    if f.0 == 1 {
        b.extend((f.1[0] as u16).to_be_bytes());
        b.extend(((f.1.len() - 1) as u16).to_be_bytes());
        for v in &f.1[1..] {
            b.extend((*v as u16).to_be_bytes());
        }
    } else {
        b.extend(((f.1.len() / 3) as u16).to_be_bytes());
        for v in &f.1 {
            b.extend((*v as u16).to_be_bytes());
        }
    }
    b
}

/// probe a coverage table: -2 panic, -1 none, idx
fn cov_probe(bytes: &[u8], g: u16) -> i64 {
    let b = bytes.to_vec();
    match catch(move || {
        let c = rlayout::CoverageTable::read(FontData::new(&b)).unwrap();
        c.get(gid(g))
    }) {
        Ok(Some(i)) => i as i64,
        Ok(None) => -1,
        Err(_) => -2,
    }
}
fn cd_probe(bytes: &[u8], g: u16) -> i64 {
    let c = rlayout::ClassDef::read(FontData::new(bytes)).unwrap();
    c.get(gid(g)) as i64
}

fn gen_glyph_set(rng: &mut Rng) -> Vec<u16> {
    let mut v: Vec<u16> = vec![];
    let base: u16 = match rng.below(6) {
        0 => 0,
        1 => 65535 - rng.below(40) as u16,
        2 => 65000 + rng.below(400) as u16,
        _ => rng.below(3000) as u16,
    };
    let nruns = rng.below(7);
    let mut cur = base as u32;
    for _ in 0..nruns {
        let len = match rng.below(4) {
            0 => 1,
            1 => 2,
            2 => 3 + rng.below(3),
            _ => 1 + rng.below(12),
        };
        for k in 0..len {
            v.push(((cur + k as u32) & 0xffff) as u16);
        }
        cur += len as u32 + match rng.below(4) { 0 => 0, 1 => 1, 2 => 2, _ => rng.below(300) as u32 };
    }
    for _ in 0..rng.below(5) {
        v.push(match rng.below(4) { 0 => 0, 1 => 65535, 2 => 65534, _ => rng.below(65536) as u16 });
    }
    // duplicates and disorder
    if !v.is_empty() && rng.chance(1, 2) {
        for _ in 0..rng.below(4) {
            let x = *rng.pick(&v);
            v.push(x);
        }
    }
    rng.shuffle(&mut v);
    v
}

fn probes_for(rng: &mut Rng, glyphs: &[u16]) -> Vec<u16> {
    let mut p: BTreeSet<u16> = BTreeSet::new();
    for g in glyphs {
        p.insert(*g);
        p.insert(g.wrapping_add(1));
        p.insert(g.wrapping_sub(1));
    }
    p.insert(0);
    p.insert(65535);
    for _ in 0..4 {
        p.insert(rng.below(65536) as u16);
    }
    let mut v: Vec<u16> = p.into_iter().collect();
    if v.len() > 80 {
        rng.shuffle(&mut v);
        v.truncate(80);
    }
    v
}

fn coverage_cases(rng: &mut Rng, st: &mut Stats, cw: &mut CaseWriter, n: usize) {
    // fixed boundary inputs first (stable keys)
    let mut fixed: Vec<Vec<u16>> = vec![
        vec![],
        vec![0],
        vec![65535],
        vec![1, 2, 3, 4],
        vec![1, 2, 3],
        (1..=10).chain([65535]).collect(),
        (65530..=65535).collect(),
        vec![5, 5, 5],
        (0..=3).chain(10..=13).chain(20..=23).collect(),
        (100..140).chain([65000, 65001, 65002, 65003]).collect(),
    ];
    for i in 0..n {
        let input = if i < fixed.len() { std::mem::take(&mut fixed[i]) } else { gen_glyph_set(rng) };
        let inp = input.clone();
        let built = catch(move || {
            let c = CoverageTableBuilder::from_glyphs(inp.iter().map(|g| gid(*g)).collect()).build();
            write_fonts::dump_table(&c).unwrap()
        });
        st.evaluations += 1;
        let bytes = match built {
            Ok(b) => b,
            Err(e) => {
                st.oracle_failure(json!({"key": format!("cov-build-panic:{:?}", input), "why": e}));
                continue;
            }
        };
        let rc = rlayout::CoverageTable::read(FontData::new(&bytes)).unwrap();
        let flat = flat_of_rcov(&rc);
        st.count(&format!("cov_build_format{}", flat.0));
        let sorted: Vec<u16> = input.iter().copied().collect::<BTreeSet<_>>().into_iter().collect();
        let probes = probes_for(rng, &input);
        let mut ans = vec![];
        for g in &probes {
            let r = cov_probe(&bytes, *g);
            // oracle: the property's wording
            let exp = sorted.binary_search(g).map(|i| i as i64).unwrap_or(-1);
            if r != exp {
                let key = if r == -2 { "cov2-get-u16-add-overflow".to_string() } else { format!("cov-get:{:?}:{}", sorted, g) };
                st.oracle_failure(json!({"key": key, "what": "coverage get != index in the sorted glyph set", "format": flat.0,
                    "glyphs": sorted, "probe": g, "expected": exp, "got": r}));
                st.count(if r == -2 { "cov_get_panics" } else { "cov_get_wrong" });
            }
            ans.push((*g as i64, r));
        }
        // iteration = the set
        let it: Vec<u16> = rc.iter().map(|g| g.to_u16()).collect();
        if it != sorted {
            st.oracle_failure(json!({"key": format!("cov-iter:{:?}", sorted), "what": "coverage iter != sorted set"}));
        }
        if sorted.len() > 2 {
            st.nontrivial(&format!("cov {:?}", sorted));
        }
        st.sample(json!({"kind":"coverage","input":input,"format":flat.0}));
        cw.push(format!("CCovBuild {} {} {}", czlist(input.iter().map(|g| *g as i128)), cflat(&flat), cpairs(&ans)));
    }
}

fn raw_coverage_cases(rng: &mut Rng, st: &mut Stats, cw: &mut CaseWriter, n: usize) {
    for _ in 0..n {
        let fmt = 1 + rng.below(2) as i64;
        let mut data: Vec<i64> = vec![];
        let mut interesting: Vec<u16> = vec![];
        if fmt == 1 {
            let len = rng.below(12);
            let sorted = rng.chance(1, 2);
            let mut v: Vec<u16> = (0..len).map(|_| if rng.chance(1, 3) { rng.below(20) as u16 } else { rng.below(65536) as u16 }).collect();
            if sorted {
                v.sort();
            }
            interesting = v.clone();
            data = v.iter().map(|g| *g as i64).collect();
        } else {
            let len = rng.below(7);
            let mut s: u32 = rng.below(50) as u32;
            let mut ci: u32 = 0;
            for _ in 0..len {
                let l = rng.below(6) as u32;
                let (a, b) = if rng.chance(1, 8) { (s + l, s) } else { (s, s + l) };
                let c = match rng.below(5) { 0 => rng.below(65536) as u32, 1 => 65535 - rng.below(10) as u32, _ => ci };
                data.extend([(a & 0xffff) as i64, (b & 0xffff) as i64, (c & 0xffff) as i64]);
                interesting.push(a as u16);
                interesting.push(b as u16);
                ci += l + 1;
                s = match rng.below(4) { 0 => s.saturating_sub(rng.below(5) as u32), 1 => 60000 + rng.below(5536) as u32, _ => s + l + 1 + rng.below(4) as u32 };
            }
        }
        let flat = (fmt, data);
        let bytes = cov_bytes(&flat);
        if rlayout::CoverageTable::read(FontData::new(&bytes)).is_err() {
            continue;
        }
        let probes = probes_for(rng, &interesting);
        let ans: Vec<(i64, i64)> = probes.iter().map(|g| (*g as i64, cov_probe(&bytes, *g))).collect();
        st.evaluations += 1;
        st.count(&format!("cov_raw_format{}", fmt));
        if ans.iter().any(|a| a.1 == -2) {
            st.count("cov_raw_panics");
        }
        cw.push(format!("CCovRaw {} {}", cflat(&flat), cpairs(&ans)));
    }
}

fn gen_class_assignment(rng: &mut Rng) -> Vec<(u16, u16)> {
    let mut v = vec![];
    let mut cur: u32 = match rng.below(4) { 0 => 0, 1 => 65500, _ => rng.below(2000) as u32 };
    for _ in 0..rng.below(7) {
        let len = 1 + rng.below(6) as u32;
        let cls = match rng.below(6) { 0 => 0, _ => 1 + rng.below(4) as u16 };
        let per_glyph = rng.chance(1, 4);
        for k in 0..len {
            let c = if per_glyph { rng.below(4) as u16 } else { cls };
            if cur + k <= 65535 {
                v.push(((cur + k) as u16, c));
            }
        }
        cur += len + match rng.below(4) { 0 => 0, 1 => 1, _ => rng.below(30) as u32 };
    }
    if !v.is_empty() && rng.chance(1, 3) {
        // duplicate glyphs with another class (BTreeMap: the last one wins, zero entries are dropped first)
        for _ in 0..1 + rng.below(3) {
            let g = rng.pick(&v).0;
            v.push((g, rng.below(4) as u16));
        }
    }
    if rng.chance(1, 2) {
        rng.shuffle(&mut v);
    }
    v
}

fn classdef_cases(rng: &mut Rng, st: &mut Stats, cw: &mut CaseWriter, n: usize) {
    let mut fixed: Vec<Vec<(u16, u16)>> = vec![
        vec![],
        vec![(4, 0), (5, 1)],
        vec![(1, 1), (2, 1), (3, 1)],
        vec![(3, 4), (4, 6), (5, 1), (9, 5), (10, 2), (11, 3)],
        vec![(65535, 7)],
        vec![(65534, 1), (65535, 2)],
        vec![(0, 3)],
        vec![(7, 2), (7, 0)],
        vec![(7, 0), (7, 2)],
        vec![(7, 2), (7, 3)],
    ];
    for i in 0..n {
        let input = if i < fixed.len() { std::mem::take(&mut fixed[i]) } else { gen_class_assignment(rng) };
        let inp = input.clone();
        let built = catch(move || {
            let c: wlayout::ClassDef = inp.iter().map(|(g, c)| (gid(*g), *c)).collect();
            write_fonts::dump_table(&c).unwrap()
        });
        st.evaluations += 1;
        let bytes = match built {
            Ok(b) => b,
            Err(e) => {
                st.oracle_failure(json!({"key": format!("cd-build-panic:{:?}", input), "why": e}));
                continue;
            }
        };
        let rc = rlayout::ClassDef::read(FontData::new(&bytes)).unwrap();
        let flat = flat_of_rcd(&rc);
        st.count(&format!("cd_build_format{}", flat.0));
        // oracle: class assignment as given (glyphs given once); with duplicates: last non-zero assignment
        let mut exp: BTreeMap<u16, u16> = BTreeMap::new();
        let mut dup = false;
        for (g, c) in &input {
            if *c != 0 {
                if exp.insert(*g, *c).is_some() {
                    dup = true;
                }
            } else if exp.contains_key(g) {
                dup = true;
            }
        }
        if dup {
            st.count("cd_build_duplicate_glyphs");
        }
        let probes = probes_for(rng, &input.iter().map(|p| p.0).collect::<Vec<_>>());
        let mut ans = vec![];
        for g in &probes {
            let r = cd_probe(&bytes, *g);
            let e = exp.get(g).copied().unwrap_or(0) as i64;
            if r != e {
                st.oracle_failure(json!({"key": format!("cd-get:{:?}:{}", input, g), "what": "classdef get != assigned class",
                    "format": flat.0, "expected": e, "got": r}));
            }
            ans.push((*g as i64, r));
        }
        if exp.len() > 2 {
            st.nontrivial(&format!("cd {:?}", input));
        }
        st.sample(json!({"kind":"classdef","input":input,"format":flat.0}));
        cw.push(format!(
            "CCdBuild {} {} {}",
            clist(input.iter(), |(g, c)| format!("({}, {})", g, c)),
            cflat(&flat),
            cpairs(&ans)
        ));
    }
}

fn raw_classdef_cases(rng: &mut Rng, st: &mut Stats, cw: &mut CaseWriter, n: usize) {
    for _ in 0..n {
        let fmt = 1 + rng.below(2) as i64;
        let mut data: Vec<i64> = vec![];
        let mut interesting: Vec<u16> = vec![];
        if fmt == 1 {
            let start = match rng.below(3) { 0 => 0, 1 => 65535 - rng.below(6) as u16, _ => rng.below(100) as u16 };
            data.push(start as i64);
            let len = rng.below(10);
            for k in 0..len {
                data.push(rng.below(5) as i64);
                interesting.push(start.wrapping_add(k as u16));
            }
            interesting.push(start);
            interesting.push(start.wrapping_add(len as u16));
        } else {
            let len = rng.below(7);
            let mut s: u32 = rng.below(40) as u32;
            for _ in 0..len {
                let l = rng.below(5) as u32;
                let (a, b) = if rng.chance(1, 8) { (s + l, s) } else { (s, s + l) };
                data.extend([(a & 0xffff) as i64, (b & 0xffff) as i64, rng.below(6) as i64]);
                interesting.push(a as u16);
                interesting.push(b as u16);
                s = match rng.below(5) { 0 => s.saturating_sub(rng.below(6) as u32), 1 => s, _ => s + l + 1 + rng.below(4) as u32 };
            }
        }
        let flat = (fmt, data);
        let bytes = cd_bytes(&flat);
        if rlayout::ClassDef::read(FontData::new(&bytes)).is_err() {
            continue;
        }
        let probes = probes_for(rng, &interesting);
        let ans: Vec<(i64, i64)> = probes.iter().map(|g| (*g as i64, cd_probe(&bytes, *g))).collect();
        st.evaluations += 1;
        st.count(&format!("cd_raw_format{}", fmt));
        cw.push(format!("CCdRaw {} {}", cflat(&flat), cpairs(&ans)));
    }
}

/// ClassDefBuilder (glyph sets -> classes ordered by size): oracle only.
fn classdef_set_builder_oracle(rng: &mut Rng, st: &mut Stats, n: usize) {
    for _ in 0..n {
        let use0 = rng.chance(1, 2);
        let mut b = if use0 { ClassDefBuilder::new_using_class_0() } else { ClassDefBuilder::new() };
        let mut sets: Vec<BTreeSet<u16>> = vec![];
        let mut used: BTreeSet<u16> = BTreeSet::new();
        for _ in 0..rng.below(8) {
            let mut s = BTreeSet::new();
            let base = rng.below(300) as u16;
            for k in 0..1 + rng.below(6) as u16 {
                s.insert(base + k * (1 + rng.below(3) as u16));
            }
            let ok = sets.contains(&s) || s.iter().all(|g| !used.contains(g));
            let added = b.checked_add(s.iter().map(|g| gid(*g)).collect());
            if added != ok {
                st.oracle_failure(json!({"key": format!("cdb-checked-add:{:?}", s), "what": "checked_add accepted/refused wrongly"}));
            }
            if added {
                used.extend(s.iter().copied());
                if !sets.contains(&s) {
                    sets.push(s);
                }
            }
        }
        let (cd, map) = b.build_with_mapping();
        let bytes = write_fonts::dump_table(&cd).unwrap();
        st.evaluations += 1;
        st.count("classdef_set_builder");
        let ids: BTreeSet<u16> = map.values().copied().collect();
        let lo = if use0 { 0 } else { 1 };
        if ids.len() != sets.len() || ids.iter().copied().ne(lo..lo + sets.len() as u16) {
            st.oracle_failure(json!({"key": format!("cdb-ids:{:?}", sets), "what": "class ids are not a dense range"}));
        }
        for s in &sets {
            let key: read_fonts::collections::IntSet<GlyphId16> = s.iter().map(|g| gid(*g)).collect();
            let id = map.get(&key).copied();
            for g in s {
                let r = cd_probe(&bytes, *g);
                if Some(r as u16) != id {
                    st.oracle_failure(json!({"key": format!("cdb-get:{:?}:{}", sets, g), "what": "ClassDefBuilder class of glyph != mapping of its set"}));
                }
            }
        }
        for g in 0..320u16 {
            if !used.contains(&g) && cd_probe(&bytes, g) != 0 {
                st.oracle_failure(json!({"key": format!("cdb-unassigned:{:?}:{}", sets, g), "what": "unassigned glyph has a class"}));
            }
        }
    }
}

/// The PUBLIC ClassDefBuilder API driven directly: sequences of 3-8 checked_add calls over a small universe — classes
/// equal to / nested in / overlapping / disjoint from earlier ATTEMPTED classes (accepted or rejected), so that a
/// rejected call is followed by classes touching only its non-conflicting glyphs — every return value, the final
/// build_with_mapping and the compiled ClassDef answer for every glyph compared with a reference and (shards) the model.
fn classdef_builder_sequence_cases(rng: &mut Rng, st: &mut Stats, cw: &mut CaseWriter, n: usize) {
    for case in 0..n {
        let use0 = rng.chance(1, 2);
        let base = match rng.below(4) { 0 => 0u16, 1 => 65520, _ => rng.below(3000) as u16 };
        let usize_ = 5 + rng.below(9) as u16;
        let universe: Vec<u16> = (0..usize_).map(|k| base + k).collect();
        let mut b = if use0 { ClassDefBuilder::new_using_class_0() } else { ClassDefBuilder::new() };
        let mut attempted: Vec<BTreeSet<u16>> = vec![];
        let mut accepted: Vec<BTreeSet<u16>> = vec![];
        let mut used: BTreeSet<u16> = BTreeSet::new();
        let mut calls: Vec<(Vec<u16>, bool)> = vec![];
        let ncalls = 3 + rng.below(6);
        for _ in 0..ncalls {
            let fresh = |rng: &mut Rng| -> BTreeSet<u16> { (0..1 + rng.below(3)).map(|_| *rng.pick(&universe)).collect() };
            let s: BTreeSet<u16> = if attempted.is_empty() {
                fresh(rng)
            } else {
                let e = rng.pick(&attempted).clone();
                let ev: Vec<u16> = e.iter().copied().collect();
                match rng.below(10) {
                    0 | 1 => e.clone(),                                                 // identical class again
                    2 | 3 => e.iter().copied().chain([*rng.pick(&universe)]).collect(),   // superset
                    4 | 5 | 6 => {
                        // a non-empty subset, possibly with one new glyph
                        let mut t: BTreeSet<u16> = ev.iter().copied().filter(|_| rng.chance(1, 2)).collect();
                        if t.is_empty() {
                            t.insert(*rng.pick(&ev));
                        }
                        if rng.chance(1, 3) {
                            t.insert(*rng.pick(&universe));
                        }
                        t
                    }
                    _ => fresh(rng),
                }
            };
            // reference: accept iff the identical class is present or no glyph belongs to an ACCEPTED class
            let ok = accepted.contains(&s) || s.iter().all(|g| !used.contains(g));
            let mut order: Vec<u16> = s.iter().copied().collect();
            if rng.chance(1, 3) {
                rng.shuffle(&mut order);
            }
            let added = b.checked_add(order.iter().map(|g| gid(*g)).collect());
            st.evaluations += 1;
            if added != ok {
                st.oracle_failure(json!({"key": format!("cdb-seq-return:{:?}", calls.iter().map(|c| &c.0).chain([&order]).collect::<Vec<_>>()), "what": "checked_add returned the wrong answer for this call sequence",
                    "expected": ok, "got": added}));
            }
            st.count(if ok { "cdb_seq_accepted" } else { "cdb_seq_rejected" });
            if ok && !accepted.contains(&s) {
                used.extend(s.iter().copied());
                accepted.push(s.clone());
            }
            attempted.push(s);
            calls.push((order, added));
        }
        // expected ids: larger classes first, ties by lowest glyph
        let mut sorted = accepted.clone();
        sorted.sort_by_key(|c| (std::cmp::Reverse(c.len()), *c.iter().next().unwrap()));
        let lo = if use0 { 0u16 } else { 1 };
        let (cd, map) = b.build_with_mapping();
        let keyfn = |c: &BTreeSet<u16>| -> read_fonts::collections::IntSet<GlyphId16> { c.iter().map(|g| gid(*g)).collect() };
        let seqdesc = format!("{:?}", calls.iter().map(|c| &c.0).collect::<Vec<_>>());
        if map.len() != sorted.len() || sorted.iter().enumerate().any(|(i, c)| map.get(&keyfn(c)).copied() != Some(lo + i as u16)) {
            st.oracle_failure(json!({"key": format!("cdb-seq-mapping:{}", seqdesc), "what": "build_with_mapping differs from the accepted classes ordered by (size desc, first glyph)"}));
        }
        let bytes = match catch(move || write_fonts::dump_table(&cd).unwrap()) {
            Ok(b) => b,
            Err(e) => {
                st.oracle_failure(json!({"key": format!("cdb-seq-compile:{}", seqdesc), "what": "compiling the ClassDef panicked", "err": e}));
                continue;
            }
        };
        let mut probes: Vec<(i64, i64)> = vec![];
        for g in universe.iter().copied().chain([base.wrapping_sub(1), base.wrapping_add(usize_)]) {
            let r = cd_probe(&bytes, g);
            let exp = sorted.iter().position(|c| c.contains(&g)).map(|i| lo as i64 + i as i64).unwrap_or(0);
            if r != exp {
                st.oracle_failure(json!({"key": format!("cdb-seq-get:{}:{}", seqdesc, g), "what": "compiled ClassDef answers another class than the accepted classes give", "expected": exp, "got": r}));
            }
            probes.push((g as i64, r));
        }
        if calls.iter().any(|c| !c.1) {
            st.nontrivial(&format!("cdbseq {}", seqdesc));
        }
        if case < 3 {
            st.sample(json!({"kind": "classdef-builder-sequence", "calls": seqdesc}));
        }
        cw.push(format!(
            "CCdbSeq {} {} {}",
            cbool(use0),
            clist(calls.iter(), |(c, r)| format!("({}, {})", czlist(c.iter().map(|g| *g as i128)), cbool(*r))),
            cpairs(&probes)
        ));
    }
}

// ------------------------------------------------------------------------------------------------
// canonical values

#[derive(Clone, PartialEq, Eq, Hash, Debug, Default)]
enum Dev {
    #[default]
    None,
    /// start_size, end_size, delta_format, packed words, decoded deltas
    Device(u16, u16, u16, Vec<u16>, Vec<i8>),
    VarIdx(u16, u16),
}
#[derive(Clone, PartialEq, Eq, Hash, Debug, Default)]
struct Val {
    v: [Option<i16>; 4], // x_placement, y_placement, x_advance, y_advance
    d: [Dev; 4],
}
impl Val {
    fn eff(&self) -> ([i16; 4], [Dev; 4]) {
        ([self.v[0].unwrap_or(0), self.v[1].unwrap_or(0), self.v[2].unwrap_or(0), self.v[3].unwrap_or(0)], self.d.clone())
    }
}
#[derive(Clone, PartialEq, Eq, Hash, Debug)]
struct Anc {
    x: i16,
    y: i16,
    pt: Option<u16>,
    xd: Dev,
    yd: Dev,
}
type VV = (Val, Val);
fn eff2(v: &VV) -> (([i16; 4], [Dev; 4]), ([i16; 4], [Dev; 4])) {
    (v.0.eff(), v.1.eff())
}
fn hash30<T: std::fmt::Debug>(t: &T) -> i64 {
    (fnv(format!("{:?}", t).as_bytes()) & 0x3fff_ffff) as i64
}

/// reference decoder of packed Device deltas (OpenType spec: values packed from the most significant bits, two's complement)
fn ref_decode_deltas(format: u16, words: &[u16], n: usize) -> Vec<i8> {
    let bits = match format { 1 => 2u32, 2 => 4, 3 => 8, _ => return vec![] };
    let per = (16 / bits) as usize;
    (0..n)
        .map(|i| {
            let w = words.get(i / per).copied().unwrap_or(0) as u32;
            let raw = (w >> (16 - bits * (i % per) as u32 - bits)) & ((1 << bits) - 1);
            (if raw >= 1 << (bits - 1) { raw as i32 - (1 << bits) } else { raw as i32 }) as i8
        })
        .collect()
}
fn wdevice(d: &Dev) -> Option<wlayout::Device> {
    match d {
        Dev::Device(s, e, f, w, _) => Some(wlayout::Device {
            start_size: *s,
            end_size: *e,
            delta_format: match f { 1 => wlayout::DeltaFormat::Local2BitDeltas, 2 => wlayout::DeltaFormat::Local4BitDeltas, _ => wlayout::DeltaFormat::Local8BitDeltas },
            delta_value: w.clone(),
        }),
        _ => None,
    }
}
fn dev_of_w(d: Option<&wlayout::DeviceOrVariationIndex>) -> Dev {
    match d {
        None => Dev::None,
        Some(wlayout::DeviceOrVariationIndex::Device(d)) => {
            let n = (d.end_size as usize + 1).saturating_sub(d.start_size as usize);
            Dev::Device(d.start_size, d.end_size, d.delta_format as u16, d.delta_value.clone(), ref_decode_deltas(d.delta_format as u16, &d.delta_value, n))
        }
        Some(wlayout::DeviceOrVariationIndex::VariationIndex(v)) => Dev::VarIdx(v.delta_set_outer_index, v.delta_set_inner_index),
        Some(_) => Dev::None,
    }
}
fn dev_of_r(d: Option<Result<rlayout::DeviceOrVariationIndex, read_fonts::ReadError>>) -> Dev {
    match d {
        None => Dev::None,
        Some(Ok(rlayout::DeviceOrVariationIndex::Device(d))) => {
            // decoded by read-fonts Device::iter (compared with the input delta array)
            Dev::Device(d.start_size(), d.end_size(), d.delta_format() as u16, d.delta_value().iter().map(|w| w.get()).collect(), d.iter().collect())
        }
        Some(Ok(rlayout::DeviceOrVariationIndex::VariationIndex(v))) => Dev::VarIdx(v.delta_set_outer_index(), v.delta_set_inner_index()),
        Some(Err(_)) => Dev::Device(0xdead, 0xdead, 0xdead, vec![], vec![]),
    }
}
fn val_of_w(v: &wgpos::ValueRecord) -> Val {
    Val {
        v: [v.x_placement, v.y_placement, v.x_advance, v.y_advance],
        d: [dev_of_w(v.x_placement_device.as_ref()), dev_of_w(v.y_placement_device.as_ref()), dev_of_w(v.x_advance_device.as_ref()), dev_of_w(v.y_advance_device.as_ref())],
    }
}
fn val_of_r(v: &rgpos::ValueRecord, data: FontData) -> Val {
    Val {
        v: [v.x_placement(), v.y_placement(), v.x_advance(), v.y_advance()],
        d: [dev_of_r(v.x_placement_device(data)), dev_of_r(v.y_placement_device(data)), dev_of_r(v.x_advance_device(data)), dev_of_r(v.y_advance_device(data))],
    }
}
fn anc_of_w(a: &wgpos::AnchorTable) -> Anc {
    match a {
        wgpos::AnchorTable::Format1(t) => Anc { x: t.x_coordinate, y: t.y_coordinate, pt: None, xd: Dev::None, yd: Dev::None },
        wgpos::AnchorTable::Format2(t) => Anc { x: t.x_coordinate, y: t.y_coordinate, pt: Some(t.anchor_point), xd: Dev::None, yd: Dev::None },
        wgpos::AnchorTable::Format3(t) => Anc { x: t.x_coordinate, y: t.y_coordinate, pt: None, xd: dev_of_w(t.x_device.as_ref()), yd: dev_of_w(t.y_device.as_ref()) },
    }
}
fn anc_of_r(a: &rgpos::AnchorTable) -> Anc {
    match a {
        rgpos::AnchorTable::Format1(t) => Anc { x: t.x_coordinate(), y: t.y_coordinate(), pt: None, xd: Dev::None, yd: Dev::None },
        rgpos::AnchorTable::Format2(t) => Anc { x: t.x_coordinate(), y: t.y_coordinate(), pt: Some(t.anchor_point()), xd: Dev::None, yd: Dev::None },
        rgpos::AnchorTable::Format3(t) => Anc { x: t.x_coordinate(), y: t.y_coordinate(), pt: None, xd: dev_of_r(t.x_device()), yd: dev_of_r(t.y_device()) },
    }
}
fn vrb_of_val(v: &Val) -> ValueRecordBuilder {
    let m = |i: usize| -> Option<Metric> {
        v.v[i].map(|d| Metric { default: d, device_or_deltas: wdevice(&v.d[i]).map(DeviceOrDeltas::Device).unwrap_or(DeviceOrDeltas::None) })
    };
    ValueRecordBuilder { x_placement: m(0), y_placement: m(1), x_advance: m(2), y_advance: m(3) }
}
fn wval_of_val(v: &Val) -> wgpos::ValueRecord {
    let mut r = wgpos::ValueRecord::new();
    r.x_placement = v.v[0];
    r.y_placement = v.v[1];
    r.x_advance = v.v[2];
    r.y_advance = v.v[3];
    let d = |x: &Dev| -> Option<wlayout::DeviceOrVariationIndex> {
        match x {
            Dev::None => None,
            Dev::VarIdx(a, b) => Some(wlayout::DeviceOrVariationIndex::variation_index(*a, *b)),
            dv => wdevice(dv).map(wlayout::DeviceOrVariationIndex::Device),
        }
    };
    r.x_placement_device = d(&v.d[0]).into();
    r.y_placement_device = d(&v.d[1]).into();
    r.x_advance_device = d(&v.d[2]).into();
    r.y_advance_device = d(&v.d[3]).into();
    r
}
/// a write-fonts ValueRecord with an EXPLICIT value format (bits 0..3 values, bits 4..7 device offsets): fields of the
/// format without a device are written as null offsets
fn wval_of_val_fmt(v: &Val, fmt: Option<u16>) -> wgpos::ValueRecord {
    let r = wval_of_val(v);
    match fmt {
        Some(bits) => r.with_explicit_value_format(wgpos::ValueFormat::from_bits_truncate(bits)),
        None => r,
    }
}
fn ab_of_anc(a: &Anc) -> AnchorBuilder {
    let mut b = AnchorBuilder::new(a.x, a.y);
    if let Some(d) = wdevice(&a.xd) {
        b = b.with_x_device(d);
    }
    if let Some(d) = wdevice(&a.yd) {
        b = b.with_y_device(d);
    }
    if let Some(p) = a.pt {
        b = b.with_contourpoint(p);
    }
    b
}

// ------------------------------------------------------------------------------------------------
// lookup specifications (the input rules)

#[derive(Clone, Debug)]
enum Spec {
    /// rules through PairPosBuilder
    Pair { pairs: Vec<(u16, u16, Val, Val)>, classes: Vec<(Vec<u16>, Vec<u16>, Val, Val)> },
    /// a PairPosFormat1 table given directly (variation-index records cannot go through the builder without a var store)
    DirectPP1 { sets: BTreeMap<u16, Vec<(u16, Val, Val)>>, vf: (Val, Val), fmt: Option<(u16, u16)> },
    /// a PairPosFormat2 table given directly with explicit value formats (bits 0..3 values, 4..7 device offsets):
    /// cls1[i] = covered glyphs of class1 i (cls1[0]: covered, not in the class definition), cls2[j] = glyphs of class2 j
    /// (cls2[0] is empty: every other glyph), cells[i][j] = the two value records
    DirectPP2 { cls1: Vec<Vec<u16>>, cls2: Vec<Vec<u16>>, cells: Vec<Vec<VV>>, fmt: (u16, u16) },
    /// rules through MarkToBaseBuilder
    M2B { marks: Vec<(u16, usize, Anc)>, bases: Vec<(u16, usize, Anc)> },
    /// rules through MarkToMarkBuilder (insert_mark1 / insert_mark2)
    M2M { marks: Vec<(u16, usize, Anc)>, bases: Vec<(u16, usize, Anc)> },
    /// a sequence of MarkToLigBuilder::insert_ligature(glyph, class, components) calls
    M2L { marks: Vec<(u16, usize, Anc)>, ligs: Vec<(u16, usize, Vec<Option<Anc>>)> },
    /// a sequence of CursivePosBuilder::insert(glyph, entry, exit) calls
    Cursive { items: Vec<(u16, Option<Anc>, Option<Anc>)> },
    /// several builders of the same kind (all Pair or all M2B) in ONE lookup: explicit subtable breaks
    Multi(Vec<Spec>),
}
#[derive(Clone, Debug)]
struct LookupSpec {
    flags: u16,
    mfs: Option<u16>,
    spec: Spec,
}

/// first-match semantics of the input rules (implementation-only oracle side)
struct PairSem {
    pair_map: HashMap<(u16, u16), VV>,
    groups: Vec<Group>,
}
#[derive(Default)]
struct Group {
    c1: Vec<BTreeSet<u16>>,
    c2: Vec<BTreeSet<u16>>,
    g1: HashMap<u16, usize>,
    g2: HashMap<u16, usize>,
    rules: HashMap<(usize, usize), VV>,
}
impl Group {
    fn can_add(sets: &[BTreeSet<u16>], idx: &HashMap<u16, usize>, s: &BTreeSet<u16>) -> bool {
        sets.contains(s) || s.iter().all(|g| !idx.contains_key(g))
    }
    fn add(sets: &mut Vec<BTreeSet<u16>>, idx: &mut HashMap<u16, usize>, s: &BTreeSet<u16>) -> usize {
        if let Some(i) = sets.iter().position(|x| x == s) {
            return i;
        }
        sets.push(s.clone());
        for g in s {
            idx.insert(*g, sets.len() - 1);
        }
        sets.len() - 1
    }
}
impl PairSem {
    fn new(pairs: &[(u16, u16, Val, Val)], classes: &[(Vec<u16>, Vec<u16>, Val, Val)]) -> Self {
        let mut pair_map = HashMap::new();
        for (a, b, v1, v2) in pairs {
            // "the first rule specified is used"
            pair_map.entry((*a, *b)).or_insert((v1.clone(), v2.clone()));
        }
        let mut groups: Vec<Group> = vec![];
        for (c1, c2, v1, v2) in classes {
            let s1: BTreeSet<u16> = c1.iter().copied().collect();
            let s2: BTreeSet<u16> = c2.iter().copied().collect();
            let need_new = match groups.last() {
                Some(g) => !(Group::can_add(&g.c1, &g.g1, &s1) && Group::can_add(&g.c2, &g.g2, &s2)),
                None => true,
            };
            if need_new {
                groups.push(Group::default());
            }
            let g = groups.last_mut().unwrap();
            let i = Group::add(&mut g.c1, &mut g.g1, &s1);
            let j = Group::add(&mut g.c2, &mut g.g2, &s2);
            g.rules.insert((i, j), (v1.clone(), v2.clone()));
        }
        PairSem { pair_map, groups }
    }
    /// Some(answer) when this builder's subtables DECIDE the pair (Some(None) = covered, empty record)
    fn eval2(&self, a: u16, b: u16) -> Option<Option<VV>> {
        if let Some(v) = self.pair_map.get(&(a, b)) {
            return Some(Some(v.clone()));
        }
        for g in &self.groups {
            if let Some(i) = g.g1.get(&a) {
                // the first class subtable that covers the first glyph decides
                return Some(g.g2.get(&b).and_then(|j| g.rules.get(&(*i, *j)).cloned()));
            }
        }
        None
    }
}
/// several builders in one lookup: their subtables follow each other, the first that decides wins
struct MultiSem {
    segs: Vec<PairSem>,
}
impl MultiSem {
    fn eval(&self, a: u16, b: u16) -> Option<VV> {
        for s in &self.segs {
            if let Some(d) = s.eval2(a, b) {
                return d;
            }
        }
        None
    }
    fn has_specific_pair(&self, a: u16, b: u16) -> bool {
        self.segs.iter().any(|s| s.pair_map.contains_key(&(a, b)))
    }
}
fn pair_builder(pairs: &[(u16, u16, Val, Val)], classes: &[(Vec<u16>, Vec<u16>, Val, Val)]) -> PairPosBuilder {
    let mut b = PairPosBuilder::default();
    for (a, c, v1, v2) in pairs {
        b.insert_pair(gid(*a), vrb_of_val(v1), gid(*c), vrb_of_val(v2));
    }
    for (c1, c2, v1, v2) in classes {
        b.insert_classes(c1.iter().map(|g| gid(*g)).collect(), vrb_of_val(v1), c2.iter().map(|g| gid(*g)).collect(), vrb_of_val(v2));
    }
    b
}
fn m2b_builder(marks: &[(u16, usize, Anc)], bases: &[(u16, usize, Anc)]) -> MarkToBaseBuilder {
    let mut b = MarkToBaseBuilder::default();
    for (g, c, a) in marks {
        let _ = b.insert_mark(gid(*g), &format!("c{}", c), ab_of_anc(a));
    }
    for (g, c, a) in bases {
        b.insert_base(gid(*g), &format!("c{}", c), ab_of_anc(a));
    }
    b
}

fn build_lookup(ls: &LookupSpec, vs: &mut VariationStoreBuilder) -> wgpos::PositionLookup {
    let flags = wlayout::LookupFlag::from_bits_truncate(ls.flags);
    match &ls.spec {
        Spec::Pair { pairs, classes } => {
            let mut b = PairPosBuilder::default();
            for (a, c, v1, v2) in pairs {
                b.insert_pair(gid(*a), vrb_of_val(v1), gid(*c), vrb_of_val(v2));
            }
            for (c1, c2, v1, v2) in classes {
                b.insert_classes(c1.iter().map(|g| gid(*g)).collect(), vrb_of_val(v1), c2.iter().map(|g| gid(*g)).collect(), vrb_of_val(v2));
            }
            let lb = LookupBuilder::new_with_lookups(flags, ls.mfs, vec![b]);
            wgpos::PositionLookup::Pair(lb.build(vs))
        }
        Spec::DirectPP1 { sets, vf, fmt } => {
            let cov: wlayout::CoverageTable = sets.keys().map(|g| gid(*g)).collect();
            let _ = vf;
            let (f1, f2) = (fmt.map(|f| f.0), fmt.map(|f| f.1));
            let ps: Vec<wgpos::PairSet> = sets
                .values()
                .map(|recs| wgpos::PairSet::new(recs.iter().map(|(g2, v1, v2)| wgpos::PairValueRecord::new(gid(*g2), wval_of_val_fmt(v1, f1), wval_of_val_fmt(v2, f2))).collect()))
                .collect();
            let mut l = wlayout::Lookup::new(flags, vec![wgpos::PairPos::format_1(cov, ps)]);
            l.mark_filtering_set = ls.mfs;
            wgpos::PositionLookup::Pair(l)
        }
        Spec::DirectPP2 { cls1, cls2, cells, fmt } => {
            let cov: wlayout::CoverageTable = cls1.iter().flatten().map(|g| gid(*g)).collect();
            let cd1: wlayout::ClassDef = cls1.iter().enumerate().skip(1).flat_map(|(i, gs)| gs.iter().map(move |g| (gid(*g), i as u16))).collect();
            let cd2: wlayout::ClassDef = cls2.iter().enumerate().skip(1).flat_map(|(j, gs)| gs.iter().map(move |g| (gid(*g), j as u16))).collect();
            let recs: Vec<wgpos::Class1Record> = cells
                .iter()
                .map(|row| wgpos::Class1Record::new(row.iter().map(|(v1, v2)| wgpos::Class2Record::new(wval_of_val_fmt(v1, Some(fmt.0)), wval_of_val_fmt(v2, Some(fmt.1)))).collect()))
                .collect();
            let mut l = wlayout::Lookup::new(flags, vec![wgpos::PairPos::format_2(cov, cd1, cd2, recs)]);
            l.mark_filtering_set = ls.mfs;
            wgpos::PositionLookup::Pair(l)
        }
        Spec::M2B { marks, bases } => {
            let mut b = MarkToBaseBuilder::default();
            for (g, c, a) in marks {
                let _ = b.insert_mark(gid(*g), &format!("c{}", c), ab_of_anc(a));
            }
            for (g, c, a) in bases {
                b.insert_base(gid(*g), &format!("c{}", c), ab_of_anc(a));
            }
            let lb = LookupBuilder::new_with_lookups(flags, ls.mfs, vec![b]);
            wgpos::PositionLookup::MarkToBase(lb.build(vs))
        }
        Spec::M2M { marks, bases } => {
            let mut b = MarkToMarkBuilder::default();
            for (g, c, a) in marks {
                let _ = b.insert_mark1(gid(*g), &format!("c{}", c), ab_of_anc(a));
            }
            for (g, c, a) in bases {
                b.insert_mark2(gid(*g), &format!("c{}", c), ab_of_anc(a));
            }
            let lb = LookupBuilder::new_with_lookups(flags, ls.mfs, vec![b]);
            wgpos::PositionLookup::MarkToMark(lb.build(vs))
        }
        Spec::M2L { marks, ligs } => {
            let mut b = MarkToLigBuilder::default();
            for (g, c, a) in marks {
                let _ = b.insert_mark(gid(*g), &format!("c{}", c), ab_of_anc(a));
            }
            for (g, c, comps) in ligs {
                b.insert_ligature(gid(*g), &format!("c{}", c), comps.iter().map(|a| a.as_ref().map(ab_of_anc)).collect());
            }
            let lb = LookupBuilder::new_with_lookups(flags, ls.mfs, vec![b]);
            wgpos::PositionLookup::MarkToLig(lb.build(vs))
        }
        Spec::Cursive { items } => {
            let mut b = CursivePosBuilder::default();
            for (g, en, ex) in items {
                b.insert(gid(*g), en.as_ref().map(ab_of_anc), ex.as_ref().map(ab_of_anc));
            }
            let lb = LookupBuilder::new_with_lookups(flags, ls.mfs, vec![b]);
            wgpos::PositionLookup::Cursive(lb.build(vs))
        }
        Spec::Multi(parts) => match &parts[0] {
            Spec::Pair { .. } => {
                let bs: Vec<PairPosBuilder> = parts.iter().map(|p| match p { Spec::Pair { pairs, classes } => pair_builder(pairs, classes), _ => panic!("mixed Multi") }).collect();
                wgpos::PositionLookup::Pair(LookupBuilder::new_with_lookups(flags, ls.mfs, bs).build(vs))
            }
            Spec::M2B { .. } => {
                let bs: Vec<MarkToBaseBuilder> = parts.iter().map(|p| match p { Spec::M2B { marks, bases } => m2b_builder(marks, bases), _ => panic!("mixed Multi") }).collect();
                wgpos::PositionLookup::MarkToBase(LookupBuilder::new_with_lookups(flags, ls.mfs, bs).build(vs))
            }
            _ => panic!("unsupported Multi"),
        },
    }
}

// ------------------------------------------------------------------------------------------------
// reference lookup walker over the compiled bytes

enum Sub<'a> {
    PP1 { cov: rlayout::CoverageTable<'a>, sets: Vec<(HashMap<u16, VV>, i64)> },
    PP2 { cov: rlayout::CoverageTable<'a>, cd1: rlayout::ClassDef<'a>, cd2: rlayout::ClassDef<'a>, m: Vec<Vec<VV>>, rowfp: Vec<i64> },
    M2B { mcov: rlayout::CoverageTable<'a>, bcov: rlayout::CoverageTable<'a>, ncls: u16, marks: Vec<(u16, Anc)>, bases: Vec<Vec<Option<Anc>>> },
    /// MarkLigPos: ligs[ligature index][component][class]
    M2L { mcov: rlayout::CoverageTable<'a>, lcov: rlayout::CoverageTable<'a>, ncls: u16, marks: Vec<(u16, Anc)>, ligs: Vec<Vec<Vec<Option<Anc>>>> },
    Cur { cov: rlayout::CoverageTable<'a>, recs: Vec<(Option<Anc>, Option<Anc>)> },
}
struct Lk<'a> {
    ty: u16,
    flags: u16,
    mfs: Option<u16>,
    ext_types: Vec<u16>,
    subs: Vec<Sub<'a>>,
}

fn fp_pairset(recs: &[(u16, Val, Val)]) -> i64 {
    hash30(&recs)
}

fn decode_pairpos<'a>(p: &rgpos::PairPos<'a>) -> Sub<'a> {
    match p {
        rgpos::PairPos::Format1(t) => {
            let cov = t.coverage().unwrap();
            let mut sets = vec![];
            for ps in t.pair_sets().iter() {
                let ps = ps.unwrap();
                let data = ps.offset_data();
                let mut recs: Vec<(u16, Val, Val)> = vec![];
                for r in ps.pair_value_records().iter() {
                    let r = r.unwrap();
                    recs.push((r.second_glyph().to_u16(), val_of_r(r.value_record1(), data), val_of_r(r.value_record2(), data)));
                }
                let fp = fp_pairset(&recs);
                let mut m = HashMap::new();
                for (g, a, b) in recs {
                    m.entry(g).or_insert((a, b)); // first match
                }
                sets.push((m, fp));
            }
            Sub::PP1 { cov, sets }
        }
        rgpos::PairPos::Format2(t) => {
            let data = t.offset_data();
            let mut m = vec![];
            let mut rowfp = vec![];
            for c1 in t.class1_records().iter() {
                let c1 = c1.unwrap();
                let mut row = vec![];
                for c2 in c1.class2_records().iter() {
                    let c2 = c2.unwrap();
                    row.push((val_of_r(c2.value_record1(), data), val_of_r(c2.value_record2(), data)));
                }
                rowfp.push(hash30(&row.iter().map(eff2).collect::<Vec<_>>()));
                m.push(row);
            }
            if m.len() != t.class1_count() as usize || m.iter().any(|r| r.len() != t.class2_count() as usize) {
                panic!("class record counts disagree with header");
            }
            Sub::PP2 { cov: t.coverage().unwrap(), cd1: t.class_def1().unwrap(), cd2: t.class_def2().unwrap(), m, rowfp }
        }
    }
}
fn decode_m2b<'a>(t: &rgpos::MarkBasePosFormat1<'a>) -> Sub<'a> {
    let ma = t.mark_array().unwrap();
    let mdata = ma.offset_data();
    let marks: Vec<(u16, Anc)> = ma.mark_records().iter().map(|r| (r.mark_class(), anc_of_r(&r.mark_anchor(mdata).unwrap()))).collect();
    let ba = t.base_array().unwrap();
    let bdata = ba.offset_data();
    let mut bases = vec![];
    for r in ba.base_records().iter() {
        let r = r.unwrap();
        let row: Vec<Option<Anc>> = r.base_anchors(bdata).iter().map(|a| a.map(|a| anc_of_r(&a.unwrap()))).collect();
        bases.push(row);
    }
    Sub::M2B { mcov: t.mark_coverage().unwrap(), bcov: t.base_coverage().unwrap(), ncls: t.mark_class_count(), marks, bases }
}

fn decode_m2m<'a>(t: &rgpos::MarkMarkPosFormat1<'a>) -> Sub<'a> {
    let ma = t.mark1_array().unwrap();
    let mdata = ma.offset_data();
    let marks: Vec<(u16, Anc)> = ma.mark_records().iter().map(|r| (r.mark_class(), anc_of_r(&r.mark_anchor(mdata).unwrap()))).collect();
    let ba = t.mark2_array().unwrap();
    let bdata = ba.offset_data();
    let mut bases = vec![];
    for r in ba.mark2_records().iter() {
        let r = r.unwrap();
        bases.push(r.mark2_anchors(bdata).iter().map(|a| a.map(|a| anc_of_r(&a.unwrap()))).collect());
    }
    // same meaning as mark-to-base: (mark1, mark2) -> (mark1 anchor, mark2 anchor of mark1's class)
    Sub::M2B { mcov: t.mark1_coverage().unwrap(), bcov: t.mark2_coverage().unwrap(), ncls: t.mark_class_count(), marks, bases }
}
fn decode_m2l<'a>(t: &rgpos::MarkLigPosFormat1<'a>) -> Sub<'a> {
    let ma = t.mark_array().unwrap();
    let mdata = ma.offset_data();
    let marks: Vec<(u16, Anc)> = ma.mark_records().iter().map(|r| (r.mark_class(), anc_of_r(&r.mark_anchor(mdata).unwrap()))).collect();
    let la = t.ligature_array().unwrap();
    let mut ligs = vec![];
    for att in la.ligature_attaches().iter() {
        let att = att.unwrap();
        let d = att.offset_data();
        let mut comps = vec![];
        for c in att.component_records().iter() {
            let c = c.unwrap();
            comps.push(c.ligature_anchors(d).iter().map(|a| a.map(|a| anc_of_r(&a.unwrap()))).collect::<Vec<Option<Anc>>>());
        }
        if comps.len() != att.component_count() as usize {
            panic!("component count disagrees");
        }
        ligs.push(comps);
    }
    Sub::M2L { mcov: t.mark_coverage().unwrap(), lcov: t.ligature_coverage().unwrap(), ncls: t.mark_class_count(), marks, ligs }
}
fn decode_cursive<'a>(t: &rgpos::CursivePosFormat1<'a>) -> Sub<'a> {
    let d = t.offset_data();
    let recs = t
        .entry_exit_record()
        .iter()
        .map(|r| (r.entry_anchor(d).map(|a| anc_of_r(&a.unwrap())), r.exit_anchor(d).map(|a| anc_of_r(&a.unwrap()))))
        .collect();
    Sub::Cur { cov: t.coverage().unwrap(), recs }
}
fn decode_lookup<'a>(l: &rgpos::PositionLookup<'a>) -> Lk<'a> {
    let mut subs = vec![];
    let mut ext_types = vec![];
    match l {
        rgpos::PositionLookup::Pair(l) => {
            for s in l.subtables().iter() {
                subs.push(decode_pairpos(&s.unwrap()));
            }
        }
        rgpos::PositionLookup::MarkToBase(l) => {
            for s in l.subtables().iter() {
                subs.push(decode_m2b(&s.unwrap()));
            }
        }
        rgpos::PositionLookup::MarkToMark(l) => {
            for s in l.subtables().iter() {
                subs.push(decode_m2m(&s.unwrap()));
            }
        }
        rgpos::PositionLookup::MarkToLig(l) => {
            for s in l.subtables().iter() {
                subs.push(decode_m2l(&s.unwrap()));
            }
        }
        rgpos::PositionLookup::Cursive(l) => {
            for s in l.subtables().iter() {
                subs.push(decode_cursive(&s.unwrap()));
            }
        }
        rgpos::PositionLookup::Extension(l) => {
            for s in l.subtables().iter() {
                match s.unwrap() {
                    rgpos::ExtensionSubtable::MarkToMark(e) => {
                        ext_types.push(e.extension_lookup_type());
                        subs.push(decode_m2m(&e.extension().unwrap()));
                    }
                    rgpos::ExtensionSubtable::MarkToLig(e) => {
                        ext_types.push(e.extension_lookup_type());
                        subs.push(decode_m2l(&e.extension().unwrap()));
                    }
                    rgpos::ExtensionSubtable::Cursive(e) => {
                        ext_types.push(e.extension_lookup_type());
                        subs.push(decode_cursive(&e.extension().unwrap()));
                    }
                    rgpos::ExtensionSubtable::Pair(e) => {
                        ext_types.push(e.extension_lookup_type());
                        subs.push(decode_pairpos(&e.extension().unwrap()));
                    }
                    rgpos::ExtensionSubtable::MarkToBase(e) => {
                        ext_types.push(e.extension_lookup_type());
                        subs.push(decode_m2b(&e.extension().unwrap()));
                    }
                    _ => panic!("unexpected extension subtable type"),
                }
            }
        }
        _ => panic!("unexpected lookup type"),
    }
    Lk { ty: l.lookup_type(), flags: l.lookup_flag().to_bits(), mfs: l.mark_filtering_set(), ext_types, subs }
}

fn walk_pair(lk: &Lk, a: u16, b: u16) -> Option<VV> {
    for s in &lk.subs {
        match s {
            Sub::PP1 { cov, sets } => {
                if let Some(i) = cov.get(gid(a)) {
                    if let Some((m, _)) = sets.get(i as usize) {
                        if let Some(v) = m.get(&b) {
                            return Some(v.clone());
                        }
                    }
                }
            }
            Sub::PP2 { cov, cd1, cd2, m, .. } => {
                if cov.get(gid(a)).is_some() {
                    let c1 = cd1.get(gid(a)) as usize;
                    let c2 = cd2.get(gid(b)) as usize;
                    if let Some(v) = m.get(c1).and_then(|r| r.get(c2)) {
                        return Some(v.clone());
                    }
                }
            }
            _ => {}
        }
    }
    None
}
fn walk_mark(lk: &Lk, m: u16, b: u16) -> Option<(Anc, Anc)> {
    for s in &lk.subs {
        if let Sub::M2B { mcov, bcov, ncls, marks, bases } = s {
            if let (Some(mi), Some(bi)) = (mcov.get(gid(m)), bcov.get(gid(b))) {
                if let (Some((cls, ma)), Some(row)) = (marks.get(mi as usize), bases.get(bi as usize)) {
                    if *cls < *ncls {
                        if let Some(Some(ba)) = row.get(*cls as usize) {
                            return Some((ma.clone(), ba.clone()));
                        }
                    }
                }
            }
        }
    }
    None
}

fn walk_lig(lk: &Lk, m: u16, l: u16, comp: usize) -> Option<(Anc, Anc)> {
    for s in &lk.subs {
        if let Sub::M2L { mcov, lcov, ncls, marks, ligs } = s {
            if let (Some(mi), Some(li)) = (mcov.get(gid(m)), lcov.get(gid(l))) {
                if let (Some((cls, ma)), Some(comps)) = (marks.get(mi as usize), ligs.get(li as usize)) {
                    if *cls < *ncls {
                        if let Some(Some(la)) = comps.get(comp).and_then(|c| c.get(*cls as usize)) {
                            return Some((ma.clone(), la.clone()));
                        }
                    }
                }
            }
        }
    }
    None
}
fn walk_cursive(lk: &Lk, g: u16) -> Option<(Option<Anc>, Option<Anc>)> {
    for s in &lk.subs {
        if let Sub::Cur { cov, recs } = s {
            if let Some(i) = cov.get(gid(g)) {
                if let Some(r) = recs.get(i as usize) {
                    return Some(r.clone());
                }
            }
        }
    }
    None
}

// ------------------------------------------------------------------------------------------------
// pre-compilation structure (write-fonts objects) for the split shards

enum Pre {
    PP1 { cov: Flat, fps: Vec<i64> },
    PP2 { cov: Flat, cd1: Flat, rowfp: Vec<i64>, c2n: usize },
    M2B { mcov: Flat, ncls: usize, marks: Vec<(i64, i64)>, rows: Vec<Vec<i64>> },
    /// a subtable of a kind that is never split: exactly one compiled subtable
    Other,
}
const SAMPLE_BASES: usize = 3;
fn pre_of_lookup(l: &wgpos::PositionLookup) -> (u16, u16, Option<u16>, Vec<Pre>) {
    match l {
        wgpos::PositionLookup::Pair(l) => {
            let mut v = vec![];
            for s in &l.subtables {
                match &**s {
                    wgpos::PairPos::Format1(t) => {
                        let fps = t
                            .pair_sets
                            .iter()
                            .map(|ps| {
                                let recs: Vec<(u16, Val, Val)> =
                                    ps.pair_value_records.iter().map(|r| (r.second_glyph.to_u16(), val_of_w(&r.value_record1), val_of_w(&r.value_record2))).collect();
                                fp_pairset(&recs)
                            })
                            .collect();
                        v.push(Pre::PP1 { cov: flat_of_wcov(&t.coverage), fps });
                    }
                    wgpos::PairPos::Format2(t) => {
                        let rowfp = t
                            .class1_records
                            .iter()
                            .map(|c1| {
                                let row: Vec<VV> = c1.class2_records.iter().map(|c2| (val_of_w(&c2.value_record1), val_of_w(&c2.value_record2))).collect();
                                hash30(&row.iter().map(eff2).collect::<Vec<_>>())
                            })
                            .collect();
                        let c2n = t.class1_records.first().map(|r| r.class2_records.len()).unwrap_or(0);
                        v.push(Pre::PP2 { cov: flat_of_wcov(&t.coverage), cd1: flat_of_wcd(&t.class_def1), rowfp, c2n });
                    }
                }
            }
            (2, l.lookup_flag.to_bits(), l.mark_filtering_set, v)
        }
        wgpos::PositionLookup::MarkToBase(l) => {
            let mut v = vec![];
            for s in &l.subtables {
                let t: &wgpos::MarkBasePosFormat1 = s;
                let marks: Vec<(i64, i64)> = t.mark_array.mark_records.iter().map(|r| (r.mark_class as i64, hash30(&anc_of_w(&r.mark_anchor)))).collect();
                let ncls = t.base_array.base_records.first().map(|r| r.base_anchors.len()).unwrap_or(0);
                let rows = t
                    .base_array
                    .base_records
                    .iter()
                    .take(SAMPLE_BASES)
                    .map(|r| r.base_anchors.iter().map(|a| a.as_ref().map(|a| hash30(&anc_of_w(a))).unwrap_or(-1)).collect())
                    .collect();
                v.push(Pre::M2B { mcov: flat_of_wcov(&t.mark_coverage), ncls, marks, rows });
            }
            (4, l.lookup_flag.to_bits(), l.mark_filtering_set, v)
        }
        wgpos::PositionLookup::MarkToMark(l) => (6, l.lookup_flag.to_bits(), l.mark_filtering_set, l.subtables.iter().map(|_| Pre::Other).collect()),
        wgpos::PositionLookup::MarkToLig(l) => (5, l.lookup_flag.to_bits(), l.mark_filtering_set, l.subtables.iter().map(|_| Pre::Other).collect()),
        wgpos::PositionLookup::Cursive(l) => (3, l.lookup_flag.to_bits(), l.mark_filtering_set, l.subtables.iter().map(|_| Pre::Other).collect()),
        _ => unreachable!(),
    }
}

/// groups the compiled subtables by the pre-split subtable they came from, emits split shards
fn emit_split_cases(pre: &[Pre], lk: &Lk, st: &mut Stats, cw: &mut Vec<String>, key: &str) {
    let mut k = 0usize;
    let mut piece_counts: Vec<usize> = vec![];
    for p in pre {
        match p {
            Pre::PP1 { cov, fps } => {
                let mut pieces = vec![];
                let mut sps = vec![];
                let mut acc = 0usize;
                while k < lk.subs.len() {
                    if let Sub::PP1 { cov: c, sets } = &lk.subs[k] {
                        acc += sets.len();
                        sps.push(acc as i64);
                        pieces.push((flat_of_rcov(c), sets.iter().map(|s| s.1).collect::<Vec<i64>>()));
                        k += 1;
                        if acc >= fps.len() {
                            break;
                        }
                    } else {
                        break;
                    }
                }
                if acc != fps.len() {
                    st.oracle_failure(json!({"key": format!("{}:pp1-piece-count", key), "what": "pair-set counts of the split pieces do not add up to the original subtable"}));
                    return;
                }
                piece_counts.push(pieces.len());
                if pieces.len() > 1 {
                    st.count("split_pp1_subtables");
                    if key.starts_with("devmix-") {
                        st.count(&format!("devmix_split_pp1_{}_pieces", pieces.len().min(4)));
                    }
                    st.count(&format!("split_pp1_cov_format{}", cov.0));
                    if cov.1.len() <= 900 && fps.len() <= 900 {
                        cw.push(format!(
                            "CSplitPP1 {} {} {} {}",
                            cflat(cov),
                            czlist(fps.iter().map(|v| *v as i128)),
                            czlist(sps.iter().map(|v| *v as i128)),
                            clist(pieces.iter(), |(c, f)| format!("({}, {})", cflat(c), czlist(f.iter().map(|v| *v as i128))))
                        ));
                        st.count("split_pp1_shard_cases");
                    }
                }
            }
            Pre::PP2 { cov, cd1, rowfp, .. } => {
                let mut pieces = vec![];
                let mut sps = vec![];
                let mut acc = 0usize;
                while k < lk.subs.len() {
                    if let Sub::PP2 { cov: c, cd1: d, rowfp: rf, .. } = &lk.subs[k] {
                        acc += rf.len();
                        sps.push(acc as i64);
                        pieces.push((flat_of_rcov(c), flat_of_rcd(d), rf.clone()));
                        k += 1;
                        if acc >= rowfp.len() {
                            break;
                        }
                    } else {
                        break;
                    }
                }
                if acc != rowfp.len() {
                    st.oracle_failure(json!({"key": format!("{}:pp2-piece-count", key), "what": "class1 counts of the split pieces do not add up"}));
                    return;
                }
                piece_counts.push(pieces.len());
                if pieces.len() > 1 {
                    st.count("split_pp2_subtables");
                    if key.starts_with("devmix-") {
                        st.count(&format!("devmix_split_pp2_{}_pieces", pieces.len().min(4)));
                    }
                    if cov.1.len() <= 900 && cd1.1.len() <= 900 {
                        cw.push(format!(
                            "CSplitPP2 {} {} {} {} {}",
                            cflat(cov),
                            cflat(cd1),
                            czlist(rowfp.iter().map(|v| *v as i128)),
                            czlist(sps.iter().map(|v| *v as i128)),
                            clist(pieces.iter(), |(c, d, f)| format!("({}, {}, {})", cflat(c), cflat(d), czlist(f.iter().map(|v| *v as i128))))
                        ));
                        st.count("split_pp2_shard_cases");
                    }
                }
            }
            Pre::M2B { mcov, ncls, marks, rows } => {
                let mut pieces = vec![];
                let mut sps = vec![];
                let mut acc = 0usize;
                while k < lk.subs.len() {
                    if let Sub::M2B { mcov: c, ncls: n, marks: m, bases, .. } = &lk.subs[k] {
                        acc += *n as usize;
                        sps.push(acc as i64);
                        let pm: Vec<(i64, i64)> = m.iter().map(|(c, a)| (*c as i64, hash30(a))).collect();
                        let pr: Vec<Vec<i64>> = bases.iter().take(SAMPLE_BASES).map(|r| r.iter().map(|a| a.as_ref().map(hash30).unwrap_or(-1)).collect()).collect();
                        pieces.push((flat_of_rcov(c), *n as i64, pm, pr));
                        k += 1;
                        if acc >= *ncls {
                            break;
                        }
                    } else {
                        break;
                    }
                }
                if acc != *ncls {
                    st.oracle_failure(json!({"key": format!("{}:m2b-piece-count", key), "what": "mark class counts of the split pieces do not add up"}));
                    return;
                }
                piece_counts.push(pieces.len());
                if pieces.len() > 1 {
                    st.count("split_m2b_subtables");
                    if mcov.1.len() <= 900 && marks.len() <= 900 {
                        cw.push(format!(
                            "CSplitM2B {} {} {} {} {} {}",
                            cflat(mcov),
                            cpairs(marks),
                            ncls,
                            clist(rows.iter(), |r| czlist(r.iter().map(|v| *v as i128))),
                            czlist(sps.iter().map(|v| *v as i128)),
                            clist(pieces.iter(), |(c, n, m, r)| format!("({}, {}, {}, {})", cflat(c), n, cpairs(m), clist(r.iter(), |r| czlist(r.iter().map(|v| *v as i128)))))
                        ));
                        st.count("split_m2b_shard_cases");
                    }
                }
            }
            Pre::Other => {
                k += 1;
                piece_counts.push(1);
            }
        }
    }
    // the lookup must advertise exactly the sum of the pieces (split_subtables: old count + sum over the split
    // subtables of (pieces - 1)); anything else is a phantom or a lost subtable offset
    if k != lk.subs.len() {
        st.oracle_failure(json!({"key": format!("{}:subtable-count", key), "what": "compiled lookup's subtable count differs from the sum of the pieces of its input subtables",
            "pieces": piece_counts, "compiled_count": lk.subs.len()}));
    } else {
        cw.push(format!("CSplitCount {} {}", czlist(piece_counts.iter().map(|v| *v as i128)), lk.subs.len()));
        let nsplit = piece_counts.iter().filter(|c| **c > 1).count();
        if piece_counts.len() > 1 {
            st.count(&format!("multi_subtable_lookups_with_{}_split", nsplit.min(3)));
        }
    }
}

// ------------------------------------------------------------------------------------------------
// generators of rule sets

/// Device tables of all three delta formats, lengths 1..17, negative and positive values (incl. the extremes)
/// in every slot position of the packed words; each entry keeps its INPUT delta array for the comparison
/// with what read-fonts Device::iter decodes.
fn dev_pool() -> Vec<Dev> {
    let mut pool = vec![];
    // (finding device-iter-neg128-negate-overflow, fixed in /repo df35a55: the 8-bit delta -128 used to panic in Device::iter)
    for (lo, hi) in [(-2i8, 1i8), (-8, 7), (-128, 127)] {
        let pa = [lo, hi, -1, 1, lo + 1, hi - 1, -1, 0];
        let pb = [hi, lo, 1, -1, hi - 1, lo + 1, 0, -1];
        for len in [1usize, 2, 3, 4, 5, 7, 8, 9, 15, 16, 17] {
            for (k, pat) in [pa, pb].iter().enumerate() {
                let vals: Vec<i8> = (0..len).map(|i| pat[(i + k * (len % 3)) % 8]).collect();
                // the format is chosen by Device::new from the value range: make sure the intended one is needed
                let mut vals = vals;
                if lo == -8 && vals.iter().all(|v| (-2..=1).contains(v)) {
                    vals[0] = if k == 0 { -8 } else { 7 };
                }
                if lo == -128 && vals.iter().all(|v| (-8..=7).contains(v)) {
                    vals[0] = if k == 0 { -128 } else { 127 };
                }
                let start = 8 + (len as u16 % 5);
                let d = wlayout::Device::new(start, start + len as u16 - 1, &vals);
                pool.push(Dev::Device(d.start_size, d.end_size, d.delta_format as u16, d.delta_value.clone(), vals));
            }
        }
    }
    pool
}

/// value record kinds -> (value mask, device mask) over [x_placement, y_placement, x_advance, y_advance] (bit i = field i).
/// Every one of the eight ValueRecord fields occurs alone and in combinations.
const ALL_KINDS: [u64; 15] = [0, 1, 2, 3, 5, 6, 7, 8, 9, 10, 11, 12, 13, 14, 4];
fn kind_mask(kind: u64) -> (u8, u8) {
    match kind {
        0 => (0b0100, 0),       // x_advance
        1 => (0b0101, 0),       // x_advance + x_placement
        2 => (0b1111, 0),       // all four values
        3 => (0b0100, 0b0100),  // x_advance + its device
        5 => (0b1000, 0b1000),  // y_advance + its device
        6 => (0b0001, 0b0001),  // x_placement + its device
        7 => (0b0010, 0b0010),  // y_placement + its device
        8 => (0b1111, 0b1111),  // everything
        9 => (0b1000, 0),       // y_advance only
        10 => (0b0010, 0),      // y_placement only
        11 => (0b0001, 0),      // x_placement only
        12 => (0b1100, 0b1100), // both advances with devices
        13 => (0b1111, 0b1000), // all values, device on y_advance only
        14 => (0b0011, 0b0010), // placements, device on y_placement only
        _ => (0, 0),            // 4: empty
    }
}
fn mk_val(kind: u64, seed: i64, pool: &[Dev]) -> Val {
    let s = |k: i64| Some((((seed * 7 + k * 131) % 2001) - 1000) as i16);
    let (vm, dm) = kind_mask(kind);
    let mut v = Val::default();
    for i in 0..4 {
        if vm & (1 << i) != 0 {
            v.v[i] = s(i as i64 + 1);
        }
        if dm & (1 << i) != 0 {
            // a different pool entry per field, so that swapped device offsets are visible
            v.d[i] = pool[(seed.unsigned_abs() as usize + i) % pool.len()].clone();
        }
    }
    v
}
fn mk_anchor(rng: &mut Rng, id: i64, pool: &[Dev], fancy: bool) -> Anc {
    let mut a = Anc { x: (id % 30000) as i16, y: ((id * 3) % 30011) as i16 - 15000, pt: None, xd: Dev::None, yd: Dev::None };
    if fancy {
        match rng.below(8) {
            0 => a.pt = Some((id % 50) as u16),
            1 => a.xd = rng.pick(pool).clone(),
            2 => {
                a.xd = rng.pick(pool).clone();
                a.yd = rng.pick(pool).clone();
            }
            3 => a.yd = rng.pick(pool).clone(),
            _ => {}
        }
    }
    a
}

fn rec_size(kind1: u64, kind2: u64) -> usize {
    let f = |k: u64| {
        let (vm, dm) = kind_mask(k);
        2 * (vm.count_ones() + dm.count_ones()) as usize
    };
    f(kind1) + f(kind2)
}

fn gen_pair_glyph_spec(rng: &mut Rng, target_bytes: usize, pool: &[Dev], contiguous_first: bool, mixed_formats: bool) -> Spec {
    gen_pair_glyph_spec_k(rng, target_bytes, pool, contiguous_first, mixed_formats, None)
}
fn gen_pair_glyph_spec_k(rng: &mut Rng, target_bytes: usize, pool: &[Dev], contiguous_first: bool, mixed_formats: bool, kinds: Option<(u64, u64)>) -> Spec {
    let (k1, k2) = kinds.unwrap_or_else(|| (*rng.pick(&ALL_KINDS[..14]), if rng.chance(1, 2) { 4 } else { *rng.pick(&ALL_KINDS) }));
    let rec = 2 + rec_size(k1, k2);
    let n1 = if target_bytes < 4000 { 1 + rng.below(12) as usize } else { 24 + rng.below(90) as usize };
    let n2 = (target_bytes / (n1 * rec)).max(1).min(4000);
    let stride1 = if contiguous_first { 1 } else { 2 + rng.below(3) as u16 };
    let base1 = 1 + rng.below(200) as u16;
    let base2 = rng.below(500) as u16;
    let mut pairs = vec![];
    for i in 0..n1 {
        let g1 = base1 + i as u16 * stride1;
        for j in 0..n2 {
            let g2 = base2 + j as u16 * 2;
            let (a, b) = if mixed_formats && (i % 5 == 4) { (2, 0) } else { (k1, k2) };
            pairs.push((g1, g2, mk_val(a, (i * 4001 + j) as i64, pool), mk_val(b, (i * 31 + j * 7) as i64, pool)));
        }
    }
    // duplicates: the first rule wins
    for _ in 0..rng.below(4) {
        let p = rng.pick(&pairs).clone();
        pairs.push((p.0, p.1, mk_val(k1, 424242, pool), p.3.clone()));
    }
    Spec::Pair { pairs, classes: vec![] }
}

fn gen_pair_class_spec(rng: &mut Rng, target_bytes: usize, pool: &[Dev], with_conflict: bool) -> Spec {
    gen_pair_class_spec_k(rng, target_bytes, pool, with_conflict, None)
}
fn gen_pair_class_spec_k(rng: &mut Rng, target_bytes: usize, pool: &[Dev], with_conflict: bool, kinds: Option<(u64, u64)>) -> Spec {
    let (k1, k2) = kinds.unwrap_or_else(|| (*rng.pick(&ALL_KINDS[..14]), if rng.chance(1, 2) { 4 } else { *rng.pick(&ALL_KINDS) }));
    // some rules of the subtable use another field set: the subtable's value formats are the UNION over its rules
    let alt = kinds.map(|_| true).unwrap_or_else(|| rng.chance(1, 3));
    let cell = rec_size(k1, k2).max(2);
    let cells = (target_bytes / cell).max(1);
    let c1n = if target_bytes < 4000 { 1 + rng.below(5) as usize } else { 20 + rng.below(100) as usize };
    let c2n = (cells / c1n).max(1).min(300);
    let s1 = 1 + rng.below(3) as u16;
    let s2 = 1 + rng.below(3) as u16;
    let stride = if rng.chance(1, 2) { 1 } else { 2 };
    let mk_classes = |rng: &mut Rng, n: usize, base: u16, sz: u16| -> Vec<Vec<u16>> {
        let mut v = vec![];
        let mut cur = base;
        for _ in 0..n {
            let len = 1 + rng.below(sz as u64 + 1) as u16;
            v.push((0..len).map(|k| cur + k * stride).collect());
            cur += len * stride + rng.below(2) as u16;
        }
        v
    };
    let b1 = 10 + rng.below(50) as u16;
    let cls1 = mk_classes(rng, c1n, b1, s1);
    let b2 = 5 + rng.below(50) as u16;
    let cls2 = mk_classes(rng, c2n, b2, s2);
    let dense = rng.chance(1, 2);
    let mut classes = vec![];
    for (i, a) in cls1.iter().enumerate() {
        for (j, b) in cls2.iter().enumerate() {
            if dense || rng.chance(3, 4) || j == 0 {
                let (q1, q2) = if alt && (i + j) % 4 == 3 { (0, 9) } else { (k1, k2) };
                classes.push((a.clone(), b.clone(), mk_val(q1, (i * 1009 + j) as i64, pool), mk_val(q2, (i + j * 17) as i64, pool)));
            }
        }
    }
    // duplicate class pair: the last rule wins (BTreeMap::insert)
    if rng.chance(1, 2) && !classes.is_empty() {
        let c = rng.pick(&classes).clone();
        classes.push((c.0, c.1, mk_val(k1, 777, pool), c.3));
    }
    if with_conflict {
        // a class overlapping an earlier class1 without being equal: forces a subtable break
        let mut odd = cls1[0].clone();
        odd.push(9000);
        classes.push((odd, cls2[0].clone(), mk_val(k1, 99, pool), mk_val(k2, 98, pool)));
        classes.push((vec![9001, 9002], cls2[0].clone(), mk_val(k1, 97, pool), mk_val(k2, 96, pool)));
    }
    // a few glyph pairs in front of the classes (specific pairs beat classes)
    let mut pairs = vec![];
    if rng.chance(1, 2) {
        for _ in 0..1 + rng.below(4) {
            let a = rng.pick(&cls1)[0];
            let b = rng.pick(&cls2)[0];
            pairs.push((a, b, mk_val(0, 5555, pool), Val::default()));
        }
    }
    Spec::Pair { pairs, classes }
}

/// a short SEQUENCE of insert_classes / insert_pair calls over a small glyph universe: class sets that are equal to,
/// nested in, overlapping with or disjoint from earlier ones on both sides (implicit subtable breaks in any position)
fn gen_class_sequence_spec(rng: &mut Rng, pool: &[Dev]) -> Spec {
    let u1: Vec<u16> = (10..10 + 6 + rng.below(8) as u16).collect();
    let u2: Vec<u16> = (40..40 + 4 + rng.below(8) as u16).collect();
    let gen_set = |rng: &mut Rng, u: &[u16], earlier: &[Vec<u16>]| -> Vec<u16> {
        let fresh = |rng: &mut Rng| -> Vec<u16> {
            let mut s: BTreeSet<u16> = BTreeSet::new();
            for _ in 0..1 + rng.below(3) {
                s.insert(*rng.pick(u));
            }
            s.into_iter().collect()
        };
        if earlier.is_empty() {
            return fresh(rng);
        }
        let e = rng.pick(earlier).clone();
        let mut s: BTreeSet<u16> = match rng.below(10) {
            0..=2 => e.iter().copied().collect(),                       // equal
            3 | 4 => e.iter().copied().chain([*rng.pick(u)]).collect(), // superset (or equal)
            5 | 6 => [*rng.pick(&e)].into_iter().chain(if rng.chance(1, 2) { Some(*rng.pick(u)) } else { None }).collect(), // subset / overlap
            _ => fresh(rng).into_iter().collect(),
        };
        if s.is_empty() {
            s.insert(u[0]);
        }
        let mut v: Vec<u16> = s.into_iter().collect();
        if rng.chance(1, 3) {
            rng.shuffle(&mut v);
        }
        v
    };
    let n = 3 + rng.below(6) as usize;
    let (k1, k2) = (*rng.pick(&[0u64, 0, 1, 3, 9]), *rng.pick(&[4u64, 4, 0, 5]));
    let mut classes: Vec<(Vec<u16>, Vec<u16>, Val, Val)> = vec![];
    for i in 0..n {
        let e1: Vec<Vec<u16>> = classes.iter().map(|c| c.0.clone()).collect();
        let e2: Vec<Vec<u16>> = classes.iter().map(|c| c.1.clone()).collect();
        let c1 = gen_set(rng, &u1, &e1);
        let c2 = gen_set(rng, &u2, &e2);
        classes.push((c1, c2, mk_val(k1, (i * 37 + 1) as i64, pool), mk_val(k2, (i * 53 + 2) as i64, pool)));
    }
    let mut pairs = vec![];
    for j in 0..rng.below(4) {
        pairs.push((*rng.pick(&u1), *rng.pick(&u2), mk_val(k1, 900 + j as i64, pool), mk_val(k2, 950 + j as i64, pool)));
    }
    Spec::Pair { pairs, classes }
}

fn gen_direct_pp1(rng: &mut Rng, target_bytes: usize) -> Spec {
    let m = *rng.pick(&[(0b0100u8, 0u8), (0b1000, 0b1000), (0b0001, 0), (0b0010, 0b1000), (0b1111, 0b1111), (0b1100, 0b0100), (0b0100, 0)]);
    gen_direct_pp1_k(rng, target_bytes, m.0, m.1)
}
/// a PairPosFormat1 table given directly; VariationIndex records on the fields of `m1` (value record 1) and `m2`
/// (value record 2); uniform value formats within the table.
fn gen_direct_pp1_k(rng: &mut Rng, target_bytes: usize, m1: u8, m2: u8) -> Spec {
    let per = 2 + 10 * (m1.count_ones() + m2.count_ones()) as usize; // value + offset + 6-byte VariationIndex table
    let n1 = 12 + rng.below(30) as usize;
    let n2 = (target_bytes / (n1 * per)).max(1);
    let mut sets = BTreeMap::new();
    let mk = |mask: u8, i: usize, j: usize, which: u16| -> Val {
        let mut v = Val::default();
        for f in 0..4 {
            if mask & (1 << f) != 0 {
                v.v[f] = Some(((i * 37 + j + f * 11) % 3000) as i16 - 1500);
                v.d[f] = Dev::VarIdx((i % 7) as u16 * 8 + f as u16 + which * 4, (j % 65000) as u16);
            }
        }
        v
    };
    for i in 0..n1 {
        let g1 = 3 + i as u16 * if rng.chance(1, 2) { 1 } else { 3 };
        let recs: Vec<(u16, Val, Val)> = (0..n2).map(|j| (10 + j as u16, mk(m1, i, j, 0), mk(m2, i, j, 1))).collect();
        sets.insert(g1, recs);
    }
    Spec::DirectPP1 { sets, vf: (Val::default(), Val::default()), fmt: None }
}

/// all 2-, 3- and 4-subsets of the four device fields [x_placement, y_placement, x_advance, y_advance]
const DEV_SUBSETS: [u8; 11] = [0b0011, 0b0101, 0b1001, 0b0110, 0b1010, 0b1100, 0b0111, 0b1011, 0b1101, 0b1110, 0b1111];
/// the `k`-th subset of the bits of `mask` (k taken modulo the number of subsets)
fn subset_of(mask: u8, k: usize) -> u8 {
    let bits: Vec<u8> = (0..4).filter(|b| mask & (1 << b) != 0).collect();
    let k = k % (1usize << bits.len());
    bits.iter().enumerate().filter(|(n, _)| k & (1 << n) != 0).fold(0u8, |m, (_, b)| m | (1 << b))
}
/// a value record with the values of `vm` and a device on the fields of `present` (a subset of the format's device
/// fields, chosen per record by the caller); `which` = 0 / 1 for value record 1 / 2.  The (up to) eight device tables of
/// one cell are pairwise distinct, so a device offset landing in another field's slot is visible.
/// mode 0: VariationIndex tables, 1: Device tables, 2: both kinds mixed
fn mk_devmix_val(vm: u8, present: u8, seed: usize, which: usize, mode: usize, pool: &[Dev]) -> Val {
    let mut v = Val::default();
    for f in 0..4usize {
        if vm & (1 << f) != 0 {
            v.v[f] = Some((((seed * 13 + f * 257 + which * 1021) % 4001) as i32 - 2000) as i16);
        }
        if present & (1 << f) != 0 {
            let slot = f + 4 * which;
            let varidx = match mode { 0 => true, 1 => false, _ => (slot + seed) % 2 == 0 };
            v.d[f] = if varidx { Dev::VarIdx((slot * 8 + seed % 5) as u16, (seed % 211) as u16) } else { pool[(seed * 8 + slot) % pool.len()].clone() };
        }
    }
    v
}
/// per-cell null / non-null patterns: every subset of dm1 and (independently) every subset of dm2 occurs
fn devmix_cell(n: usize, vm1: u8, dm1: u8, vm2: u8, dm2: u8, mode: usize, pool: &[Dev]) -> VV {
    let p1 = subset_of(dm1, n.wrapping_mul(7) + n / 16);
    let p2 = subset_of(dm2, n / 3 + n.wrapping_mul(5));
    (mk_devmix_val(vm1, p1, n, 0, mode, pool), mk_devmix_val(vm2, p2, n * 3 + 1, 1, mode, pool))
}
/// glyph classes of 1-2 glyphs, class ids NOT monotone in glyph order
fn devmix_classes(rng: &mut Rng, n: usize, base_lo: u16, base_span: u64) -> Vec<Vec<u16>> {
    let base = base_lo + rng.below(base_span) as u16;
    let stride = 1 + rng.below(2) as u16;
    let mut order: Vec<usize> = (0..n).collect();
    if rng.chance(2, 3) {
        rng.shuffle(&mut order);
    }
    let mut v = vec![vec![]; n];
    let mut cur = base;
    for c in order {
        let len = 1 + rng.below(2) as u16;
        v[c] = (0..len).map(|k| cur + k * stride).collect();
        cur += len * stride + rng.below(2) as u16;
    }
    v
}
fn devmix_dims(rng: &mut Rng, target_bytes: usize, cell: usize) -> (usize, usize) {
    let cells = (target_bytes / cell.max(2)).max(4);
    let c1n = if target_bytes < 4000 { 2 + rng.below(5) as usize } else { 40 + rng.below(140) as usize };
    let c2n = (cells / c1n).max(2).min(400);
    (c1n, c2n)
}
/// PairPos format 2 given directly: value formats with SEVERAL device fields (dm1 / dm2 for value record 1 / 2), value
/// fields independent of the device fields, per-record independent null / non-null device offsets
fn gen_direct_pp2_devmix(rng: &mut Rng, target_bytes: usize, dm1: u8, dm2: u8, mode: usize, pool: &[Dev]) -> Spec {
    let vm1 = rng.below(16) as u8;
    let vm2 = rng.below(16) as u8;
    let cell = 2 * (vm1.count_ones() + dm1.count_ones() + vm2.count_ones() + dm2.count_ones()) as usize;
    let (c1n, c2n) = devmix_dims(rng, target_bytes, cell);
    let cls1 = devmix_classes(rng, c1n, 20, 40);
    let mut cls2 = devmix_classes(rng, c2n, 5, 2000);
    cls2[0] = vec![];
    let cells: Vec<Vec<VV>> = (0..c1n).map(|i| (0..c2n).map(|j| devmix_cell(i * c2n + j, vm1, dm1, vm2, dm2, mode, pool)).collect()).collect();
    Spec::DirectPP2 { cls1, cls2, cells, fmt: (vm1 as u16 | (dm1 as u16) << 4, vm2 as u16 | (dm2 as u16) << 4) }
}
/// the same through ClassPairPosBuilder (Device tables; a device needs its value, the subtable's format is the union
/// over its rules so records lacking a device get a null offset)
fn gen_pair_class_devmix(rng: &mut Rng, target_bytes: usize, dm1: u8, dm2: u8, pool: &[Dev]) -> Spec {
    let vm1 = dm1 | rng.below(16) as u8;
    let vm2 = dm2 | rng.below(16) as u8;
    let cell = 2 * (vm1.count_ones() + dm1.count_ones() + vm2.count_ones() + dm2.count_ones()) as usize;
    let (c1n, c2n) = devmix_dims(rng, target_bytes, cell);
    let cls1 = devmix_classes(rng, c1n, 20, 40);
    let cls2 = devmix_classes(rng, c2n, 5, 2000);
    let sparse = rng.chance(1, 3);
    let mut classes = vec![];
    for (i, a) in cls1.iter().enumerate() {
        for (j, b) in cls2.iter().enumerate() {
            if !sparse || (i * 31 + j * 17) % 9 != 0 {
                let (v1, v2) = devmix_cell(i * c2n + j, vm1, dm1, vm2, dm2, 1, pool);
                classes.push((a.clone(), b.clone(), v1, v2));
            }
        }
    }
    Spec::Pair { pairs: vec![], classes }
}
/// PairPos format 1 given directly with explicit value formats and the same per-record device patterns
fn gen_direct_pp1_devmix(rng: &mut Rng, target_bytes: usize, dm1: u8, dm2: u8, mode: usize, pool: &[Dev]) -> Spec {
    let vm1 = rng.below(16) as u8;
    let vm2 = rng.below(16) as u8;
    let per = 2 + 2 * (vm1.count_ones() + dm1.count_ones() + vm2.count_ones() + dm2.count_ones()) as usize;
    let n1 = if target_bytes < 4000 { 2 + rng.below(6) as usize } else { 30 + rng.below(60) as usize };
    let n2 = (target_bytes / (n1 * per)).max(2);
    let stride = 1 + rng.below(3) as u16;
    let mut sets = BTreeMap::new();
    for i in 0..n1 {
        let recs: Vec<(u16, Val, Val)> = (0..n2)
            .map(|j| {
                let (v1, v2) = devmix_cell(i * n2 + j, vm1, dm1, vm2, dm2, mode, pool);
                (10 + j as u16, v1, v2)
            })
            .collect();
        sets.insert(3 + i as u16 * stride, recs);
    }
    Spec::DirectPP1 { sets, vf: (Val::default(), Val::default()), fmt: Some((vm1 as u16 | (dm1 as u16) << 4, vm2 as u16 | (dm2 as u16) << 4)) }
}

fn gen_m2m_spec(rng: &mut Rng, target_bytes: usize, pool: &[Dev]) -> Spec {
    match gen_m2b_spec(rng, target_bytes, pool) {
        Spec::M2B { marks, bases } => Spec::M2M { marks, bases },
        s => s,
    }
}

/// a sequence of insert_ligature calls: sparse component lists (None at the start / middle / end / everywhere),
/// differing component counts per ligature, classes in any order, repeated (ligature, class) calls
fn gen_m2l_spec(rng: &mut Rng, pool: &[Dev]) -> Spec {
    let ncls = 1 + rng.below(4) as usize;
    let fancy = rng.chance(1, 3);
    let mut id = 1i64;
    let mut marks = vec![];
    let mut g = 600u16;
    for c in 0..ncls {
        for _ in 0..1 + rng.below(3) {
            marks.push((g, c, mk_anchor(rng, id, pool, fancy)));
            id += 1;
            g += 1 + rng.below(2) as u16;
        }
    }
    let nl = 2 + rng.below(7) as usize;
    let mut calls = vec![];
    for l in 0..nl {
        let lg = 3000 + l as u16 * 3 + rng.below(3) as u16; // distinct ligature glyphs: the component count is per glyph
        let ncomp = 1 + rng.below(4) as usize;
        let mut classes: Vec<usize> = (0..ncls).filter(|_| rng.chance(3, 4)).collect();
        if classes.is_empty() {
            classes.push(rng.below(ncls as u64) as usize);
        }
        if rng.chance(1, 4) {
            classes.push(*rng.pick(&classes)); // the later call overwrites the components it gives
        }
        for c in classes {
            let pattern = rng.below(7);
            let comps: Vec<Option<Anc>> = (0..ncomp)
                .map(|i| {
                    let some = match pattern {
                        0 => true,
                        1 => i != 0,                  // None at the start
                        2 => i + 1 != ncomp,          // None at the end
                        3 => i == 0 || i + 1 == ncomp, // None in the middle
                        4 => i + 1 == ncomp,          // only the last
                        5 => false,
                        _ => rng.chance(1, 2),
                    };
                    if some {
                        id += 1;
                        Some(mk_anchor(rng, id, pool, fancy))
                    } else {
                        None
                    }
                })
                .collect();
            calls.push((lg, c, comps));
        }
    }
    if rng.chance(1, 2) {
        rng.shuffle(&mut calls);
    }
    Spec::M2L { marks, ligs: calls }
}

fn gen_cursive_spec(rng: &mut Rng, pool: &[Dev]) -> Spec {
    let n = 1 + rng.below(30) as usize;
    let fancy = rng.chance(1, 3);
    let mut items = vec![];
    let mut g = 100 + rng.below(50) as u16;
    for i in 0..n {
        let k = rng.below(5);
        let en = if k == 0 || k == 2 || k == 4 { Some(mk_anchor(rng, i as i64 * 2 + 1, pool, fancy)) } else { None };
        let ex = if k == 1 || k == 2 || k == 4 { Some(mk_anchor(rng, i as i64 * 2 + 2, pool, fancy)) } else { None };
        items.push((g, en, ex));
        g += 1 + rng.below(3) as u16;
    }
    // a later insert for the same glyph replaces the record
    for _ in 0..rng.below(3) {
        let g = rng.pick(&items).0;
        items.push((g, Some(mk_anchor(rng, 999, pool, false)), None));
    }
    Spec::Cursive { items }
}

/// 2-4 subtables (builders) of the same kind in ONE lookup, bit j of `big` = subtable j is oversized (> 64 KiB)
fn gen_multi_spec(rng: &mut Rng, pool: &[Dev], kind: usize, n: usize, big: u32) -> Spec {
    let k = 65536usize;
    let target = |rng: &mut Rng, j: usize| if big & (1 << j) != 0 { k * 5 / 4 + rng.below(k as u64 / 2) as usize } else { 1500 + rng.below(20000) as usize };
    match kind {
        // PairPos: glyph-pair and class-pair builders alternating
        0 => Spec::Multi(
            (0..n)
                .map(|j| {
                    let t = target(rng, j);
                    if j % 2 == 0 {
                        gen_pair_glyph_spec_k(rng, t, pool, rng.0 % 2 == 0, false, Some((ALL_KINDS[(j * 3) % 14], 4)))
                    } else {
                        gen_pair_class_spec(rng, t, pool, false)
                    }
                })
                .collect(),
        ),
        // MarkBase
        1 => Spec::Multi((0..n).map(|j| { let t = target(rng, j); gen_m2b_spec(rng, t, pool) }).collect()),
        // ONE PairPosBuilder whose glyph pairs fall into n value-format groups (one PairPos1 subtable per group)
        _ => {
            let mut pairs = vec![];
            for j in 0..n {
                let t = target(rng, j);
                if let Spec::Pair { pairs: p, .. } = gen_pair_glyph_spec_k(rng, t, pool, j % 2 == 0, false, Some(([0u64, 2, 1, 9][j % 4], 4))) {
                    pairs.extend(p);
                }
            }
            Spec::Pair { pairs, classes: vec![] }
        }
    }
}

fn gen_m2b_spec(rng: &mut Rng, target_bytes: usize, pool: &[Dev]) -> Spec {
    let ncls = if target_bytes < 4000 { 1 + rng.below(4) as usize } else { 2 + rng.below(39) as usize };
    let fancy = rng.chance(1, 2);
    let per_anchor = 8;
    let nb = (target_bytes / (ncls * per_anchor)).max(1).min(3000);
    let mut marks = vec![];
    let mut g = 500 + rng.below(100) as u16;
    // interleave classes over the glyph order so that a class's marks are not a coverage sub-range
    let per = 1 + rng.below(5) as usize;
    let mut id = 1i64;
    for r in 0..per {
        for c in 0..ncls {
            if r == 0 || rng.chance(2, 3) {
                marks.push((g, c, mk_anchor(rng, id, pool, fancy)));
                id += 1;
            }
            g += 1 + rng.below(2) as u16;
        }
    }
    let mut bases = vec![];
    let sparse = rng.chance(1, 2);
    for b in 0..nb {
        let bg = 2000 + b as u16 * if rng.chance(1, 2) { 1 } else { 2 };
        for c in 0..ncls {
            if !sparse || rng.chance(4, 5) {
                bases.push((bg, c, mk_anchor(rng, id, pool, fancy)));
                id += 1;
            }
        }
    }
    // duplicates: a later anchor for the same base and class replaces the earlier one
    if rng.chance(1, 2) && !bases.is_empty() {
        let b = rng.pick(&bases).clone();
        bases.push((b.0, b.1, mk_anchor(rng, 31337, pool, false)));
    }
    Spec::M2B { marks, bases }
}

// ------------------------------------------------------------------------------------------------

struct GposCase {
    key: String,
    lookups: Vec<LookupSpec>,
}

fn gen_flags(rng: &mut Rng) -> (u16, Option<u16>) {
    match rng.below(5) {
        0 => (0, None),
        1 => (0x0001, None),
        2 => (0x0008 | 0x0100, None),
        3 => (0x0010, Some(rng.below(5) as u16)),
        _ => (0x0010 | 0x0002, Some(7)),
    }
}

fn run_gpos_case(case: &GposCase, rng: &mut Rng, st: &mut Stats, cw: &mut CaseWriter, thorough: bool) {
    let specs = case.lookups.clone();
    let built = catch(move || {
        let mut vs = VariationStoreBuilder::new(1);
        let lookups: Vec<wgpos::PositionLookup> = specs.iter().map(|l| build_lookup(l, &mut vs)).collect();
        let pre: Vec<_> = lookups.iter().map(pre_of_lookup).collect();
        let gpos = wgpos::Gpos::new(Default::default(), Default::default(), wlayout::LookupList::new(lookups));
        (pre, write_fonts::dump_table(&gpos).map_err(|e| format!("{:?}", e).chars().take(200).collect::<String>()))
    });
    st.evaluations += 1;
    let (pre, bytes) = match built {
        Ok((pre, Ok(b))) => (pre, b),
        Ok((_, Err(e))) => {
            st.count("gpos_pack_failed");
            st.oracle_failure(json!({"key": format!("{}:pack-failed", case.key), "what": "dump_table failed on a rule set that splitting should make packable", "err": e}));
            return;
        }
        Err(e) => {
            st.count("gpos_compile_panic");
            st.oracle_failure(json!({"key": format!("{}:compile-panic", case.key), "what": "compilation panicked", "err": e}));
            return;
        }
    };
    st.count(match bytes.len() { 0..=4095 => "gpos_size_lt_4k", 4096..=65535 => "gpos_size_4k_64k", 65536..=196607 => "gpos_size_64k_192k", _ => "gpos_size_ge_192k" });
    let key = case.key.clone();
    let case_specs = case.lookups.clone();
    let mut sub_rng = Rng::new(rng.next_u64());
    let mut lst = Stats::new();
    let mut lcw: Vec<String> = vec![];
    // everything that reads the compiled bytes runs under catch: a panic in a reader is an observation
    let bytes2 = bytes.clone();
    let res = catch(std::panic::AssertUnwindSafe(|| {
        let gpos = rgpos::Gpos::read(FontData::new(&bytes2)).unwrap();
        let ll = gpos.lookup_list().unwrap();
        if ll.lookup_count() as usize != case_specs.len() {
            lst.oracle_failure(json!({"key": format!("{}:lookup-count", key), "what": "lookup count changed"}));
            return;
        }
        for (li, ls) in case_specs.iter().enumerate() {
            let rl = ll.lookups().get(li).unwrap();
            let lk = decode_lookup(&rl);
            let (pty, pfl, pmfs, pres) = &pre[li];
            let promoted = lk.ty == 9;
            lst.count(if promoted { "lookups_promoted" } else { "lookups_not_promoted" });
            if lk.subs.len() > pres.len() {
                lst.count("lookups_with_split");
            }
            // oracle: flags / mark filtering set / type survive splitting and promotion
            if lk.flags != ls.flags || lk.mfs != ls.mfs {
                lst.oracle_failure(json!({"key": format!("{}:l{}:flags", key, li), "what": "lookup flags or mark filtering set changed by compilation",
                    "flags_in": ls.flags, "flags_out": lk.flags, "mfs_in": ls.mfs, "mfs_out": lk.mfs}));
            }
            if (!promoted && lk.ty != *pty) || (promoted && lk.ext_types.iter().any(|t| t != pty)) {
                lst.oracle_failure(json!({"key": format!("{}:l{}:type", key, li), "what": "lookup type changed"}));
            }
            lcw.push(format!(
                "CPromote ({}, {}, {}, {}) ({}, {}, {}, {}) {} {}",
                pty, pfl, pmfs.map(|v| v as i64).unwrap_or(-1), pres.len(),
                lk.ty, lk.flags, lk.mfs.map(|v| v as i64).unwrap_or(-1), lk.subs.len(),
                cbool(promoted), czlist(lk.ext_types.iter().map(|t| *t as i128))
            ));
            // split structure vs model
            emit_split_cases(pres, &lk, &mut lst, &mut lcw, &format!("{}:l{}", key, li));
            // the subtable assignment the real builder chose for a sequence of insert_classes calls vs the model (cpp_build)
            if let Spec::Pair { classes, .. } = &ls.spec {
                let nglyphs: usize = classes.iter().map(|c| c.0.len() + c.1.len()).sum();
                if !classes.is_empty() && classes.len() <= 40 && nglyphs <= 400 {
                    let subs: Vec<String> = pres
                        .iter()
                        .filter_map(|p| match p {
                            Pre::PP2 { cov, rowfp, c2n, .. } => {
                                let glyphs: Vec<i64> = if cov.0 == 1 { cov.1.clone() } else { cov.1.chunks(3).flat_map(|r| r[0]..=r[1]).collect() };
                                Some(format!("({}, {}, {})", czlist(glyphs.iter().map(|g| *g as i128)), rowfp.len(), c2n))
                            }
                            _ => None,
                        })
                        .collect();
                    lcw.push(format!(
                        "CClassSeq {} [{}]",
                        clist(classes.iter(), |c| format!("({}, {})", czlist(c.0.iter().map(|g| *g as i128)), czlist(c.1.iter().map(|g| *g as i128)))),
                        subs.join("; ")
                    ));
                    lst.count("class_sequence_shard_cases");
                    lst.count(&format!("class_sequence_subtables_{}", subs.len().min(5)));
                }
            }
            // semantics: every pair with a rule, plus a sample without
            let parts: Vec<&Spec> = match &ls.spec { Spec::Multi(v) => v.iter().collect(), s => vec![s] };
            let all_pairs: Vec<(u16, u16, Val, Val)> = parts.iter().flat_map(|p| match p { Spec::Pair { pairs, .. } => pairs.clone(), _ => vec![] }).collect();
            let all_classes: Vec<(Vec<u16>, Vec<u16>, Val, Val)> = parts.iter().flat_map(|p| match p { Spec::Pair { classes, .. } => classes.clone(), _ => vec![] }).collect();
            match parts[0] {
                Spec::Multi(_) => unreachable!(),
                Spec::Pair { .. } => {
                    let (pairs, classes) = (&all_pairs, &all_classes);
                    let single = parts.len() == 1;
                    let sem = MultiSem { segs: parts.iter().map(|p| match p { Spec::Pair { pairs, classes } => PairSem::new(pairs, classes), _ => panic!("mixed Multi") }).collect() };
                    let mut todo: Vec<(u16, u16)> = pairs.iter().map(|p| (p.0, p.1)).collect();
                    let mut firsts: BTreeSet<u16> = pairs.iter().map(|p| p.0).collect();
                    let mut seconds: BTreeSet<u16> = pairs.iter().map(|p| p.1).collect();
                    let mut nclass_pairs = 0usize;
                    for (c1, c2, _, _) in classes {
                        firsts.extend(c1.iter().copied());
                        seconds.extend(c2.iter().copied());
                        nclass_pairs += c1.len() * c2.len();
                    }
                    let cap = if thorough { 600_000 } else { 150_000 };
                    for (c1, c2, _, _) in classes {
                        for a in c1 {
                            for b in c2 {
                                if nclass_pairs <= cap || sub_rng.chance(cap as u64, nclass_pairs as u64) {
                                    todo.push((*a, *b));
                                }
                            }
                        }
                    }
                    let f: Vec<u16> = firsts.iter().copied().collect();
                    let s: Vec<u16> = seconds.iter().copied().collect();
                    let mut without = 0;
                    for _ in 0..3000 {
                        let a = match sub_rng.below(3) { 0 => sub_rng.below(65536) as u16, _ => if f.is_empty() { 0 } else { *sub_rng.pick(&f) + sub_rng.below(2) as u16 } };
                        let b = match sub_rng.below(3) { 0 => sub_rng.below(65536) as u16, _ => if s.is_empty() { 0 } else { *sub_rng.pick(&s) + sub_rng.below(2) as u16 } };
                        todo.push((a, b));
                    }
                    let mut bad = 0;
                    let mut bad_order = 0;
                    let order_check = single && !classes.is_empty() && classes.len() <= 64;
                    let csets: Vec<(BTreeSet<u16>, BTreeSet<u16>)> = if order_check {
                        classes.iter().map(|c| (c.0.iter().copied().collect(), c.1.iter().copied().collect())).collect()
                    } else {
                        vec![]
                    };
                    for (a, b) in todo {
                        let exp = sem.eval(a, b);
                        let got = walk_pair(&lk, a, b);
                        lst.evaluations += 1;
                        // insertion-order priority, independent of how rules are grouped into subtables: a pair that no specific
                        // glyph-pair rule covers gets the value of the FIRST class rule (insertion order) covering it (the last
                        // one given for the identical class pair), or nothing (an earlier subtable covers glyph 1 without a rule
                        // for this pair) — never the value of a later, different rule
                        if order_check && !sem.has_specific_pair(a, b) {
                            let g = got.as_ref().map(eff2).unwrap_or_default();
                            let zero = <(([i16; 4], [Dev; 4]), ([i16; 4], [Dev; 4]))>::default();
                            let ok = g == zero
                                || match csets.iter().position(|c| c.0.contains(&a) && c.1.contains(&b)) {
                                    Some(k) => csets.iter().enumerate().any(|(j, c)| *c == csets[k] && eff2(&(classes[j].2.clone(), classes[j].3.clone())) == g),
                                    None => false,
                                };
                            if !ok {
                                bad_order += 1;
                                if bad_order <= 2 {
                                    lst.oracle_failure(json!({"key": format!("{}:l{}:order", key, li), "what": "a glyph pair gets a value that is neither the first covering class rule's (insertion order) nor nothing",
                                        "g1": a, "g2": b, "got": format!("{:?}", got)}));
                                }
                            }
                        }
                        if exp.is_none() {
                            without += 1;
                        }
                        let e = exp.as_ref().map(eff2).unwrap_or_default();
                        let g = got.as_ref().map(eff2).unwrap_or_default();
                        if e != g {
                            bad += 1;
                            if bad <= 2 {
                                lst.oracle_failure(json!({"key": format!("{}:l{}:pair", key, li), "what": "compiled lookup answers a glyph pair differently from the input rules",
                                    "g1": a, "g2": b, "expected": format!("{:?}", exp), "got": format!("{:?}", got)}));
                            }
                        }
                    }
                    lst.add("pairs_without_rule_probed", without);
                    if bad > 2 {
                        lst.add("pair_mismatches_suppressed", bad - 2);
                    }
                }
                Spec::DirectPP1 { sets, .. } => {
                    let mut bad = 0;
                    for (g1, recs) in sets {
                        for (g2, v1, v2) in recs {
                            lst.evaluations += 1;
                            let got = walk_pair(&lk, *g1, *g2);
                            if got.as_ref() != Some(&(v1.clone(), v2.clone())) {
                                bad += 1;
                                if bad <= 2 {
                                    lst.oracle_failure(json!({"key": format!("{}:l{}:pair", key, li), "what": "compiled PairPos1 answers differently from the table given",
                                        "g1": g1, "g2": g2, "expected": format!("{:?}", (v1, v2)), "got": format!("{:?}", got)}));
                                }
                            }
                        }
                        // pairs without a rule
                        for d in [1u16, 7, 60000] {
                            let g2 = recs.last().unwrap().0.wrapping_add(d);
                            if walk_pair(&lk, *g1, g2).is_some() || walk_pair(&lk, g1.wrapping_add(1), 10).is_some() && !sets.contains_key(&g1.wrapping_add(1)) {
                                lst.oracle_failure(json!({"key": format!("{}:l{}:nopair", key, li), "what": "pair without a rule gets an adjustment", "g1": g1, "g2": g2}));
                            }
                        }
                    }
                }
                Spec::DirectPP2 { cls1, cls2, cells, .. } => {
                    // every (first glyph, second glyph) of every class pair, class 2 zero through glyphs outside every class,
                    // compared field by field: which device / variation-index table sits in WHICH of the eight fields
                    let in2: BTreeSet<u16> = cls2.iter().flatten().copied().collect();
                    let in1: BTreeSet<u16> = cls1.iter().flatten().copied().collect();
                    let zero2: Vec<u16> = [0u16, 60001, 65535].into_iter().filter(|g| !in2.contains(g)).collect();
                    let mut bad = 0;
                    for (i, gs) in cls1.iter().enumerate() {
                        for g1 in gs {
                            for (j, g2s) in cls2.iter().enumerate() {
                                let probes: Vec<u16> = if j == 0 { zero2.iter().copied().chain(if in2.contains(g1) { None } else { Some(*g1) }).collect() } else { g2s.clone() };
                                for g2 in probes {
                                    lst.evaluations += 1;
                                    let exp = &cells[i][j];
                                    let got = walk_pair(&lk, *g1, g2);
                                    if got.as_ref().map(eff2) != Some(eff2(exp)) {
                                        bad += 1;
                                        if bad <= 2 {
                                            lst.oracle_failure(json!({"key": format!("{}:l{}:pair", key, li), "what": "compiled PairPos2 answers a glyph pair differently from the table given (values and the device / variation-index table of each field)",
                                                "g1": g1, "g2": g2, "class1": i, "class2": j, "expected": format!("{:?}", exp), "got": format!("{:?}", got)}));
                                        }
                                    }
                                }
                            }
                            // first glyphs outside the coverage get nothing
                            for d in [1u16, 2, 30000] {
                                let n = g1.wrapping_add(d);
                                if !in1.contains(&n) {
                                    lst.evaluations += 1;
                                    if walk_pair(&lk, n, cls2.get(1).and_then(|c| c.first()).copied().unwrap_or(0)).is_some() {
                                        lst.oracle_failure(json!({"key": format!("{}:l{}:nopair", key, li), "what": "first glyph outside the coverage gets an adjustment", "g1": n}));
                                    }
                                }
                            }
                        }
                    }
                    if bad > 2 {
                        lst.add("pair_mismatches_suppressed", bad - 2);
                    }
                }
                Spec::M2B { .. } | Spec::M2M { .. } => {
                    // one (marks, bases) map per builder; the first builder (= subtable) that has both anchors answers
                    let mbs: Vec<(BTreeMap<u16, (usize, Anc)>, BTreeMap<u16, BTreeMap<usize, Anc>>)> = parts
                        .iter()
                        .map(|p| {
                            let (marks, bases) = match p { Spec::M2B { marks, bases } | Spec::M2M { marks, bases } => (marks, bases), _ => panic!("mixed Multi") };
                            let mut mm: BTreeMap<u16, (usize, Anc)> = BTreeMap::new();
                            for (g, c, a) in marks {
                                mm.insert(*g, (*c, a.clone()));
                            }
                            let mut bm: BTreeMap<u16, BTreeMap<usize, Anc>> = BTreeMap::new();
                            for (g, c, a) in bases {
                                bm.entry(*g).or_default().insert(*c, a.clone());
                            }
                            (mm, bm)
                        })
                        .collect();
                    let mk: Vec<u16> = mbs.iter().flat_map(|x| x.0.keys().copied()).collect::<BTreeSet<u16>>().into_iter().collect();
                    let bk: Vec<u16> = mbs.iter().flat_map(|x| x.1.keys().copied()).collect::<BTreeSet<u16>>().into_iter().collect();
                    let total = mk.len() * bk.len();
                    let cap = if thorough { 600_000 } else { 150_000 };
                    let mut bad = 0;
                    let mut check = |m: u16, b: u16, lst: &mut Stats| {
                        let exp = mbs.iter().find_map(|(mm, bm)| mm.get(&m).and_then(|(c, ma)| bm.get(&b).and_then(|row| row.get(c)).map(|ba| (ma.clone(), ba.clone()))));
                        let got = walk_mark(&lk, m, b);
                        lst.evaluations += 1;
                        if exp != got {
                            bad += 1;
                            if bad <= 2 {
                                lst.oracle_failure(json!({"key": format!("{}:l{}:mark", key, li), "what": "compiled mark attachment lookup answers a mark/base pair differently from the input rules",
                                    "mark": m, "base": b, "expected": format!("{:?}", exp), "got": format!("{:?}", got)}));
                            }
                        }
                    };
                    for m in &mk {
                        for b in &bk {
                            if total <= cap || sub_rng.chance(cap as u64, total as u64) {
                                check(*m, *b, &mut lst);
                            }
                        }
                    }
                    for _ in 0..2000 {
                        let m = if sub_rng.chance(1, 2) { *sub_rng.pick(&mk) + sub_rng.below(2) as u16 } else { sub_rng.below(65536) as u16 };
                        let b = if sub_rng.chance(1, 2) { *sub_rng.pick(&bk) + sub_rng.below(2) as u16 } else { sub_rng.below(65536) as u16 };
                        check(m, b, &mut lst);
                    }
                }
                Spec::M2L { marks, ligs } => {
                    // expected matrix: the LAST anchor inserted for (ligature, component, class); None where nothing was inserted
                    let mut mm: BTreeMap<u16, (usize, Anc)> = BTreeMap::new();
                    for (g, c, a) in marks {
                        mm.insert(*g, (*c, a.clone()));
                    }
                    let mut ncomp: BTreeMap<u16, usize> = BTreeMap::new();
                    let mut exp: BTreeMap<(u16, usize, usize), Anc> = BTreeMap::new();
                    for (g, c, comps) in ligs {
                        ncomp.entry(*g).or_insert(comps.len());
                        for (i, a) in comps.iter().enumerate() {
                            if let Some(a) = a {
                                exp.insert((*g, i, *c), a.clone());
                            }
                        }
                    }
                    let ncls = marks.iter().map(|m| m.1).collect::<BTreeSet<_>>().len();
                    let mut bad = 0;
                    // 1. the full ligature x component x class matrix as read back
                    let m2l: Vec<&Sub> = lk.subs.iter().filter(|s| matches!(s, Sub::M2L { .. })).collect();
                    if m2l.len() != 1 {
                        lst.oracle_failure(json!({"key": format!("{}:l{}:lig-subtables", key, li), "what": "expected one MarkLigPos subtable"}));
                    } else if let Sub::M2L { lcov, ligs: got, .. } = m2l[0] {
                        // model correspondence: the calls for each ligature glyph (in order) vs the compiled component x class rows
                        for g in ncomp.keys() {
                            if let Some(rows) = lcov.get(gid(*g)).and_then(|i| got.get(i as usize)) {
                                let calls: Vec<String> = ligs
                                    .iter()
                                    .filter(|c| c.0 == *g)
                                    .map(|(_, c, comps)| format!("({}, {})", c, czlist(comps.iter().map(|a| a.as_ref().map(|a| hash30(a)).unwrap_or(-1) as i128))))
                                    .collect();
                                lcw.push(format!(
                                    "CLigSeq [{}] {} {}",
                                    calls.join("; "),
                                    ncls,
                                    clist(rows.iter(), |r| czlist(r.iter().map(|a| a.as_ref().map(|a| hash30(a)).unwrap_or(-1) as i128)))
                                ));
                            }
                        }
                        for (g, n) in &ncomp {
                            lst.evaluations += 1;
                            let want: Vec<Vec<Option<Anc>>> = (0..*n).map(|i| (0..ncls).map(|c| exp.get(&(*g, i, c)).cloned()).collect()).collect();
                            let have = lcov.get(gid(*g)).and_then(|i| got.get(i as usize)).cloned();
                            if have.as_ref() != Some(&want) {
                                bad += 1;
                                if bad <= 2 {
                                    lst.oracle_failure(json!({"key": format!("{}:l{}:lig-matrix", key, li), "what": "ligature anchor matrix (component x class) differs from what was inserted",
                                        "ligature": g, "expected": format!("{:?}", want), "got": format!("{:?}", have)}));
                                }
                            }
                        }
                    }
                    // 2. attachment semantics for every mark x ligature x component (one past the last component too), and neighbours
                    let mk: Vec<u16> = mm.keys().copied().collect();
                    for m in mk.iter().flat_map(|m| [*m, m.wrapping_add(1)]) {
                        for (g, n) in &ncomp {
                            for l in [*g, g.wrapping_add(1)] {
                                for i in 0..=*n {
                                    lst.evaluations += 1;
                                    let e = mm.get(&m).and_then(|(c, ma)| exp.get(&(l, i, *c)).map(|la| (ma.clone(), la.clone())));
                                    let got = walk_lig(&lk, m, l, i);
                                    if e != got {
                                        bad += 1;
                                        if bad <= 2 {
                                            lst.oracle_failure(json!({"key": format!("{}:l{}:lig", key, li), "what": "compiled mark-to-ligature lookup answers (mark, ligature, component) differently from the input",
                                                "mark": m, "ligature": l, "component": i, "expected": format!("{:?}", e), "got": format!("{:?}", got)}));
                                        }
                                    }
                                }
                            }
                        }
                    }
                }
                Spec::Cursive { items } => {
                    let mut exp: BTreeMap<u16, (Option<Anc>, Option<Anc>)> = BTreeMap::new();
                    for (g, en, ex) in items {
                        exp.insert(*g, (en.clone(), ex.clone()));
                    }
                    let mut bad = 0;
                    let probes: BTreeSet<u16> = exp.keys().flat_map(|g| [*g, g.wrapping_add(1), g.wrapping_sub(1)]).collect();
                    for g in probes {
                        lst.evaluations += 1;
                        let e = exp.get(&g).cloned();
                        let got = walk_cursive(&lk, g);
                        if e != got {
                            bad += 1;
                            if bad <= 2 {
                                lst.oracle_failure(json!({"key": format!("{}:l{}:cursive", key, li), "what": "compiled cursive lookup gives other entry/exit anchors than inserted",
                                    "glyph": g, "expected": format!("{:?}", e), "got": format!("{:?}", got)}));
                            }
                        }
                    }
                }
            }
        }
    }));
    if let Err(e) = res {
        let k = if e.contains("overflow") { format!("{}:reader-panic-overflow", case.key) } else { format!("{}:reader-panic", case.key) };
        lst.oracle_failure(json!({"key": k, "what": "reading the compiled table panicked", "err": e.chars().take(200).collect::<String>()}));
    }
    // merge local stats
    st.evaluations += lst.evaluations;
    for (k, v) in lst.counters {
        if k != "oracle_failures" {
            st.add(&k, v);
        }
    }
    for f in lst.oracle_failures {
        st.oracle_failure(f);
    }
    for c in lcw {
        cw.push(c);
    }
    st.nontrivial(&case.key);
    st.sample(json!({"kind":"gpos","key":case.key,"bytes":bytes.len()}));
}

// ------------------------------------------------------------------------------------------------
// lookups of DIFFERENT types sharing byte-identical (deduplicated) subtables, large enough to be promoted:
// after resolving extensions every subtable must carry its own lookup's type, flags / mark filtering set
// must be preserved and the subtable content must equal the input.  Oracle keys: "shared-<family>-<name>:l<i>:ext-type"
// (also ":flags", ":count", ":content", ":reader-panic", ":pack-failed").

type SeqContent = (Vec<u16>, Vec<Vec<u16>>);
fn seq_content(start: u16, n: u16) -> SeqContent {
    ((start..start + n).collect(), (start..start + n).map(|g| (g..g + 4).collect()).collect())
}
fn shared_gsub_case(name: &str, n: u16, lookups: &[(u16, u16, Option<u16>, Vec<u16>)], st: &mut Stats) {
    use read_fonts::tables::gsub as rgsub;
    use write_fonts::tables::gsub as wgsub;
    let key = format!("shared-gsub-{}", name);
    let specs = lookups.to_vec();
    let built = catch(move || {
        let ls: Vec<wgsub::SubstitutionLookup> = specs
            .iter()
            .map(|(ty, flags, mfs, starts)| {
                let fl = wlayout::LookupFlag::from_bits_truncate(*flags);
                let cov = |s: u16| -> wlayout::CoverageTable { (s..s + n).map(gid).collect() };
                if *ty == 2 {
                    let subs = starts
                        .iter()
                        .map(|s| wgsub::MultipleSubstFormat1::new(cov(*s), (*s..*s + n).map(|g| wgsub::Sequence::new((g..g + 4).map(gid).collect())).collect()))
                        .collect();
                    let mut l = wlayout::Lookup::new(fl, subs);
                    l.mark_filtering_set = *mfs;
                    wgsub::SubstitutionLookup::Multiple(l)
                } else {
                    let subs = starts
                        .iter()
                        .map(|s| wgsub::AlternateSubstFormat1::new(cov(*s), (*s..*s + n).map(|g| wgsub::AlternateSet::new((g..g + 4).map(gid).collect())).collect()))
                        .collect();
                    let mut l = wlayout::Lookup::new(fl, subs);
                    l.mark_filtering_set = *mfs;
                    wgsub::SubstitutionLookup::Alternate(l)
                }
            })
            .collect();
        let gsub = wgsub::Gsub::new(Default::default(), Default::default(), wlayout::LookupList::new(ls));
        write_fonts::dump_table(&gsub).map_err(|e| format!("{:?}", e).chars().take(200).collect::<String>())
    });
    st.evaluations += 1;
    st.count("shared_gsub_tables");
    let bytes = match built {
        Ok(Ok(b)) => b,
        other => {
            st.oracle_failure(json!({"key": format!("{}:pack-failed", key), "what": "dump_table failed or panicked", "err": format!("{:?}", other.err())}));
            return;
        }
    };
    let specs = lookups.to_vec();
    let mut lst = Stats::new();
    let res = catch(std::panic::AssertUnwindSafe(|| {
        let gsub = rgsub::Gsub::read(FontData::new(&bytes)).unwrap();
        let ll = gsub.lookup_list().unwrap();
        if ll.lookup_count() as usize != specs.len() {
            lst.oracle_failure(json!({"key": format!("{}:count", key), "what": "lookup count changed"}));
            return;
        }
        for (li, (ty, flags, mfs, starts)) in specs.iter().enumerate() {
            let l = ll.lookups().get(li).unwrap();
            // (effective type, content) per subtable, extensions resolved one by one
            let mut subs: Vec<(u16, SeqContent)> = vec![];
            let dm = |t: &rgsub::MultipleSubstFormat1| -> SeqContent {
                (t.coverage().unwrap().iter().map(|g| g.to_u16()).collect(),
                 t.sequences().iter().map(|s| s.unwrap().substitute_glyph_ids().iter().map(|g| g.get().to_u16()).collect()).collect())
            };
            let da = |t: &rgsub::AlternateSubstFormat1| -> SeqContent {
                (t.coverage().unwrap().iter().map(|g| g.to_u16()).collect(),
                 t.alternate_sets().iter().map(|s| s.unwrap().alternate_glyph_ids().iter().map(|g| g.get().to_u16()).collect()).collect())
            };
            let promoted = matches!(l, rgsub::SubstitutionLookup::Extension(_));
            match &l {
                rgsub::SubstitutionLookup::Multiple(l) => for s in l.subtables().iter() { subs.push((2, dm(&s.unwrap()))) },
                rgsub::SubstitutionLookup::Alternate(l) => for s in l.subtables().iter() { subs.push((3, da(&s.unwrap()))) },
                rgsub::SubstitutionLookup::Extension(l) => for s in l.subtables().iter() {
                    match s.unwrap() {
                        rgsub::ExtensionSubtable::Multiple(e) => subs.push((e.extension_lookup_type(), dm(&e.extension().unwrap()))),
                        rgsub::ExtensionSubtable::Alternate(e) => subs.push((e.extension_lookup_type(), da(&e.extension().unwrap()))),
                        _ => subs.push((0xffff, (vec![], vec![]))),
                    }
                },
                _ => subs.push((0xfffe, (vec![], vec![]))),
            }
            lst.count(if promoted { "shared_lookups_promoted" } else { "shared_lookups_not_promoted" });
            if (promoted && l.lookup_type() != 7) || (!promoted && l.lookup_type() != *ty) || subs.iter().any(|s| s.0 != *ty) {
                lst.oracle_failure(json!({"key": format!("{}:l{}:ext-type", key, li), "what": "effective lookup type of a subtable differs from the input lookup's type",
                    "input_type": ty, "lookup_type_out": l.lookup_type(), "effective_types": subs.iter().map(|s| s.0).collect::<Vec<_>>()}));
            }
            if l.lookup_flag().to_bits() != *flags || l.mark_filtering_set() != *mfs {
                lst.oracle_failure(json!({"key": format!("{}:l{}:flags", key, li), "what": "lookup flags or mark filtering set changed"}));
            }
            if subs.len() != starts.len() {
                lst.oracle_failure(json!({"key": format!("{}:l{}:count", key, li), "what": "subtable count changed"}));
            } else {
                for (si, s) in starts.iter().enumerate() {
                    lst.evaluations += n as u64;
                    if subs[si].1 != seq_content(*s, n) {
                        lst.oracle_failure(json!({"key": format!("{}:l{}:content", key, li), "what": "subtable content differs from the input", "subtable": si}));
                    }
                }
            }
        }
    }));
    if let Err(e) = res {
        lst.oracle_failure(json!({"key": format!("{}:reader-panic", key), "what": "reading the compiled table panicked", "err": e.chars().take(200).collect::<String>()}));
    }
    st.evaluations += lst.evaluations;
    for (k, v) in lst.counters {
        if k != "oracle_failures" {
            st.add(&k, v);
        }
    }
    for f in lst.oracle_failures {
        st.oracle_failure(f);
    }
    st.nontrivial(&key);
}

/// GPOS: MarkBasePosFormat1 and MarkMarkPosFormat1 have the same binary layout
type MarkContent = (Vec<u16>, Vec<u16>, u16, Vec<(u16, Anc)>, Vec<Vec<Option<Anc>>>);
fn mark_content(start: u16, ncls: u16, nb: u16) -> MarkContent {
    let a = |x: i64| Anc { x: (x % 30000) as i16, y: (start % 1000) as i16, pt: None, xd: Dev::None, yd: Dev::None };
    (
        (start..start + ncls).collect(),
        (start + 100..start + 100 + nb).collect(),
        ncls,
        (0..ncls).map(|c| (c, a(c as i64))).collect(),
        (0..nb).map(|b| (0..ncls).map(|c| Some(a(100 + b as i64 * ncls as i64 + c as i64))).collect()).collect(),
    )
}
fn shared_gpos_case(name: &str, ncls: u16, nb: u16, lookups: &[(u16, u16, Option<u16>, Vec<u16>)], st: &mut Stats) {
    let key = format!("shared-gpos-{}", name);
    let specs = lookups.to_vec();
    let wa = |a: &Anc| wgpos::AnchorTable::format_1(a.x, a.y);
    let built = catch(move || {
        let ls: Vec<wgpos::PositionLookup> = specs
            .iter()
            .map(|(ty, flags, mfs, starts)| {
                let fl = wlayout::LookupFlag::from_bits_truncate(*flags);
                if *ty == 4 {
                    let subs = starts
                        .iter()
                        .map(|s| {
                            let c = mark_content(*s, ncls, nb);
                            wgpos::MarkBasePosFormat1::new(
                                c.0.iter().map(|g| gid(*g)).collect(),
                                c.1.iter().map(|g| gid(*g)).collect(),
                                wgpos::MarkArray::new(c.3.iter().map(|(k, a)| wgpos::MarkRecord::new(*k, wa(a))).collect()),
                                wgpos::BaseArray::new(c.4.iter().map(|r| wgpos::BaseRecord::new(r.iter().map(|a| a.as_ref().map(wa)).collect())).collect()),
                            )
                        })
                        .collect();
                    let mut l = wlayout::Lookup::new(fl, subs);
                    l.mark_filtering_set = *mfs;
                    wgpos::PositionLookup::MarkToBase(l)
                } else {
                    let subs = starts
                        .iter()
                        .map(|s| {
                            let c = mark_content(*s, ncls, nb);
                            wgpos::MarkMarkPosFormat1::new(
                                c.0.iter().map(|g| gid(*g)).collect(),
                                c.1.iter().map(|g| gid(*g)).collect(),
                                wgpos::MarkArray::new(c.3.iter().map(|(k, a)| wgpos::MarkRecord::new(*k, wa(a))).collect()),
                                wgpos::Mark2Array::new(c.4.iter().map(|r| wgpos::Mark2Record::new(r.iter().map(|a| a.as_ref().map(wa)).collect())).collect()),
                            )
                        })
                        .collect();
                    let mut l = wlayout::Lookup::new(fl, subs);
                    l.mark_filtering_set = *mfs;
                    wgpos::PositionLookup::MarkToMark(l)
                }
            })
            .collect();
        let gpos = wgpos::Gpos::new(Default::default(), Default::default(), wlayout::LookupList::new(ls));
        write_fonts::dump_table(&gpos).map_err(|e| format!("{:?}", e).chars().take(200).collect::<String>())
    });
    st.evaluations += 1;
    st.count("shared_gpos_tables");
    let bytes = match built {
        Ok(Ok(b)) => b,
        other => {
            st.oracle_failure(json!({"key": format!("{}:pack-failed", key), "what": "dump_table failed or panicked", "err": format!("{:?}", other.err())}));
            return;
        }
    };
    let specs = lookups.to_vec();
    let mut lst = Stats::new();
    let res = catch(std::panic::AssertUnwindSafe(|| {
        let gpos = rgpos::Gpos::read(FontData::new(&bytes)).unwrap();
        let ll = gpos.lookup_list().unwrap();
        if ll.lookup_count() as usize != specs.len() {
            lst.oracle_failure(json!({"key": format!("{}:count", key), "what": "lookup count changed"}));
            return;
        }
        let covv = |c: rlayout::CoverageTable| -> Vec<u16> { c.iter().map(|g| g.to_u16()).collect() };
        let marks = |ma: rgpos::MarkArray| -> Vec<(u16, Anc)> {
            let d = ma.offset_data();
            ma.mark_records().iter().map(|r| (r.mark_class(), anc_of_r(&r.mark_anchor(d).unwrap()))).collect()
        };
        let db = |t: &rgpos::MarkBasePosFormat1| -> MarkContent {
            let ba = t.base_array().unwrap();
            let d = ba.offset_data();
            let rows = ba.base_records().iter().map(|r| r.unwrap().base_anchors(d).iter().map(|a| a.map(|a| anc_of_r(&a.unwrap()))).collect()).collect();
            (covv(t.mark_coverage().unwrap()), covv(t.base_coverage().unwrap()), t.mark_class_count(), marks(t.mark_array().unwrap()), rows)
        };
        let dmm = |t: &rgpos::MarkMarkPosFormat1| -> MarkContent {
            let ba = t.mark2_array().unwrap();
            let d = ba.offset_data();
            let rows = ba.mark2_records().iter().map(|r| r.unwrap().mark2_anchors(d).iter().map(|a| a.map(|a| anc_of_r(&a.unwrap()))).collect()).collect();
            (covv(t.mark1_coverage().unwrap()), covv(t.mark2_coverage().unwrap()), t.mark_class_count(), marks(t.mark1_array().unwrap()), rows)
        };
        for (li, (ty, flags, mfs, starts)) in specs.iter().enumerate() {
            let l = ll.lookups().get(li).unwrap();
            let mut subs: Vec<(u16, MarkContent)> = vec![];
            let promoted = matches!(l, rgpos::PositionLookup::Extension(_));
            match &l {
                rgpos::PositionLookup::MarkToBase(l) => for s in l.subtables().iter() { subs.push((4, db(&s.unwrap()))) },
                rgpos::PositionLookup::MarkToMark(l) => for s in l.subtables().iter() { subs.push((6, dmm(&s.unwrap()))) },
                rgpos::PositionLookup::Extension(l) => for s in l.subtables().iter() {
                    match s.unwrap() {
                        rgpos::ExtensionSubtable::MarkToBase(e) => subs.push((e.extension_lookup_type(), db(&e.extension().unwrap()))),
                        rgpos::ExtensionSubtable::MarkToMark(e) => subs.push((e.extension_lookup_type(), dmm(&e.extension().unwrap()))),
                        _ => subs.push((0xffff, (vec![], vec![], 0, vec![], vec![]))),
                    }
                },
                _ => subs.push((0xfffe, (vec![], vec![], 0, vec![], vec![]))),
            }
            lst.count(if promoted { "shared_lookups_promoted" } else { "shared_lookups_not_promoted" });
            if (promoted && l.lookup_type() != 9) || (!promoted && l.lookup_type() != *ty) || subs.iter().any(|s| s.0 != *ty) {
                lst.oracle_failure(json!({"key": format!("{}:l{}:ext-type", key, li), "what": "effective lookup type of a subtable differs from the input lookup's type",
                    "input_type": ty, "lookup_type_out": l.lookup_type(), "effective_types": subs.iter().map(|s| s.0).collect::<Vec<_>>()}));
            }
            if l.lookup_flag().to_bits() != *flags || l.mark_filtering_set() != *mfs {
                lst.oracle_failure(json!({"key": format!("{}:l{}:flags", key, li), "what": "lookup flags or mark filtering set changed"}));
            }
            // MarkToBase lookups may additionally be split; this family keeps every subtable below 64 KiB
            if subs.len() != starts.len() {
                lst.oracle_failure(json!({"key": format!("{}:l{}:count", key, li), "what": "subtable count changed"}));
            } else {
                for (si, s) in starts.iter().enumerate() {
                    lst.evaluations += (ncls as u64) * (nb as u64);
                    if subs[si].1 != mark_content(*s, ncls, nb) {
                        lst.oracle_failure(json!({"key": format!("{}:l{}:content", key, li), "what": "subtable content differs from the input", "subtable": si}));
                    }
                }
            }
        }
    }));
    if let Err(e) = res {
        lst.oracle_failure(json!({"key": format!("{}:reader-panic", key), "what": "reading the compiled table panicked", "err": e.chars().take(200).collect::<String>()}));
    }
    st.evaluations += lst.evaluations;
    for (k, v) in lst.counters {
        if k != "oracle_failures" {
            st.add(&k, v);
        }
    }
    for f in lst.oracle_failures {
        st.oracle_failure(f);
    }
    st.nontrivial(&key);
}

fn shared_subtable_family(rng: &mut Rng, st: &mut Stats, thorough: bool) {
    const M: u16 = 2; // MultipleSubst
    const A: u16 = 3; // AlternateSubst
    let n = 3400u16; // ~41 KiB per subtable
    shared_gsub_case("mult-alt", n, &[(M, 0, None, vec![10, 10_000, 20_000]), (A, 0, None, vec![10, 10_000, 20_000])], st);
    shared_gsub_case("alt-mult", n, &[(A, 0, None, vec![10, 10_000, 20_000]), (M, 1, None, vec![10, 10_000, 20_000])], st);
    shared_gsub_case("three-lookups-mfs", n, &[(M, 0x10, Some(3), vec![10, 10_000]), (A, 0x18, Some(1), vec![10_000, 10, 30_000]), (M, 0, None, vec![30_000, 10])], st);
    shared_gsub_case("partial", n, &[(M, 0, None, vec![10, 10_000, 20_000]), (A, 8, None, vec![10_000, 30_000, 20_000])], st);
    shared_gsub_case("small-no-promotion", 50, &[(M, 0, None, vec![10, 500]), (A, 0, None, vec![10, 500])], st);
    shared_gsub_case("same-subtable-twice", n, &[(M, 0, None, vec![10, 10, 10_000]), (A, 0, None, vec![10_000, 10, 10])], st);
    // GPOS: 8 classes x 600 bases x (2 + 6) bytes ~ 38 KiB per subtable
    shared_gpos_case("base-mark", 8, 600, &[(4, 0, None, vec![100, 5_000, 10_000]), (6, 0, None, vec![100, 5_000, 10_000])], st);
    shared_gpos_case("mark-base-mfs", 8, 600, &[(6, 0x10, Some(2), vec![100, 5_000, 10_000]), (4, 0x10, Some(5), vec![5_000, 100, 20_000])], st);
    shared_gpos_case("small-no-promotion", 3, 20, &[(4, 0, None, vec![100, 400]), (6, 0, None, vec![100, 400])], st);
    let extra = if thorough { 12 } else { 2 };
    for i in 0..extra {
        let k = 2 + rng.below(3) as usize;
        let pool: Vec<u16> = (0..4).map(|j| 10 + j * 8_000).collect();
        let ls: Vec<(u16, u16, Option<u16>, Vec<u16>)> = (0..k)
            .map(|j| {
                let (fl, mfs) = gen_flags(rng);
                let cnt = 1 + rng.below(3) as usize;
                (if (j + i) % 2 == 0 { M } else { A }, fl, mfs, (0..cnt).map(|_| *rng.pick(&pool)).collect())
            })
            .collect();
        shared_gsub_case(&format!("rand-{}", i), n, &ls, st);
    }
}

/// Device tables alone: every delta value of the 2- and 4-bit formats and the boundary values of the 8-bit format in
/// every slot position, lengths 1..17: write-fonts Device::new -> dump_table -> read-fonts Device::iter == input.
fn device_roundtrip_oracle(rng: &mut Rng, st: &mut Stats) {
    for (fmt, lo, hi) in [(1u16, -2i16, 1i16), (2, -8, 7), (3, -128, 127)] {
        let mut probe: Vec<i8> = if fmt == 3 { vec![-128, -127, -126, -65, -64, -9, -8, -2, -1, 0, 1, 7, 8, 63, 64, 126, 127] } else { (lo..=hi).map(|v| v as i8).collect() };
        if fmt == 3 {
            for _ in 0..12 {
                probe.push(rng.range(-128, 127) as i8);
            }
        }
        for len in 1usize..=17 {
            for pos in 0..len {
                for v in &probe {
                    let mut vals: Vec<i8> = (0..len).map(|i| [lo as i8 + (fmt == 3) as i8, hi as i8, -1, 0, 1][(i + pos) % 5]).collect();
                    vals[pos] = *v;
                    // keep the intended format: some value must need it
                    let needs = |x: &i8| match fmt { 1 => true, 2 => !(-2..=1).contains(x), _ => !(-8..=7).contains(x) };
                    if !vals.iter().any(needs) {
                        let q = (pos + 1) % len;
                        if q == pos { continue; }
                        vals[q] = hi as i8;
                    }
                    let vv = vals.clone();
                    st.evaluations += 1;
                    let got = catch(move || {
                        let d = wlayout::Device::new(9, 9 + len as u16 - 1, &vv);
                        let bytes = write_fonts::dump_table(&d).unwrap();
                        let r = rlayout::Device::read(FontData::new(&bytes)).unwrap();
                        (r.delta_format() as u16, r.iter().collect::<Vec<i8>>())
                    });
                    st.count(&format!("device_roundtrip_format{}", fmt));
                    match got {
                        Ok((f, d)) if f == fmt && d == vals => {}
                        Ok((f, d)) => st.oracle_failure(json!({"key": format!("device-roundtrip:{:?}", vals), "what": "Device deltas decoded differently from the input", "format": f, "got": d})),
                        Err(e) => {
                            let key = if e.contains("negate with overflow") && vals.contains(&-128) { "device-iter-neg128-negate-overflow".to_string() } else { format!("device-roundtrip-panic:{:?}", vals) };
                            st.oracle_failure(json!({"key": key, "what": "read-fonts Device::iter panicked on a valid Device table", "deltas": vals, "err": e}));
                        }
                    }
                }
            }
        }
    }
}

/// Deterministic oversized PairPosFormat1 tables whose first-glyph coverage (format 2) is made of consecutive runs
/// that END on every index in a window around each split point: pass 1 compiles a contiguous table and learns the
/// split points from the compiled pieces, pass 2 renumbers the first glyphs with gaps after split-2 .. split+2.
fn pp1_run_boundary_cases(rng: &mut Rng, st: &mut Stats, cw: &mut CaseWriter, pool: &[Dev], thorough: bool) {
    let shapes: &[(usize, usize)] = if thorough { &[(800, 40), (900, 40), (700, 60), (500, 100), (860, 33)] } else { &[(800, 40), (700, 60)] };
    for (n1, n2) in shapes {
        let (n1, n2) = (*n1, *n2);
        let spec_for = |firsts: &[u16]| -> Spec {
            let mut pairs = vec![];
            for (i, g1) in firsts.iter().enumerate() {
                for j in 0..n2 {
                    pairs.push((*g1, 5000 + j as u16 * 2, mk_val(0, (i * 4001 + j) as i64, pool), Val::default()));
                }
            }
            Spec::Pair { pairs, classes: vec![] }
        };
        // pass 1: contiguous first glyphs, learn the split points (cumulative pair-set counts of the pieces)
        let contiguous: Vec<u16> = (1..=n1 as u16).collect();
        let ls = LookupSpec { flags: 0, mfs: None, spec: spec_for(&contiguous) };
        let ls2 = ls.clone();
        let splits: Vec<usize> = match catch(move || {
            let mut vs = VariationStoreBuilder::new(1);
            let l = build_lookup(&ls2, &mut vs);
            let gpos = wgpos::Gpos::new(Default::default(), Default::default(), wlayout::LookupList::new(vec![l]));
            let bytes = write_fonts::dump_table(&gpos).unwrap();
            let g = rgpos::Gpos::read(FontData::new(&bytes)).unwrap();
            let lk = decode_lookup(&g.lookup_list().unwrap().lookups().get(0).unwrap());
            let mut acc = 0usize;
            let mut v = vec![];
            for s in &lk.subs {
                if let Sub::PP1 { sets, .. } = s {
                    acc += sets.len();
                    v.push(acc);
                }
            }
            v.pop(); // the last one is the total
            v
        }) {
            Ok(v) => v,
            Err(e) => {
                st.oracle_failure(json!({"key": format!("pp1-runs-{}x{}:pass1", n1, n2), "what": "compiling the contiguous table failed", "err": e}));
                continue;
            }
        };
        if splits.is_empty() {
            st.count("pp1_runs_not_split");
            continue;
        }
        st.count("pp1_runs_tables_split");
        run_gpos_case(&GposCase { key: format!("pp1-runs-{}x{}-contiguous", n1, n2), lookups: vec![ls] }, rng, st, cw, thorough);
        // pass 2: a gap AFTER index i means the run ends on index i
        let variants: Vec<(String, Vec<i64>)> = vec![
            ("end-at-split".into(), vec![0]),
            ("end-at-split-1".into(), vec![-1]),
            ("end-at-split+1".into(), vec![1]),
            ("end-at-split-2".into(), vec![-2]),
            ("window".into(), vec![-2, -1, 0, 1, 2]),
            ("pair".into(), vec![-1, 0]),
        ];
        for (name, offs) in variants {
            let mut gaps: std::collections::BTreeSet<usize> = Default::default();
            for s in &splits {
                for o in &offs {
                    let i = *s as i64 + o;
                    if i >= 0 && (i as usize) < n1 - 1 {
                        gaps.insert(i as usize);
                    }
                }
            }
            let mut firsts = vec![];
            let mut g = 1u16;
            for i in 0..n1 {
                firsts.push(g);
                g += if gaps.contains(&i) { 2 + (i % 3) as u16 } else { 1 };
            }
            let case = GposCase { key: format!("pp1-runs-{}x{}-{}", n1, n2, name), lookups: vec![LookupSpec { flags: 0, mfs: None, spec: spec_for(&firsts) }] };
            run_gpos_case(&case, rng, st, cw, thorough);
        }
    }
}

fn main() {
    silence_panics();
    let args: Vec<String> = std::env::args().collect();
    let thorough = tier_is_thorough(&args);
    let seed = seed_from_env();
    let dir = out_dir(&args, "C16");
    let mut rng = Rng::new(seed);
    let mut st = Stats::new();
    let mut cw = CaseWriter::new(
        &dir,
        "From Coq Require Import ZArith List. Import ListNotations. Open Scope Z_scope.\nFrom FV Require Import Lib.Cases C16.Model.",
        "case",
        "check_case",
        if thorough { 400 } else { 160 },
    );
    let scale = if thorough { 6 } else { 1 };
    coverage_cases(&mut rng, &mut st, &mut cw, 500 * scale);
    raw_coverage_cases(&mut rng, &mut st, &mut cw, 300 * scale);
    classdef_cases(&mut rng, &mut st, &mut cw, 500 * scale);
    raw_classdef_cases(&mut rng, &mut st, &mut cw, 300 * scale);
    classdef_set_builder_oracle(&mut rng, &mut st, 200 * scale);
    classdef_builder_sequence_cases(&mut rng, &mut st, &mut cw, 400 * scale);

    let pool = dev_pool();
    let mut cases: Vec<GposCase> = vec![];
    let mk = |key: String, specs: Vec<Spec>, rng: &mut Rng| -> GposCase {
        GposCase {
            key,
            lookups: specs
                .into_iter()
                .map(|s| {
                    let (flags, mfs) = gen_flags(rng);
                    LookupSpec { flags, mfs, spec: s }
                })
                .collect(),
        }
    };
    // tiny .. medium (no overflow)
    let nsmall = if thorough { 120 } else { 36 };
    for i in 0..nsmall {
        let t = match i % 4 { 0 => 200, 1 => 2000, 2 => 12000, _ => 30000 };
        let s = match i % 6 {
            0 => gen_pair_glyph_spec(&mut rng, t, &pool, true, false),
            1 => gen_pair_glyph_spec(&mut rng, t, &pool, false, true),
            2 => gen_pair_class_spec(&mut rng, t.min(20000), &pool, false),
            3 => gen_pair_class_spec(&mut rng, t.min(20000), &pool, true),
            4 => gen_m2b_spec(&mut rng, t, &pool),
            _ => gen_direct_pp1(&mut rng, t),
        };
        cases.push(mk(format!("small-{}", i), vec![s], &mut rng));
    }
    // mark-to-ligature, mark-to-mark and cursive builders
    for i in 0..(if thorough { 600 } else { 120 }) {
        let s = gen_m2l_spec(&mut rng, &pool);
        cases.push(mk(format!("m2l-{}", i), vec![s], &mut rng));
    }
    for i in 0..(if thorough { 200 } else { 40 }) {
        let s = gen_cursive_spec(&mut rng, &pool);
        cases.push(mk(format!("cursive-{}", i), vec![s], &mut rng));
        let t = [300usize, 3000, 20000][i % 3];
        let s = gen_m2m_spec(&mut rng, t, &pool);
        cases.push(mk(format!("m2m-{}", i), vec![s], &mut rng));
    }
    // lookups with 2-4 subtables of which none / one / two / all are oversized (same and mixed kinds)
    for rep in 0..(if thorough { 5 } else { 1 }) {
        for kind in 0..3usize {
            for (mi, mask) in [0b0000u32, 0b0010, 0b0101, 0b1111, 0b0011].iter().enumerate() {
                let n = 2 + (mi + kind + rep) % 3;
                let s = gen_multi_spec(&mut rng, &pool, kind, n, *mask);
                cases.push(mk(format!("multi-k{}-n{}-m{}-{}", kind, n, mask & ((1 << n) - 1), rep), vec![s], &mut rng));
            }
        }
    }
    // sequences of insert_classes / insert_pair calls: grouping of class rules into subtables is history dependent
    let nseq = if thorough { 1500 } else { 250 };
    for i in 0..nseq {
        let s = gen_class_sequence_spec(&mut rng, &pool);
        cases.push(mk(format!("class-seq-{}", i), vec![s], &mut rng));
    }
    // every ValueRecord field set, in glyph-pair rules, class-pair rules (first and second record) and direct tables
    for (n, k) in ALL_KINDS.iter().enumerate() {
        let other = ALL_KINDS[(n * 7 + 3) % ALL_KINDS.len()];
        let g = gen_pair_glyph_spec_k(&mut rng, 1500, &pool, n % 2 == 0, false, Some((*k, other)));
        cases.push(mk(format!("fields-glyph-{}-{}", k, other), vec![g], &mut rng));
        let c = gen_pair_class_spec_k(&mut rng, 1500, &pool, false, Some((*k, other)));
        cases.push(mk(format!("fields-class-{}-{}", k, other), vec![c], &mut rng));
        let c = gen_pair_class_spec_k(&mut rng, 1500, &pool, false, Some((other, *k)));
        cases.push(mk(format!("fields-class-{}-{}", other, k), vec![c], &mut rng));
    }
    for f in 0..4u8 {
        let d = gen_direct_pp1_k(&mut rng, 1500, 1 << f, 1 << ((f + 1) % 4));
        cases.push(mk(format!("fields-direct-varidx-{}", f), vec![d], &mut rng));
    }
    cases.push(mk("fields-direct-varidx-all".into(), vec![gen_direct_pp1_k(&mut rng, 3000, 0b1111, 0b1111)], &mut rng));
    // mark/base anchors with a device on exactly one axis (and both, none, contour point)
    for (n, (xd, yd)) in [(true, false), (false, true), (true, true)].iter().enumerate() {
        let mut marks = vec![];
        let mut bases = vec![];
        for c in 0..3usize {
            for m in 0..2u16 {
                let id = (n * 100 + c * 10 + m as usize) as i64;
                let mut a = mk_anchor(&mut rng, id, &pool, false);
                if *xd { a.xd = pool[(id as usize * 5 + 1) % pool.len()].clone(); }
                if *yd { a.yd = pool[(id as usize * 5 + 2) % pool.len()].clone(); }
                marks.push((600 + c as u16 * 2 + m, c, a));
            }
            for b in 0..4u16 {
                let id = (n * 100 + 50 + c * 10 + b as usize) as i64;
                let mut a = mk_anchor(&mut rng, id, &pool, false);
                // alternate which axis carries the device from base to base
                if if b % 2 == 0 { *xd } else { *yd } { a.xd = pool[(id as usize * 3) % pool.len()].clone(); }
                if if b % 2 == 0 { *yd } else { *xd } { a.yd = pool[(id as usize * 3 + 7) % pool.len()].clone(); }
                bases.push((2000 + b, c, a));
            }
        }
        cases.push(mk(format!("fields-anchor-dev-{}{}", *xd as u8, *yd as u8), vec![Spec::M2B { marks, bases }], &mut rng));
    }
    // overflowing: 1.2x .. 4x+ of 64 KiB, each kind; several lookups to force promotion
    let k = 65536usize;
    let mut big: Vec<(String, Vec<Spec>)> = vec![
        ("big-pp1-contig".into(), vec![gen_pair_glyph_spec(&mut rng, k * 5 / 2, &pool, true, false)]),
        ("big-pp1-strided-mixed".into(), vec![gen_pair_glyph_spec(&mut rng, k * 3 / 2, &pool, false, true)]),
        ("big-pp2".into(), vec![gen_pair_class_spec(&mut rng, k * 2, &pool, false)]),
        // >= 3-way split of a class-based PairPos with (sparse, varying) device records in BOTH value records
        ("big-pp2-devices-3way".into(), vec![gen_pair_class_spec_k(&mut rng, k * 4, &pool, false, Some((12, 5)))]),
        ("big-pp2-devices-3way-b".into(), vec![gen_pair_class_spec_k(&mut rng, k * 7 / 2, &pool, false, Some((13, 8)))]),
        ("big-m2b".into(), vec![gen_m2b_spec(&mut rng, k * 2, &pool)]),
        ("big-direct-varidx".into(), vec![gen_direct_pp1(&mut rng, k * 3 / 2)]),
        (
            "big-multi-promote".into(),
            vec![
                gen_pair_glyph_spec(&mut rng, 40000, &pool, true, false),
                gen_m2b_spec(&mut rng, 45000, &pool),
                gen_pair_class_spec(&mut rng, 40000, &pool, false),
                gen_pair_glyph_spec(&mut rng, k * 3 / 2, &pool, false, false),
            ],
        ),
    ];
    if thorough {
        for i in 0..60 {
            let mult = [5usize, 6, 8, 10, 14, 18][i % 6];
            let t = k * mult / 4;
            let mut specs = vec![];
            for _ in 0..1 + rng.below(3) {
                specs.push(match rng.below(6) {
                    0 => gen_pair_glyph_spec(&mut rng, t, &pool, true, i % 2 == 0),
                    1 => gen_pair_glyph_spec(&mut rng, t, &pool, false, true),
                    2 => gen_pair_class_spec(&mut rng, t, &pool, false),
                    3 => gen_pair_class_spec(&mut rng, t / 2, &pool, true),
                    4 => gen_m2b_spec(&mut rng, t, &pool),
                    _ => gen_direct_pp1(&mut rng, t),
                });
            }
            big.push((format!("big-rand-{}", i), specs));
        }
    }
    // more random overflowing rule sets in the quick tier too (the harness is cheap)
    if !thorough {
        for i in 0..8 {
            let mult = [5usize, 6, 8, 10, 14, 18][i % 6];
            let t = k * mult / 4;
            let s = match i % 5 {
                0 => gen_pair_glyph_spec(&mut rng, t, &pool, true, i % 2 == 0),
                1 => gen_pair_glyph_spec(&mut rng, t, &pool, false, true),
                2 => gen_pair_class_spec(&mut rng, t, &pool, false),
                3 => gen_m2b_spec(&mut rng, t, &pool),
                _ => gen_direct_pp1(&mut rng, t),
            };
            big.push((format!("big-quick-{}", i), vec![s]));
        }
    }
    // boundary: ONE pair set larger than 64 KiB behind a format-2 coverage (split point 0)
    if args.iter().any(|a| a == "huge") {
        let mut pairs = vec![];
        for j in 0..17000u16 {
            pairs.push((1u16, 100 + j, mk_val(0, j as i64, &pool), Val::default()));
        }
        for g in 2..=4u16 {
            pairs.push((g, 100, mk_val(0, g as i64, &pool), Val::default()));
        }
        big.push(("huge-single-pairset".into(), vec![Spec::Pair { pairs, classes: vec![] }]));
    }
    for (key, specs) in big {
        cases.push(mk(key, specs, &mut rng));
    }
    // value formats with SEVERAL device / variation-index fields at once (every 2-, 3- and 4-subset of the four device
    // fields, in value record 1 and in value record 2), per-record independent null / non-null offsets, pairwise distinct
    // device tables: unsplit controls and oversized tables (2- and 3+-way splits) in PairPos format 2 (direct and through
    // the class builder) and format 1
    for (n, dm1) in DEV_SUBSETS.iter().enumerate() {
        let dm2 = DEV_SUBSETS[(n * 3 + 4) % DEV_SUBSETS.len()];
        let mode = n % 3;
        let t = if n % 4 == 1 { k * 3 } else { k * 5 / 4 + (n % 3) * k / 4 };
        cases.push(mk(format!("devmix-small-pp2-{}-{}", dm1, dm2), vec![gen_direct_pp2_devmix(&mut rng, 1500, *dm1, dm2, mode, &pool)], &mut rng));
        cases.push(mk(format!("devmix-small-class-{}-{}", dm1, dm2), vec![gen_pair_class_devmix(&mut rng, 1500, *dm1, dm2, &pool)], &mut rng));
        cases.push(mk(format!("devmix-small-pp1-{}-{}", dm1, dm2), vec![gen_direct_pp1_devmix(&mut rng, 1500, *dm1, dm2, mode, &pool)], &mut rng));
        cases.push(mk(format!("devmix-big-pp2-{}-{}", dm1, dm2), vec![gen_direct_pp2_devmix(&mut rng, t, *dm1, dm2, mode, &pool)], &mut rng));
        cases.push(mk(format!("devmix-big-class-{}-{}", dm1, dm2), vec![gen_pair_class_devmix(&mut rng, t, *dm1, dm2, &pool)], &mut rng));
        cases.push(mk(format!("devmix-big-pp1-{}-{}", dm1, dm2), vec![gen_direct_pp1_devmix(&mut rng, k * 5 / 4, *dm1, dm2, (mode + 1) % 3, &pool)], &mut rng));
    }
    for c in &cases {
        run_gpos_case(c, &mut rng, &mut st, &mut cw, thorough);
    }
    pp1_run_boundary_cases(&mut rng, &mut st, &mut cw, &pool, thorough);

    shared_subtable_family(&mut rng, &mut st, thorough);
    device_roundtrip_oracle(&mut rng, &mut st);

    let shards = cw.finish();
    st.v.insert("shards".into(), shards.into());
    st.v.insert("model_cases".into(), cw.len().into());
    st.write(
        &dir,
        "coverage/classdef: boundary glyph sets (runs, singletons, 0/65535, duplicates, shuffled) through the real builders, every member +-1 probed; raw malformed tables through the readers; GPOS: pair (glyph and class based, shared/mixed value formats, device and variation-index records) and mark/base rule sets from ~200 bytes to >4x64KiB compiled in a Gpos table; every rule pair + 2-3k pairs without a rule evaluated by a reference walker; non-trivial = distinct GPOS rule sets and coverage/classdef inputs with >2 glyphs",
    );
    println!("cases={} shards={} oracle_failures={}", cw.len(), shards, st.oracle_failures.len());
}
