//! C17 harness — subsetting preserves everything about the glyphs and characters it keeps.
//!
//! For every glyf-flavoured font of the repository corpus (font-test-data/test_data/ttf and
//! klippa/test-data/fonts) plus synthetic boundary fonts (hmtx trimming patterns, retain-gid gaps,
//! deep / wide composite trees, cmap entries pointing outside the font):
//!   * dump the ABSTRACT font (per glyph: kind, component gids, content hash; hmtx long/short arrays;
//!     cmap pairs; cmap14 non-default UVS triples; COLR reach lists) — never font bytes;
//!   * run the real `klippa::Plan::new` + `klippa::subset_font`, re-open the result with read-fonts/skrifa
//!     and record what it says (numGlyphs, numberOfHMetrics, per-glyph record/advance/lsb, cmap);
//!   * one Coq term per case (font name, request, observation) for coq/C17/Model.v `check_case`;
//!   * implementation-only oracle (the property's own wording): every glyph of the specification closure
//!     is present under the renumbering, draws the same unhinted outline and has the same advance / lsb at
//!     sizes {unscaled, 12, 17.5, 100} x locations {default, corner, random}; requested characters map to
//!     the renumbered glyph; nothing else is mapped; subset-of-subset and subset-to-everything are stable.
use klippa::{subset_font, Plan, SubsetFlags};
use read_fonts::collections::IntSet;
use read_fonts::tables::cmap::CmapSubtable;
use read_fonts::tables::glyf::{Anchor, CompositeGlyphFlags, Glyph};
use read_fonts::types::{GlyphId, NameId, Tag};
use read_fonts::{FontRead, FontRef, TableProvider};
use serde_json::json;
use skrifa::instance::{Location, Size};
use skrifa::outline::{DrawSettings, OutlinePen};
use skrifa::MetadataProvider;
use std::collections::{BTreeMap, BTreeSet};
use std::fmt::Write as _;
use std::io::Write as _;
use std::path::{Path, PathBuf};
use vh::*;

const F_NO_HINTING: u16 = 0x0001;
const F_RETAIN_GIDS: u16 = 0x0002;
const F_NAME_LEGACY: u16 = 0x0008;
const F_SET_OVERLAPS: u16 = 0x0010;
const F_NOTDEF_OUTLINE: u16 = 0x0040;
const F_GLYPH_NAMES: u16 = 0x0080;
const F_NO_PRUNE_UR: u16 = 0x0100;

// ------------------------------------------------------------------------------------------------
// abstract font
// ------------------------------------------------------------------------------------------------
#[derive(Clone, PartialEq, Eq, Debug)]
enum AG {
    Empty,
    /// simple glyph with >= 1 contour: hash of (bbox, contour ends, points, on-curve bits)
    Simple(u64),
    /// simple glyph header with zero contours (the subsetter writes it as an empty glyph)
    Simple0,
    /// composite: component gids, hash of everything else (flags sans overlap/instruction bits, anchors, transforms, bbox)
    Comp(Vec<u32>, u64),
    /// loca/glyf entry that cannot be read
    Bad,
}

#[derive(Clone, Debug)]
struct AFont {
    n: usize,
    glyphs: Vec<AG>,
    has_hmtx: bool,
    long: Vec<(u16, i16)>,
    lsbs: Vec<i16>,
    cmap: Vec<(u32, u32)>,
    /// cmap subsetter prerequisites (encoding records) hold
    cmap_ok: bool,
    /// (selector, base char, gid) of cmap14 non-default UVS
    uvs: Vec<(u32, u32, u32)>,
    /// all selectors of the cmap14 subtable
    selectors: Vec<u32>,
    colr: Option<Vec<Vec<u32>>>,
    /// harness-only (not part of the Coq term): every format-4 subtable of the font lists exactly the BMP part of
    /// `cmap`, so that the subset's format-4 subtables can be predicted from the (char, new gid) list
    f4_same: bool,
    /// chars mapped identically by ALL format-4 subtables (empty if there is none)
    f4_common: BTreeMap<u32, u32>,
    /// HVAR / VVAR of the font (harness side; the Coq term carries the index maps only)
    hvar: Option<MetricsVar>,
    vvar: Option<MetricsVar>,
    gvar: Option<GvarInfo>,
    /// per glyph: byte length of what klippa's subset_glyph keeps of it (with instructions, under NO_HINTING),
    /// computed here from the original's raw bytes - the input of the loca offset model
    glens: Vec<(u32, u32)>,
}

/// Length of a glyph after klippa's trimming, computed independently from the raw glyf bytes of the ORIGINAL:
/// simple glyph = header + endPts + instructionLength [+ instructions] + flags/coordinates up to the last point
/// (padding dropped); composite = component records [+ instructions]. 0 when the walk fails (klippa then
/// writes an empty glyph). Returns (with instructions, with NO_HINTING).
fn subset_glyph_lens(font: &FontRef, gid: u32) -> (u32, u32) {
    let (Ok(loca), Some(glyf)) = (font.loca(None), font.table_data(Tag::new(b"glyf"))) else { return (0, 0) };
    let (Some(a), Some(b)) = (loca.get_raw(gid as usize), loca.get_raw(gid as usize + 1)) else { return (0, 0) };
    let glyf = glyf.as_bytes();
    if b <= a || b as usize > glyf.len() {
        return (0, 0);
    }
    let d = &glyf[a as usize..b as usize];
    let u16at = |i: usize| -> Option<usize> { Some(u16::from_be_bytes([*d.get(i)?, *d.get(i + 1)?]) as usize) };
    let Some(nc) = u16at(0) else { return (0, 0) };
    let nc = nc as u16 as i16;
    let r: Option<(usize, usize)> = (|| {
        if nc >= 0 {
            let nc = nc as usize;
            if nc == 0 {
                return Some((0, 0));
            }
            let num_coords = u16at(10 + 2 * (nc - 1))? + 1;
            let header_len = 10 + 2 * nc + 2;
            let ins = u16at(10 + 2 * nc)?;
            let data = d.get(header_len + ins..)?;
            // flags, then coordinates
            let (mut i, mut seen, mut coord_bytes) = (0usize, 0usize, 0usize);
            while i < data.len() {
                let f = data[i];
                i += 1;
                let mut rep = 1usize;
                if f & 0x08 != 0 {
                    rep = *data.get(i)? as usize + 1;
                    i += 1;
                }
                let xb = if f & 0x02 != 0 { 1 } else if f & 0x10 == 0 { 2 } else { 0 };
                let yb = if f & 0x04 != 0 { 1 } else if f & 0x20 == 0 { 2 } else { 0 };
                coord_bytes += (xb + yb) * rep;
                seen += rep;
                if seen >= num_coords {
                    break;
                }
            }
            if seen != num_coords {
                return Some((0, 0));
            }
            let t = i + coord_bytes;
            if t == 0 || t > data.len() {
                return Some((0, 0));
            }
            Some((header_len + ins + t, header_len + t))
        } else {
            let len = d.len();
            let (mut i, mut more, mut have_ins) = (10usize, true, false);
            while more {
                if i + 3 >= len {
                    return Some((0, 0));
                }
                let fl = u16at(i)?;
                have_ins |= fl & 0x0100 != 0;
                i += 4;
                i += if fl & 0x0001 != 0 { 4 } else { 2 };
                if fl & 0x0008 != 0 {
                    i += 2;
                } else if fl & 0x0040 != 0 {
                    i += 4;
                } else if fl & 0x0080 != 0 {
                    i += 8;
                }
                more = fl & 0x0020 != 0;
            }
            let nohint = i.min(len);
            let hint = if have_ins {
                if i + 1 >= len {
                    0
                } else {
                    (i + 2 + u16at(i)?).min(len)
                }
            } else {
                nohint
            };
            Some((hint, nohint))
        }
    })();
    let (h, n) = r.unwrap_or((0, 0));
    (h as u32, n as u32)
}

/// the subset's head.indexToLocFormat and its loca entries exactly as stored (u16 or u32 values)
fn coq_obs_loca(font_id: &str, sub: &[u8]) -> String {
    let Ok(sf) = FontRef::new(sub) else { return "None".into() };
    let (Ok(head), Some(loca)) = (sf.head(), sf.table_data(Tag::new(b"loca"))) else { return "None".into() };
    let fmt = head.index_to_loc_format();
    let b = loca.as_bytes();
    let vals: Vec<i128> = if fmt == 0 {
        b.chunks(2).map(|c| if c.len() == 2 { u16::from_be_bytes([c[0], c[1]]) as i128 } else { -1 }).collect()
    } else {
        b.chunks(4).map(|c| if c.len() == 4 { u32::from_be_bytes([c[0], c[1], c[2], c[3]]) as i128 } else { -1 }).collect()
    };
    format!("(Some ({}_GLEN, ({}, {})))", font_id, fmt, czlist(vals.into_iter()))
}

fn h40(b: &[u8]) -> u64 {
    fnv(b) & 0xFF_FFFF_FFFF
}

fn abstract_glyph(font: &FontRef, gid: u32) -> AG {
    let (Ok(loca), Ok(glyf)) = (font.loca(None), font.glyf()) else {
        return AG::Bad;
    };
    match loca.get_glyf(GlyphId::new(gid), &glyf) {
        Err(_) => AG::Bad,
        Ok(None) => AG::Empty,
        Ok(Some(Glyph::Simple(g))) => {
            if g.number_of_contours() <= 0 || g.end_pts_of_contours().is_empty() {
                return AG::Simple0;
            }
            let mut b: Vec<u8> = vec![];
            for v in [g.x_min(), g.y_min(), g.x_max(), g.y_max()] {
                b.extend_from_slice(&v.to_be_bytes());
            }
            for e in g.end_pts_of_contours() {
                b.extend_from_slice(&e.get().to_be_bytes());
            }
            let pts = catch(std::panic::AssertUnwindSafe(|| g.points().collect::<Vec<_>>()));
            match pts {
                Ok(pts) => {
                    for p in pts {
                        b.extend_from_slice(&p.x.to_be_bytes());
                        b.extend_from_slice(&p.y.to_be_bytes());
                        b.push(p.on_curve as u8);
                    }
                }
                Err(_) => b.extend_from_slice(b"panic"),
            }
            AG::Simple(h40(&b))
        }
        Ok(Some(Glyph::Composite(g))) => {
            let mut b: Vec<u8> = vec![];
            for v in [g.x_min(), g.y_min(), g.x_max(), g.y_max()] {
                b.extend_from_slice(&v.to_be_bytes());
            }
            let mut comps = vec![];
            for c in g.components() {
                comps.push(c.glyph.to_u32());
                let mut fl = c.flags;
                fl.remove(CompositeGlyphFlags::WE_HAVE_INSTRUCTIONS);
                fl.remove(CompositeGlyphFlags::OVERLAP_COMPOUND);
                b.extend_from_slice(&fl.bits().to_be_bytes());
                match c.anchor {
                    Anchor::Offset { x, y } => {
                        b.push(0);
                        b.extend_from_slice(&x.to_be_bytes());
                        b.extend_from_slice(&y.to_be_bytes());
                    }
                    Anchor::Point { base, component } => {
                        b.push(1);
                        b.extend_from_slice(&base.to_be_bytes());
                        b.extend_from_slice(&component.to_be_bytes());
                    }
                }
                for t in [c.transform.xx, c.transform.yx, c.transform.xy, c.transform.yy] {
                    b.extend_from_slice(&t.to_bits().to_be_bytes());
                }
            }
            AG::Comp(comps, h40(&b))
        }
    }
}

fn font_num_glyphs(font: &FontRef) -> usize {
    let l = font.loca(None).map(|l| l.len()).unwrap_or_default();
    l.max(font.maxp().map(|m| m.num_glyphs() as usize).unwrap_or(0))
}

fn cmap_pairs(font: &FontRef) -> Vec<(u32, u32)> {
    font.charmap().mappings().map(|(c, g)| (c, g.to_u32())).collect()
}

fn abstract_font(font: &FontRef) -> AFont {
    let n = font_num_glyphs(font);
    let glyphs = (0..n as u32).map(|g| abstract_glyph(font, g)).collect();
    let (has_hmtx, long, lsbs) = match font.hmtx() {
        Ok(h) => (
            true,
            h.h_metrics().iter().map(|m| (m.advance(), m.side_bearing())).collect(),
            h.left_side_bearings().iter().map(|v| v.get()).collect(),
        ),
        Err(_) => (false, vec![], vec![]),
    };
    let cmap = cmap_pairs(font);
    let mut uvs = vec![];
    let mut selectors = vec![];
    let mut cmap_ok = false;
    if let Ok(cm) = font.cmap() {
        // first format-14 subtable in record order (read-fonts Cmap::closure_glyphs)
        for rec in cm.encoding_records() {
            if let Ok(CmapSubtable::Format14(c14)) = rec.subtable(cm.offset_data()) {
                for sel in c14.var_selector() {
                    let s = sel.var_selector().to_u32();
                    selectors.push(s);
                    if let Some(Ok(nd)) = sel.non_default_uvs(c14.offset_data()) {
                        for m in nd.uvs_mapping() {
                            uvs.push((s, m.unicode_value().to_u32(), m.glyph_id() as u32));
                        }
                    }
                }
                break;
            }
        }
        // klippa::cmap::Subset prerequisites
        let (mut f12, mut ubmp, mut uucs4, mut mbmp, mut mucs4) = (false, false, false, false, false);
        for rec in cm.encoding_records() {
            let p = rec.platform_id() as u16;
            let e = rec.encoding_id();
            let st = rec.subtable(cm.offset_data());
            let keep = (p == 0 && (e == 3 || e == 4)) || (p == 3 && (e == 1 || e == 10)) || st.as_ref().is_ok_and(|t| t.format() == 14);
            if !keep {
                continue;
            }
            if st.as_ref().is_ok_and(|t| t.format() == 12) {
                f12 = true;
            }
            match (p, e) {
                (0, 3) => ubmp = true,
                (0, 4) => uucs4 = true,
                (3, 1) => mbmp = true,
                (3, 10) => mucs4 = true,
                _ => {}
            }
        }
        cmap_ok = (f12 || ubmp || mbmp) && !(f12 && !uucs4 && !mucs4);
    }
    let colr = font.colr().ok().map(|colr| {
        (0..n as u32)
            .map(|g| {
                let mut root = IntSet::<GlyphId>::empty();
                root.insert(GlyphId::new(g));
                let mut out = IntSet::<GlyphId>::empty();
                colr.v0_closure_glyphs(&root, &mut out);
                let (mut a, mut b, mut c) = (IntSet::empty(), IntSet::empty(), IntSet::empty());
                colr.v1_closure(&mut out, &mut a, &mut b, &mut c);
                out.iter().map(|x| x.to_u32()).filter(|x| *x != g).collect()
            })
            .collect()
    });
    let f4 = cmap4_lists(font);
    let bmp: Vec<(u32, u32)> = cmap.iter().cloned().filter(|p| p.0 < 0x10000).collect();
    let f4_same = f4.iter().all(|l| *l == bmp) && bmp.iter().all(|p| p.1 != 0);
    let mut f4_common: BTreeMap<u32, u32> = f4.first().map(|l| l.iter().cloned().collect()).unwrap_or_default();
    for l in f4.iter().skip(1) {
        let m: BTreeMap<u32, u32> = l.iter().cloned().collect();
        f4_common.retain(|c, g| m.get(c) == Some(g));
    }
    let glens = (0..n as u32).map(|g| subset_glyph_lens(font, g)).collect();
    AFont { n, glyphs, has_hmtx, long, lsbs, cmap, cmap_ok, uvs, selectors, colr, f4_same, f4_common, hvar: metrics_var(font, b"HVAR", 3), vvar: metrics_var(font, b"VVAR", 4), gvar: gvar_info(font), glens }
}

fn coq_glyph(g: &AG) -> String {
    match g {
        AG::Empty => "GE".into(),
        AG::Simple(h) => format!("GS {}", h),
        AG::Simple0 => "GS0".into(),
        AG::Comp(cs, h) => format!("GC {} {}", czlist(cs.iter().map(|v| *v as i128)), h),
        AG::Bad => "GB".into(),
    }
}
fn coq_pairs<A: Copy + Into<i128>, B: Copy + Into<i128>>(xs: &[(A, B)]) -> String {
    clist(xs.iter(), |(a, b)| format!("({},{})", cz((*a).into()), cz((*b).into())))
}
fn coq_font(f: &AFont) -> String {
    let mut s = String::new();
    write!(s, "mkFont {} {} ", f.n, clist(f.glyphs.iter(), |g| coq_glyph(g))).unwrap();
    write!(s, "{} {} {} ", cbool(f.has_hmtx), coq_pairs(&f.long), czlist(f.lsbs.iter().map(|v| *v as i128))).unwrap();
    write!(s, "{} {} ", coq_pairs(&f.cmap), cbool(f.cmap_ok)).unwrap();
    write!(s, "{} {} ", clist(f.uvs.iter(), |(a, b, c)| format!("({},{},{})", a, b, c)), czlist(f.selectors.iter().map(|v| *v as i128))).unwrap();
    match &f.colr {
        None => s.push_str("None"),
        Some(r) => write!(s, "(Some {})", clist(r.iter(), |l| czlist(l.iter().map(|v| *v as i128)))).unwrap(),
    }
    s
}

// ------------------------------------------------------------------------------------------------
// running the real subsetter
// ------------------------------------------------------------------------------------------------
#[derive(Clone, Debug)]
struct Req {
    gids: Vec<u32>,
    unis: Vec<u32>,
    flags: u16,
    label: &'static str,
}

fn default_drop_tables() -> IntSet<Tag> {
    // the CLI defaults (klippa/src/main.rs)
    let mut s = IntSet::<Tag>::empty();
    for t in [b"morx", b"mort", b"kerx", b"kern", b"JSTF", b"DSIG", b"EBDT", b"EBLC", b"EBSC", b"SVG ", b"PCLT", b"LTSH", b"Feat", b"Glat", b"Gloc", b"Silf", b"Sill"] {
        s.insert(Tag::new(t));
    }
    s
}

static CLASS_SEEN: std::sync::Mutex<BTreeMap<String, u32>> = std::sync::Mutex::new(BTreeMap::new());
static LAST_PANIC_AT: std::sync::Mutex<String> = std::sync::Mutex::new(String::new());
fn install_panic_hook() {
    std::panic::set_hook(Box::new(|info| {
        if let Some(l) = info.location() {
            *LAST_PANIC_AT.lock().unwrap() = format!("{}:{}", l.file().trim_start_matches("/repo/"), l.line());
        }
    }));
}

fn run_subset(bytes: &[u8], req: &Req) -> Result<Vec<u8>, String> {
    let bytes = bytes.to_vec();
    let req = req.clone();
    catch(move || {
        let font = FontRef::new(&bytes).map_err(|e| format!("open: {e}"))?;
        let mut gids = IntSet::<GlyphId>::empty();
        for g in &req.gids {
            gids.insert(GlyphId::new(*g));
        }
        let mut unis = IntSet::<u32>::empty();
        for u in &req.unis {
            unis.insert(*u);
        }
        let mut scripts = IntSet::<Tag>::empty();
        scripts.invert();
        let mut feats = IntSet::<Tag>::empty();
        feats.extend(klippa::DEFAULT_LAYOUT_FEATURES.iter().copied());
        let mut name_ids = IntSet::<NameId>::empty();
        name_ids.insert_range(NameId::from(0)..=NameId::from(6));
        let mut langs = IntSet::<u16>::empty();
        langs.insert(0x0409);
        let plan = Plan::new(&gids, &unis, &font, SubsetFlags::from(req.flags), &default_drop_tables(), &scripts, &feats, &name_ids, &langs);
        subset_font(&font, &plan).map_err(|e| format!("err: {e}"))
    })
    .unwrap_or_else(|p| Err(format!("panic: {p} at {}", LAST_PANIC_AT.lock().unwrap())))
}

/// what the re-opened subset says
#[derive(Clone, Debug, PartialEq)]
struct Obs {
    num_glyphs: usize,
    glyphs: Option<Vec<AG>>,
    hmtx: Option<(usize, Vec<(u16, i16)>)>,
    cmap: Vec<(u32, u32)>,
    /// the subset's format-4 cmap uses >= 2 glyph-id-array segments (the byte encoder, not modelled, is
    /// defective there: finding C17:cmap4-id-range-offset-shared-base) - the model then compares the mapped
    /// characters only
    cmap4_multi: bool,
    /// what the subset's format-4 subtables say (read through Cmap4 itself, not through Charmap): the common
    /// list if they all agree, a sentinel otherwise; [] when there is no format-4 subtable
    cmap4: Vec<(u32, u32)>,
}

fn observe(bytes: &[u8]) -> Option<Obs> {
    let font = FontRef::new(bytes).ok()?;
    let num_glyphs = font.maxp().ok()?.num_glyphs() as usize;
    let glyphs = match (font.loca(None), font.glyf()) {
        (Ok(l), Ok(_)) if l.len() == num_glyphs => Some((0..num_glyphs as u32).map(|g| abstract_glyph(&font, g)).collect()),
        (Ok(_), Ok(_)) => Some(vec![AG::Bad]),
        _ => None,
    };
    let hmtx = match (font.hhea(), font.hmtx()) {
        (Ok(hh), Ok(hm)) => {
            let v = (0..num_glyphs as u32)
                .map(|g| (hm.advance(GlyphId::new(g)).unwrap_or(0xFFFF), hm.side_bearing(GlyphId::new(g)).unwrap_or(-32768)))
                .collect();
            // the table must have exactly the announced shape
            let shape_ok = hm.h_metrics().len() == hh.number_of_h_metrics() as usize
                && hm.h_metrics().len() + hm.left_side_bearings().len() == num_glyphs;
            Some((if shape_ok { hh.number_of_h_metrics() as usize } else { 99999 }, v))
        }
        _ => None,
    };
    let f4 = cmap4_lists(&font);
    let cmap4 = match f4.first() {
        None => vec![],
        Some(l) if f4.iter().all(|x| x == l) => l.clone(),
        Some(_) => vec![(0xFFFF_FFFF, 0xFFFF_FFFF)],
    };
    Some(Obs { num_glyphs, glyphs, hmtx, cmap: cmap_pairs(&font), cmap4_multi: cmap4_offset_segments(&font) >= 2, cmap4 })
}

fn coq_mvar(mv: &MetricsVar, n: usize) -> String {
    let maps = clist(mv.maps.iter(), |m| match m {
        None => "None".to_string(),
        Some(m) => {
            let obc = m.width() * 8 - m.inner_bits();
            let tbl: Vec<(u32, u32)> = (0..n as u32).map(|g| m.get(g).unwrap_or((0, 0))).collect();
            format!("(Some ({}, {}))", obc, coq_pairs(&tbl))
        }
    });
    format!("mkMvar {} {}", mv.ivd_count, maps)
}

/// observed index maps of the subset's HVAR / VVAR, as (name of the original's mvar definition, raw maps)
fn coq_obs_mvars(font_id: &str, af: &AFont, sub: &[u8]) -> String {
    let Ok(sf) = FontRef::new(sub) else { return "[]".into() };
    let mut items = vec![];
    for (tag, tagb, mo) in [("HVAR", b"HVAR", &af.hvar), ("VVAR", b"VVAR", &af.vvar)] {
        let Some(mo) = mo else { continue };
        let Some(ms) = metrics_var(&sf, tagb, mo.maps.len()) else { continue };
        let maps = clist(ms.maps.iter(), |m| match m {
            None => "None".to_string(),
            Some(m) => format!("(Some ({}, {}, {}))", m.entry_format, m.map_count, czlist(m.entries.iter().map(|v| *v as i128))),
        });
        items.push(format!("({}_{}, {})", font_id, tag, maps));
    }
    clist(items.iter(), |x| x.clone())
}

/// observed gvar of the subset: flags word and offsets array as stored, next to the original's per-glyph lengths
fn coq_obs_gvar(font_id: &str, af: &AFont, sub: &[u8]) -> String {
    let (Some(_), Ok(sf)) = (&af.gvar, FontRef::new(sub)) else { return "None".into() };
    match gvar_info(&sf) {
        Some(gs) => format!("(Some ({}_GVAR, ({}, {})))", font_id, gs.flags, czlist(gs.raw_offsets.iter().map(|v| *v as i128))),
        None => "None".into(),
    }
}

fn coq_obs(r: &Result<Vec<u8>, String>, obs: &Option<Obs>, f4_same: bool, mvars: &str, gvar: &str, loca: &str) -> String {
    match (r, obs) {
        (Err(e), _) if e.starts_with("panic") => "OPanic".into(),
        (Err(_), _) => "OErr".into(),
        (Ok(_), None) => "OUnreadable".into(),
        (Ok(_), Some(o)) => {
            let g = copt(o.glyphs.as_ref().map(|v| clist(v.iter(), |g| coq_glyph(g))));
            let h = copt(o.hmtx.as_ref().map(|(k, v)| format!("({}, {})", k, coq_pairs(v))));
            let c4 = copt(f4_same.then(|| coq_pairs(&o.cmap4)));
            format!("OOut {} {} {} {} {} {} {} {} {}", o.num_glyphs, g, h, coq_pairs(&o.cmap), cbool(o.cmap4_multi), c4, mvars, gvar, loca)
        }
    }
}


// ------------------------------------------------------------------------------------------------
// HVAR / VVAR: delta-set index maps read from the raw bytes, and location-free delta-row content
// ------------------------------------------------------------------------------------------------
/// one DeltaSetIndexMap as stored: entry format byte, mapCount, raw entry values (big-endian, `width` bytes)
#[derive(Clone, Debug, PartialEq)]
struct RawIndexMap {
    entry_format: u8,
    map_count: u32,
    entries: Vec<u32>,
}
impl RawIndexMap {
    fn inner_bits(&self) -> u32 {
        (self.entry_format as u32 & 0x0F) + 1
    }
    fn width(&self) -> u32 {
        ((self.entry_format as u32 >> 4) & 0x3) + 1
    }
    /// (outer, inner) for an index, with the specification's clamp to the last entry
    fn get(&self, idx: u32) -> Option<(u32, u32)> {
        if self.entries.is_empty() {
            return None;
        }
        let v = self.entries[(idx as usize).min(self.entries.len() - 1)];
        let ib = self.inner_bits();
        Some((v >> ib, v & ((1u32 << ib) - 1)))
    }
}

/// HVAR (3 maps: advance, lsb, rsb) or VVAR (4 maps: advance height, tsb, bsb, vorg)
#[derive(Clone, Debug)]
struct MetricsVar {
    /// bytes of the ItemVariationStore (from its offset to the end of the table)
    store: Vec<u8>,
    ivd_count: usize,
    maps: Vec<Option<RawIndexMap>>,
}

fn read_index_map(t: &[u8], off: usize) -> Option<RawIndexMap> {
    let format = *t.get(off)?;
    let entry_format = *t.get(off + 1)?;
    let (map_count, data) = if format == 0 {
        (u16::from_be_bytes([*t.get(off + 2)?, *t.get(off + 3)?]) as u32, off + 4)
    } else {
        (u32::from_be_bytes([*t.get(off + 2)?, *t.get(off + 3)?, *t.get(off + 4)?, *t.get(off + 5)?]), off + 6)
    };
    let width = ((entry_format as usize >> 4) & 3) + 1;
    let mut entries = Vec::with_capacity(map_count as usize);
    for i in 0..map_count as usize {
        let b = t.get(data + i * width..data + (i + 1) * width)?;
        entries.push(b.iter().fold(0u32, |a, x| (a << 8) | *x as u32));
    }
    Some(RawIndexMap { entry_format, map_count, entries })
}

fn metrics_var(font: &FontRef, tag: &[u8; 4], nmaps: usize) -> Option<MetricsVar> {
    let t = font.table_data(Tag::new(tag))?;
    let t = t.as_bytes();
    let rd = |o: usize| -> Option<usize> { Some(u32::from_be_bytes([*t.get(o)?, *t.get(o + 1)?, *t.get(o + 2)?, *t.get(o + 3)?]) as usize) };
    let so = rd(4)?;
    let store = t.get(so..)?.to_vec();
    let ivd_count = read_fonts::tables::variations::ItemVariationStore::read(read_fonts::FontData::new(&store)).ok()?.item_variation_data_count() as usize;
    let mut maps = vec![];
    for k in 0..nmaps {
        let o = rd(8 + 4 * k)?;
        maps.push(if o == 0 { None } else { Some(read_index_map(t, o)?) });
    }
    Some(MetricsVar { store, ivd_count, maps })
}

/// the delta row (outer, inner) as { region (per axis start, peak, end) -> delta }, zero deltas dropped:
/// independent of region order, of the word/short layout and of any variation location
fn delta_row(mv: &MetricsVar, outer: u32, inner: u32) -> Option<BTreeMap<Vec<(i16, i16, i16)>, i64>> {
    let store = read_fonts::tables::variations::ItemVariationStore::read(read_fonts::FontData::new(&mv.store)).ok()?;
    let regions = store.variation_region_list().ok()?.variation_regions();
    let ivd = store.item_variation_data().get(outer as usize)?.ok()?;
    if inner >= ivd.item_count() as u32 {
        return None;
    }
    let mut row = BTreeMap::new();
    for (ri, d) in ivd.region_indexes().iter().zip(ivd.delta_set(inner as u16)) {
        if d == 0 {
            continue;
        }
        let reg = regions.get(ri.get() as usize).ok()?;
        let key: Vec<(i16, i16, i16)> = reg.region_axes().iter().map(|a| (a.start_coord().to_bits(), a.peak_coord().to_bits(), a.end_coord().to_bits())).collect();
        *row.entry(key).or_insert(0i64) += d as i64;
    }
    row.retain(|_, v| *v != 0);
    Some(row)
}

/// (outer, inner) of glyph g through map k (implicit identity when the map is absent: only meaningful for map 0)
fn var_index(mv: &MetricsVar, k: usize, g: u32) -> Option<(u32, u32)> {
    match mv.maps.get(k)? {
        Some(m) => m.get(g),
        None => Some((g >> 16, g & 0xFFFF)),
    }
}

// ------------------------------------------------------------------------------------------------
// gvar: raw header / offsets / per-glyph data, and an inflater that pads per-glyph variation data so that
// the retained size crosses the offset-format thresholds on real tuple data
// ------------------------------------------------------------------------------------------------
#[derive(Clone, Debug)]
struct GvarInfo {
    table: Vec<u8>,
    axis_count: u16,
    shared_count: u16,
    shared_off: u32,
    glyph_count: u16,
    flags: u16,
    data_off: u32,
    /// offsets as stored (not yet multiplied by 2 for the short format)
    raw_offsets: Vec<u32>,
}
impl GvarInfo {
    fn offset(&self, i: usize) -> Option<usize> {
        let v = *self.raw_offsets.get(i)? as usize;
        Some(if self.flags & 1 == 1 { v } else { v * 2 })
    }
    /// bytes of the GlyphVariationData of glyph g (empty when there is none / out of range)
    fn data(&self, g: u32) -> &[u8] {
        let (Some(a), Some(b)) = (self.offset(g as usize), self.offset(g as usize + 1)) else { return &[] };
        if b <= a {
            return &[];
        }
        self.table.get(self.data_off as usize + a..self.data_off as usize + b).unwrap_or(&[])
    }
    fn shared_tuples(&self) -> &[u8] {
        let n = 2 * self.axis_count as usize * self.shared_count as usize;
        self.table.get(self.shared_off as usize..self.shared_off as usize + n).unwrap_or(&[])
    }
}

fn gvar_info(font: &FontRef) -> Option<GvarInfo> {
    let t = font.table_data(Tag::new(b"gvar"))?.as_bytes().to_vec();
    let u16at = |o: usize| -> Option<u16> { Some(u16::from_be_bytes([*t.get(o)?, *t.get(o + 1)?])) };
    let u32at = |o: usize| -> Option<u32> { Some(u32::from_be_bytes([*t.get(o)?, *t.get(o + 1)?, *t.get(o + 2)?, *t.get(o + 3)?])) };
    let (axis_count, shared_count, shared_off, glyph_count, flags, data_off) = (u16at(4)?, u16at(6)?, u32at(8)?, u16at(12)?, u16at(14)?, u32at(16)?);
    let mut raw_offsets = vec![];
    for i in 0..=glyph_count as usize {
        raw_offsets.push(if flags & 1 == 1 { u32at(20 + 4 * i)? } else { u16at(20 + 2 * i)? as u32 });
    }
    Some(GvarInfo { table: t, axis_count, shared_count, shared_off, glyph_count, flags, data_off, raw_offsets })
}

/// The same font with `pad(g)` zero bytes appended to the variation data of every glyph that has some
/// (trailing bytes of a GlyphVariationData are never read), written with long offsets.
fn inflate_gvar(bytes: &[u8], pad: &dyn Fn(u32) -> usize) -> Option<Vec<u8>> {
    let font = FontRef::new(bytes).ok()?;
    let gi = gvar_info(&font)?;
    let mut data: Vec<u8> = vec![];
    let mut offs: Vec<u32> = vec![0];
    for g in 0..gi.glyph_count as u32 {
        let d = gi.data(g);
        if !d.is_empty() {
            data.extend_from_slice(d);
            data.extend(std::iter::repeat(0u8).take(pad(g)));
        }
        offs.push(data.len() as u32);
    }
    let shared = gi.shared_tuples().to_vec();
    let mut t: Vec<u8> = gi.table[0..8].to_vec();
    let offsets_len = 4 * (gi.glyph_count as usize + 1);
    let shared_off = if shared.is_empty() { 0u32 } else { 20 + offsets_len as u32 };
    t.extend_from_slice(&shared_off.to_be_bytes());
    t.extend_from_slice(&gi.glyph_count.to_be_bytes());
    t.extend_from_slice(&1u16.to_be_bytes());
    t.extend_from_slice(&(20 + offsets_len as u32 + shared.len() as u32).to_be_bytes());
    for o in &offs {
        t.extend_from_slice(&o.to_be_bytes());
    }
    t.extend_from_slice(&shared);
    t.extend_from_slice(&data);
    let mut fb = write_fonts::FontBuilder::new();
    for rec in font.table_directory.table_records() {
        let tag = rec.tag();
        if tag == Tag::new(b"gvar") {
            fb.add_raw(tag, t.clone());
        } else if let Some(d) = font.table_data(tag) {
            fb.add_raw(tag, d.as_bytes().to_vec());
        }
    }
    Some(fb.build())
}

/// inflated variants of a variable font: total variation data just below / above 0xFFFF and 0x1FFFE (uniform even
/// padding), all padding on the last quarter of the glyphs (so that a high-gid subset alone exceeds 0x1FFFE), and odd
/// per-glyph lengths
fn inflated_variants(name: &str, bytes: &[u8]) -> Vec<(String, Vec<u8>)> {
    let Ok(font) = FontRef::new(bytes) else { return vec![] };
    let Some(gi) = gvar_info(&font) else { return vec![] };
    let with_data: Vec<u32> = (0..gi.glyph_count as u32).filter(|g| !gi.data(*g).is_empty()).collect();
    if with_data.len() < 3 {
        return vec![];
    }
    let total: usize = with_data.iter().map(|g| gi.data(*g).len()).sum();
    let mut out = vec![];
    for target in [0xFFF0usize, 0x10020, 0x1FFE0, 0x20020] {
        if target <= total {
            continue;
        }
        let per = ((target - total) / with_data.len()) & !1;
        let rest = (target - total - per * with_data.len()) & !1;
        let last = *with_data.last().unwrap();
        if let Some(b) = inflate_gvar(bytes, &|g| per + if g == last { rest } else { 0 }) {
            out.push((format!("infl-{:#x}-{}", target, name), b));
        }
    }
    let q = with_data[with_data.len() - with_data.len().div_ceil(4)..].to_vec();
    let perq = ((0x24000usize / q.len()) + 2) & !1;
    if let Some(b) = inflate_gvar(bytes, &|g| if q.contains(&g) { perq } else { 0 }) {
        out.push((format!("infl-skewed-{}", name), b));
    }
    if let Some(b) = inflate_gvar(bytes, &|g| 1 + 2 * (g as usize % 3)) {
        out.push((format!("infl-odd-{}", name), b));
    }
    out
}

// ------------------------------------------------------------------------------------------------
// implementation-only oracle
// ------------------------------------------------------------------------------------------------
#[derive(Default, Clone, PartialEq, Debug)]
struct Rec(Vec<(u8, [u32; 6])>);
impl OutlinePen for Rec {
    fn move_to(&mut self, x: f32, y: f32) {
        self.0.push((0, [x.to_bits(), y.to_bits(), 0, 0, 0, 0]));
    }
    fn line_to(&mut self, x: f32, y: f32) {
        self.0.push((1, [x.to_bits(), y.to_bits(), 0, 0, 0, 0]));
    }
    fn quad_to(&mut self, a: f32, b: f32, x: f32, y: f32) {
        self.0.push((2, [a.to_bits(), b.to_bits(), x.to_bits(), y.to_bits(), 0, 0]));
    }
    fn curve_to(&mut self, a: f32, b: f32, c: f32, d: f32, x: f32, y: f32) {
        self.0.push((3, [a.to_bits(), b.to_bits(), c.to_bits(), d.to_bits(), x.to_bits(), y.to_bits()]));
    }
    fn close(&mut self) {
        self.0.push((4, [0; 6]));
    }
}

fn draw(font: &FontRef, gid: u32, size: Size, loc: &Location) -> Result<Rec, String> {
    let font = font.clone();
    let loc = loc.clone();
    catch(std::panic::AssertUnwindSafe(move || {
        let Some(g) = font.outline_glyphs().get(GlyphId::new(gid)) else {
            return Err("no-glyph".to_string());
        };
        let mut pen = Rec::default();
        match g.draw(DrawSettings::unhinted(size, &loc), &mut pen) {
            Ok(_) => Ok(pen),
            Err(e) => Err(format!("{:?}", std::mem::discriminant(&e))),
        }
    }))
    .unwrap_or_else(|p| Err(format!("panic {p}")))
}

fn metrics(font: &FontRef, gid: u32, size: Size, loc: &Location) -> (Option<u32>, Option<u32>) {
    let m = font.glyph_metrics(size, loc);
    (m.advance_width(GlyphId::new(gid)).map(f32::to_bits), m.left_side_bearing(GlyphId::new(gid)).map(f32::to_bits))
}

fn var_settings(font: &FontRef, rng: &mut Rng) -> Vec<Vec<(Tag, f32)>> {
    let axes = font.axes();
    if axes.is_empty() {
        return vec![vec![]];
    }
    let corner: Vec<(Tag, f32)> = axes.iter().enumerate().map(|(i, a)| (a.tag(), if i % 2 == 0 { a.max_value() } else { a.min_value() })).collect();
    let random: Vec<(Tag, f32)> = axes
        .iter()
        .map(|a| {
            let t = rng.below(1001) as f32 / 1000.0;
            (a.tag(), a.min_value() + (a.max_value() - a.min_value()) * t)
        })
        .collect();
    vec![vec![], corner, random]
}

/// the specification closure (no budget, no depth limit): .notdef, valid requested ids, glyphs of
/// requested characters, UVS glyphs, COLR reach, all components transitively
fn spec_closure(af: &AFont, req: &Req) -> BTreeSet<u32> {
    let n = af.n as u32;
    let mut s = BTreeSet::new();
    if n > 0 {
        s.insert(0);
    }
    let rg: BTreeSet<u32> = req.gids.iter().cloned().collect();
    let ru: BTreeSet<u32> = req.unis.iter().cloned().collect();
    for g in &rg {
        if *g < n {
            s.insert(*g);
        }
    }
    let mut kept_unis = BTreeSet::new();
    for (c, g) in &af.cmap {
        if ru.contains(c) || rg.contains(g) {
            kept_unis.insert(*c);
            if *g < n {
                s.insert(*g);
            }
        }
    }
    for sel in &af.selectors {
        if ru.contains(sel) {
            kept_unis.insert(*sel);
        }
    }
    for (sel, c, g) in &af.uvs {
        if kept_unis.contains(sel) && kept_unis.contains(c) && *g < n {
            s.insert(*g);
        }
    }
    if let Some(colr) = &af.colr {
        let roots: Vec<u32> = s.iter().cloned().collect();
        for r in roots {
            for x in &colr[r as usize] {
                if *x < n {
                    s.insert(*x);
                }
            }
        }
    }
    let mut stack: Vec<u32> = s.iter().cloned().collect();
    while let Some(g) = stack.pop() {
        if let AG::Comp(cs, _) = &af.glyphs[g as usize] {
            for c in cs {
                if *c < n && s.insert(*c) {
                    stack.push(*c);
                }
            }
        }
    }
    s
}

/// does the component tree of g (in the original) reach .notdef?
fn reaches_notdef(af: &AFont, g: u32) -> bool {
    let mut seen = BTreeSet::new();
    let mut st = vec![g];
    while let Some(x) = st.pop() {
        if x == 0 {
            return true;
        }
        if !seen.insert(x) || x as usize >= af.n {
            continue;
        }
        if let AG::Comp(cs, _) = &af.glyphs[x as usize] {
            st.extend(cs.iter().cloned());
        }
    }
    false
}

struct OracleCtx<'a> {
    name: &'a str,
    af: &'a AFont,
    orig: &'a [u8],
}

fn req_key(name: &str, req: &Req) -> String {
    format!("{}|g{:?}|u{:?}|f{:#x}", name, &req.gids[..req.gids.len().min(12)], &req.unis[..req.unis.len().min(12)], req.flags)
}

/// longest component chain below g (cycle-safe)
fn comp_depth(af: &AFont, g: u32, seen: &mut Vec<u32>) -> usize {
    if seen.contains(&g) || g as usize >= af.n || seen.len() > 200 {
        return 0;
    }
    seen.push(g);
    let d = match &af.glyphs[g as usize] {
        AG::Comp(cs, _) => 1 + cs.iter().map(|c| comp_depth(af, *c, seen)).max().unwrap_or(0),
        _ => 0,
    };
    seen.pop();
    d
}

fn kept_raw_glyf_bytes(orig: &FontRef, spec: &BTreeSet<u32>) -> usize {
    let Ok(loca) = orig.loca(None) else { return 0 };
    spec.iter()
        .map(|g| match (loca.get_raw(*g as usize), loca.get_raw(*g as usize + 1)) {
            (Some(a), Some(b)) if b >= a => (b - a) as usize,
            _ => 0,
        })
        .sum()
}

/// the mappings of every format-4 subtable, read through the subtable itself (Cmap4::iter)
fn cmap4_lists(font: &FontRef) -> Vec<Vec<(u32, u32)>> {
    let Ok(cm) = font.cmap() else { return vec![] };
    let mut v = vec![];
    for rec in cm.encoding_records() {
        if let Ok(CmapSubtable::Format4(c4)) = rec.subtable(cm.offset_data()) {
            // a mapping to glyph 0 means "unmapped" (the 0xFFFF terminator segment always yields one)
            v.push(c4.iter().map(|(c, g)| (c, g.to_u32())).filter(|p| p.1 != 0).collect());
        }
    }
    v
}

/// number of format-4 segments that go through the glyph id array (idRangeOffset != 0), max over subtables
fn cmap4_offset_segments(font: &FontRef) -> usize {
    let Ok(cm) = font.cmap() else { return 0 };
    let mut best = 0;
    for rec in cm.encoding_records() {
        if let Ok(CmapSubtable::Format4(c4)) = rec.subtable(cm.offset_data()) {
            let k = c4.id_range_offsets().iter().filter(|o| o.get() != 0).count();
            best = best.max(k);
        }
    }
    best
}

enum Kind {
    SubsetFailed,
    GlyphSet,
    /// metrics differ at location index (0 = default location)
    Metrics(usize),
    Outline,
    /// character whose mapping is wrong
    Chars(u32),
    Chain,
}

/// is `c` covered, in some format-4 subtable of `font`, by a glyph-id-array segment that is not the first
/// such segment?  (exactly the characters that finding C17:cmap4-id-range-offset-shared-base misroutes)
fn in_later_offset_segment(font: &FontRef, c: u32) -> bool {
    let Ok(cm) = font.cmap() else { return false };
    for rec in cm.encoding_records() {
        if let Ok(CmapSubtable::Format4(c4)) = rec.subtable(cm.offset_data()) {
            let mut seen_offset_segment = false;
            for ((s, e), o) in c4.start_code().iter().zip(c4.end_code()).zip(c4.id_range_offsets()) {
                if o.get() != 0 {
                    if seen_offset_segment && (s.get() as u32) <= c && c <= e.get() as u32 {
                        return true;
                    }
                    seen_offset_segment = true;
                }
            }
        }
    }
    false
}

/// Stable class key when the failure is one of the diagnosed defects of /repo; None = per-input key.
fn classify(af: &AFont, spec: &BTreeSet<u32>, orig: &FontRef, subf: Option<&FontRef>, kind: &Kind, msg: &str) -> Option<&'static str> {
    let has = |f: &FontRef, t: &[u8; 4]| f.table_data(Tag::new(t)).is_some();
    match kind {
        Kind::SubsetFailed => {
            if msg.contains("attempt to add with overflow") && kept_raw_glyf_bytes(orig, spec) >= 65536 {
                return Some("C17:glyf-short-loca-u16-offset-overflow");
            }
            if msg.contains("Error reading cmap table") {
                return Some("C17:cmap-dropped-unsupported-encoding-records");
            }
            // whole-font failures of subsetters outside the model (seen in the thorough tier only)
            if msg.contains("Subsetting table 'COLR' failed") {
                return Some("C17:colr-subset-fails");
            }
            if msg.contains("Subsetting table 'cmap' failed") {
                return Some("C17:cmap-subset-fails");
            }
        }
        Kind::GlyphSet | Kind::Outline | Kind::Metrics(_) => {
            if !matches!(kind, Kind::Metrics(_)) {
                let maxd = spec.iter().map(|g| comp_depth(af, *g, &mut vec![])).max().unwrap_or(0);
                if maxd > 65 {
                    return Some("F-7:glyf-closure-depth-truncation");
                }
                let comps = spec.iter().filter(|g| matches!(af.glyphs[**g as usize], AG::Comp(..))).count();
                if comps > 64 {
                    return Some("F-7:glyf-closure-budget-truncation");
                }
            }
            if let Some(sf) = subf {
                if sf.head().map(|h| h.index_to_loc_format() == 1).unwrap_or(false) && kept_raw_glyf_bytes(orig, spec) >= 0x1FFFF / 2 {
                    return Some("C17:glyf-long-loca-unpadded-glyph-data");
                }
                // HVAR only matters away from the default location
                if matches!(kind, Kind::Metrics(li) if *li > 0) && has(orig, b"HVAR") && !has(sf, b"HVAR") {
                    return Some("C17:hvar-dropped");
                }
            }
        }
        Kind::Chars(c) => {
            if !af.cmap_ok && subf.map(|sf| !has(sf, b"cmap")).unwrap_or(false) {
                return Some("C17:cmap-dropped-unsupported-encoding-records");
            }
            if let Some(sf) = subf {
                if in_later_offset_segment(sf, *c) {
                    return Some("C17:cmap4-id-range-offset-shared-base");
                }
            }
        }
        Kind::Chain => {
            if msg.contains("Error reading cmap table") {
                return Some("C17:cmap-dropped-unsupported-encoding-records");
            }
            if msg.contains("attempt to add with overflow") && msg.contains("klippa/src/cmap.rs") {
                return Some("C17:cmap12-empty-subtable-invalid-group");
            }
            if let Some(sf) = subf {
                if has(orig, b"COLR") && !has(sf, b"COLR") {
                    return Some("C17:colr-dropped");
                }
            }
        }
    }
    None
}

/// Evaluates the property's own wording on the real output; reports the first failure into `st`.
#[allow(clippy::too_many_arguments)]
fn oracle(cx: &OracleCtx, req: &Req, res: &Result<Vec<u8>, String>, st: &mut Stats, rng: &mut Rng, chain: bool, max_glyph_checks: usize) {
    let af = cx.af;
    let Ok(orig) = FontRef::new(cx.orig) else { return };
    let spec = spec_closure(af, req);
    let report = |st: &mut Stats, class: Option<&'static str>, what: &str, extra: serde_json::Value| {
        let key = class.map(|s| s.to_string()).unwrap_or_else(|| req_key(cx.name, req));
        st.count(&format!("oracle.fail.{}", class.unwrap_or("unclassified")));
        if class.is_none() && std::env::var("C17_VERBOSE").is_ok() {
            eprintln!("UNCLASSIFIED {} {} g={:?} u={:?} f={:#x} {} {}", cx.name, req.label, &req.gids[..req.gids.len().min(10)], &req.unis[..req.unis.len().min(10)], req.flags, what, extra);
        }
        // Stats keeps the first 50 failures only: record at most 4 per diagnosed class so that every class
        // (and any unclassified failure) is visible to the driver; all of them are counted above
        if let Some(c) = class {
            let mut seen = CLASS_SEEN.lock().unwrap();
            let k = seen.entry(c.to_string()).or_insert(0);
            *k += 1;
            if *k > 4 {
                st.count("oracle_failures");
                return;
            }
        }
        st.oracle_failure(json!({"key": key, "font": cx.name, "label": req.label, "gids": req.gids.iter().take(40).collect::<Vec<_>>(), "unicodes": req.unis.iter().take(40).collect::<Vec<_>>(), "flags": req.flags, "what": what, "detail": extra}));
    };
    let sub = match res {
        Ok(b) => b,
        Err(e) => {
            // a well-formed font must subset; synthetic malformed fonts are allowed to be rejected
            if !cx.name.starts_with("syn-bad") {
                report(st, classify(af, &spec, &orig, None, &Kind::SubsetFailed, e), "subsetting failed", json!(e));
            } else {
                st.count("oracle.malformed_rejected");
            }
            return;
        }
    };
    let Ok(subf) = FontRef::new(sub) else {
        report(st, None, "subset does not open as a font", json!(null));
        return;
    };
    let retain = req.flags & F_RETAIN_GIDS != 0;
    let spec_v: Vec<u32> = spec.iter().cloned().collect();
    let newid = |g: u32| -> u32 {
        if retain {
            g
        } else {
            spec_v.binary_search(&g).unwrap() as u32
        }
    };
    let n_sub = subf.maxp().map(|m| m.num_glyphs() as u32).unwrap_or(0);
    let expect_n = if retain { spec_v.last().map(|g| g + 1).unwrap_or(0) } else { spec_v.len() as u32 };
    if n_sub != expect_n {
        report(st, classify(af, &spec, &orig, Some(&subf), &Kind::GlyphSet, ""),
            "glyph set of the subset is not {requested, .notdef, characters' glyphs, every referenced component}",
            json!({"expected_num_glyphs": expect_n, "subset_num_glyphs": n_sub}));
        return;
    }
    // glyphs: outline, advance, side bearing at every size x location
    let settings_o = var_settings(&orig, &mut rng.clone());
    let sizes = [Size::unscaled(), Size::new(12.0), Size::new(17.5), Size::new(100.0)];
    let notdef_kept = req.flags & F_NOTDEF_OUTLINE != 0;
    // gvar: header consistent, and every kept glyph has byte-for-byte the variation data of its original
    // (klippa copies GlyphVariationData and the shared tuples verbatim) - exact and independent of any location
    if let Some(go) = &af.gvar {
        match gvar_info(&subf) {
            None => {
                if subf.table_data(Tag::new(b"gvar")).is_some() {
                    report(st, None, "gvar of the subset cannot be read", json!(null));
                    return;
                }
            }
            Some(gs) => {
                st.count("oracle.gvar_tables_checked");
                st.count(if gs.flags & 1 == 1 { "branch.gvar_long_offsets" } else { "branch.gvar_short_offsets" });
                let data_len = gs.table.len().saturating_sub(gs.data_off as usize);
                let offs: Vec<usize> = (0..gs.raw_offsets.len()).map(|i| gs.offset(i).unwrap()).collect();
                let mut why: Option<serde_json::Value> = None;
                if gs.glyph_count as u32 != n_sub || gs.axis_count != go.axis_count || gs.shared_tuples() != go.shared_tuples() {
                    why = Some(json!({"why": "gvar header / shared tuples differ", "glyph_count": gs.glyph_count, "num_glyphs": n_sub}));
                } else if offs.first() != Some(&0) || offs.windows(2).any(|w| w[0] > w[1]) || offs.last() != Some(&data_len) {
                    why = Some(json!({"why": "gvar offsets are not an ascending partition of the variation data", "flags": gs.flags, "last_offset": offs.last(), "data_length": data_len,
                        "first_descent": offs.windows(2).position(|w| w[0] > w[1])}));
                } else {
                    let kept_new: BTreeMap<u32, u32> = spec_v.iter().map(|g| (newid(*g), *g)).collect();
                    for ng in 0..n_sub {
                        st.evaluations += 1;
                        let expect: &[u8] = match kept_new.get(&ng) {
                            Some(g) if !(ng == 0 && *g == 0 && !notdef_kept) => go.data(*g),
                            _ => &[],
                        };
                        // short format: odd-length data is followed by exactly one zero pad byte
                        let got = gs.data(ng);
                        let same = if gs.flags & 1 == 0 && expect.len() % 2 == 1 {
                            got.len() == expect.len() + 1 && &got[..expect.len()] == expect && got[expect.len()] == 0
                        } else {
                            got == expect
                        };
                        if !same {
                            why = Some(json!({"why": "variation data of a kept glyph is not the original's", "new": ng, "orig": kept_new.get(&ng), "subset_len": gs.data(ng).len(), "orig_len": expect.len(), "flags": gs.flags}));
                            break;
                        }
                    }
                }
                if let Some(w) = why {
                    // (findings C17:gvar-format-decision-uses-new-gids and C17:gvar-short-offsets-odd-length-data were
                    // repaired in /repo 88e7b85 / 8b3457d: any failure here is unknown again)
                    let class: Option<&'static str> = None;
                    report(st, class, "gvar of the subset does not preserve the kept glyphs' variation data", w);
                    return;
                }
            }
        }
    }
    let mut checked = 0usize;
    let mut order: Vec<u32> = spec_v.clone();
    if order.len() > max_glyph_checks {
        rng.shuffle(&mut order);
        order.truncate(max_glyph_checks);
        order.push(spec_v[0]);
        order.push(*spec_v.last().unwrap());
    }
    let mut first_fail: Option<(Kind, serde_json::Value)> = None;
    'outer: for g in order {
        let ng = newid(g);
        let through_notdef = !notdef_kept && reaches_notdef(af, g);
        for (li, setting) in settings_o.iter().enumerate() {
            let lo = orig.axes().location(setting.iter().cloned());
            let ls = subf.axes().location(setting.iter().cloned());
            if lo.coords() != ls.coords() {
                first_fail = Some((Kind::Metrics(li), json!({"glyph": g, "why": "same user location normalises differently in the subset", "loc": li})));
                break 'outer;
            }
            for (si, size) in sizes.iter().enumerate() {
                st.evaluations += 1;
                let (ao, bo) = metrics(&orig, g, *size, &lo);
                let (a_s, b_s) = metrics(&subf, ng, *size, &ls);
                if ao != a_s {
                    first_fail = Some((Kind::Metrics(li), json!({"glyph": g, "new": ng, "why": "advance differs", "orig": ao.map(f32::from_bits), "subset": a_s.map(f32::from_bits), "size": si, "loc": li})));
                    break 'outer;
                }
                if bo != b_s {
                    first_fail = Some((Kind::Metrics(li), json!({"glyph": g, "new": ng, "why": "side bearing differs", "orig": bo.map(f32::from_bits), "subset": b_s.map(f32::from_bits), "size": si, "loc": li})));
                    break 'outer;
                }
                if through_notdef {
                    continue; // documented: the .notdef outline is dropped unless NOTDEF_OUTLINE is set
                }
                let po = draw(&orig, g, *size, &lo);
                let ps = draw(&subf, ng, *size, &ls);
                if po.is_err() {
                    st.count("oracle.original_outline_unreadable");
                    continue; // nothing to preserve: the original glyph cannot be drawn (cycle, dangling component, depth)
                }
                if po != ps {
                    first_fail = Some((Kind::Outline, json!({"glyph": g, "new": ng, "why": "unhinted outline differs", "orig": format!("{:?}", po.as_ref().map(|r| r.0.len())), "subset": format!("{:?}", ps.as_ref().map(|r| r.0.len())), "size": si, "loc": li})));
                    break 'outer;
                }
            }
        }
        checked += 1;
    }
    st.add("oracle.glyphs_compared", checked as u64);
    if let Some((kind, f)) = first_fail {
        report(st, classify(af, &spec, &orig, Some(&subf), &kind, ""), "kept glyph not preserved", f);
        return;
    }
    // HVAR / VVAR: the delta row every kept glyph is routed to (through the new DeltaSetIndexMaps and the new
    // ItemVariationStore) has the same content as in the original - exact and independent of any location
    for (tag, mo) in [(b"HVAR", &af.hvar), (b"VVAR", &af.vvar)] {
        let Some(mo) = mo else { continue };
        let nmaps = mo.maps.len();
        let Some(ms) = metrics_var(&subf, tag, nmaps) else { continue }; // dropped table: reported by the metrics check
        st.count("oracle.metrics_var_tables_checked");
        for g in &spec_v {
            let ng = newid(*g);
            for k in 0..nmaps {
                if k > 0 && mo.maps[k].is_none() {
                    continue;
                }
                let Some((oo, oi)) = var_index(mo, k, *g) else { continue };
                let Some(row_o) = delta_row(mo, oo, oi) else { continue };
                st.evaluations += 1;
                let idx_s = if k > 0 && ms.maps[k].is_none() { None } else { var_index(&ms, k, ng) };
                let row_s = idx_s.and_then(|(so, si)| delta_row(&ms, so, si));
                if row_s.as_ref() != Some(&row_o) {
                    report(st, None, "kept glyph is routed to a different variation delta row (metrics differ away from the default location)",
                        json!({"table": String::from_utf8_lossy(tag), "map": k, "glyph": g, "new": ng, "orig_index": [oo, oi], "subset_index": idx_s.map(|p| vec![p.0, p.1]),
                               "orig_row": format!("{:?}", row_o).chars().take(300).collect::<String>(), "subset_row": format!("{:?}", row_s).chars().take(300).collect::<String>(),
                               "subset_entry_format": ms.maps[k].as_ref().map(|m| m.entry_format)}));
                    return;
                }
            }
        }
    }
    // characters
    let rg: BTreeSet<u32> = req.gids.iter().cloned().collect();
    let ru: BTreeSet<u32> = req.unis.iter().cloned().collect();
    let ocm: BTreeMap<u32, u32> = af.cmap.iter().cloned().collect();
    // first through every format-4 subtable of the subset read directly (Charmap prefers a format-12
    // subtable when there is one and would hide a wrong format-4 encoding), then through Charmap
    if let Ok(scmap) = subf.cmap() {
        for rec in scmap.encoding_records() {
            let Ok(CmapSubtable::Format4(c4)) = rec.subtable(scmap.offset_data()) else { continue };
            st.count("oracle.cmap4_subtables_checked");
            let mut bad: Option<(u32, serde_json::Value)> = None;
            for c in ru.iter().filter(|c| **c < 0x10000) {
                let Some(g) = af.f4_common.get(c) else { continue };
                if (*g as usize) >= af.n || !spec.contains(g) {
                    continue;
                }
                st.evaluations += 1;
                let got = c4.map_codepoint(*c).map(|x| x.to_u32());
                if got != Some(newid(*g)) && !(*g == 0 && got.is_none()) {
                    bad = Some((*c, json!({"char": c, "orig_gid": g, "expected": newid(*g), "got_through_format4": got})));
                    break;
                }
            }
            if bad.is_none() {
                for (c, ng) in c4.iter().filter(|p| p.1.to_u32() != 0) {
                    st.evaluations += 1;
                    let og = af.f4_common.get(&c).or(ocm.get(&c));
                    let allowed = ru.contains(&c) || og.map(|g| rg.contains(g)).unwrap_or(false);
                    let right = og.map(|g| spec.contains(g) && newid(*g) == ng.to_u32()).unwrap_or(false);
                    if !allowed || !right {
                        bad = Some((c, json!({"char": c, "subset_gid_through_format4": ng.to_u32(), "orig_gid": og})));
                        break;
                    }
                }
            }
            if let Some((c, detail)) = bad {
                // the known class only when the subset's cmap4 really has >= 2 range-offset segments and the
                // character sits in a later one; anything else is a different defect
                if in_later_offset_segment(&subf, c) {
                    report(st, Some("C17:cmap4-id-range-offset-shared-base"), "format-4 subtable of the subset maps a character to the wrong glyph", detail);
                } else {
                    let first_cp = req.unis.first().cloned().unwrap_or(c);
                    let key = format!("cmap4:wrong-glyph:{}:{:#x}", cx.name, first_cp);
                    st.count("oracle.fail.cmap4-wrong-glyph");
                    st.oracle_failure(json!({"key": key, "font": cx.name, "label": req.label, "gids": req.gids.iter().take(40).collect::<Vec<_>>(), "unicodes": req.unis.iter().take(40).collect::<Vec<_>>(), "flags": req.flags,
                        "what": "format-4 subtable of the subset maps a character to the wrong glyph", "detail": detail}));
                }
                return;
            }
        }
    }
    let scm = subf.charmap();
    for c in &ru {
        if let Some(g) = ocm.get(c) {
            if (*g as usize) < af.n {
                st.evaluations += 1;
                let got = scm.map(*c).map(|x| x.to_u32());
                // a character whose glyph is .notdef may be left unmapped (same meaning)
                if got != Some(newid(*g)) && !(*g == 0 && got.is_none()) {
                    report(st, classify(af, &spec, &orig, Some(&subf), &Kind::Chars(*c), ""), "requested character does not map to the renumbered glyph", json!({"char": c, "orig_gid": g, "expected": newid(*g), "got": got}));
                    return;
                }
            }
        }
    }
    for (c, ng) in scm.mappings() {
        st.evaluations += 1;
        let og = ocm.get(&c);
        let allowed = ru.contains(&c) || og.map(|g| rg.contains(g)).unwrap_or(false);
        let right = og.map(|g| spec.contains(g) && newid(*g) == ng.to_u32()).unwrap_or(false);
        if !allowed || !right {
            report(st, classify(af, &spec, &orig, Some(&subf), &Kind::Chars(c), ""), "subset maps a character that was not requested (or to the wrong glyph)", json!({"char": c, "subset_gid": ng.to_u32(), "orig_gid": og}));
            return;
        }
    }
    st.count("oracle.cases_passed");
    // subset of the subset with the same request: nothing changes
    // (if .notdef is a composite and its outline is dropped, its components are kept by the first run and,
    // no longer referenced, dropped by the second: the same side condition as c17_subset_idempotent)
    let notdef_composite_emptied = !notdef_kept && matches!(af.glyphs.first(), Some(AG::Comp(..)));
    if chain && notdef_composite_emptied {
        st.count("oracle.chain_skipped_notdef_composite");
    }
    // malformed synthetic fonts (dangling components, short hmtx) are not expected to be stable
    if chain && !notdef_composite_emptied && !cx.name.starts_with("syn-bad") {
        let req2 = Req { gids: req.gids.iter().filter(|g| spec.contains(g)).map(|g| newid(*g)).collect(), unis: req.unis.clone(), flags: req.flags, label: "again" };
        let res2 = run_subset(sub, &req2);
        st.count("oracle.subset_of_subset");
        match (&res2, observe(sub)) {
            (Ok(b2), Some(o1)) => {
                let o2 = observe(b2);
                let same = o2.as_ref().map(|o2| {
                    o2.num_glyphs == o1.num_glyphs && o2.hmtx.as_ref().map(|h| &h.1) == o1.hmtx.as_ref().map(|h| &h.1) && o2.cmap == o1.cmap && o2.glyphs == o1.glyphs
                });
                if same != Some(true) {
                    let d = o2.as_ref().map(|o2| json!({"num_glyphs": [o1.num_glyphs, o2.num_glyphs], "hmtx_equal": o2.hmtx.as_ref().map(|h| &h.1) == o1.hmtx.as_ref().map(|h| &h.1), "cmap_equal": o2.cmap == o1.cmap, "glyphs_equal": o2.glyphs == o1.glyphs}));
                    report(st, classify(af, &spec, &orig, Some(&subf), &Kind::Chain, ""), "subsetting the subset again with the same request changes it", json!(d));
                    return;
                }
                if let Ok(f2) = FontRef::new(b2) {
                    for g in 0..o1.num_glyphs.min(max_glyph_checks) as u32 {
                        let l = Location::default();
                        if draw(&subf, g, Size::new(17.5), &l) != draw(&f2, g, Size::new(17.5), &l) || metrics(&subf, g, Size::new(17.5), &l) != metrics(&f2, g, Size::new(17.5), &l) {
                            report(st, classify(af, &spec, &orig, Some(&subf), &Kind::Chain, ""), "subset-of-subset: outline or metrics changed", json!({"glyph": g}));
                            return;
                        }
                    }
                }
            }
            (Err(e), _) => {
                report(st, classify(af, &spec, &orig, Some(&subf), &Kind::Chain, e), "subsetting the subset again fails", json!(e));
            }
            _ => {}
        }
    }
}

// ------------------------------------------------------------------------------------------------
// synthetic fonts (raw tables)
// ------------------------------------------------------------------------------------------------
#[derive(Clone, Debug)]
enum SG {
    Empty,
    Simple(u8),
    Comp(Vec<u16>),
    /// raw glyph bytes (diagnostic witnesses only)
    Raw(Vec<u8>),
}
/// simple glyph, one contour of n on-curve points, flags written as REPEAT_FLAG runs (<= 256 points per run),
/// x / y deltas of the given byte width (0 = "same" bit, 1 = short vector, 2 = 16-bit), `pad` zero bytes appended
fn repeat_glyph(n: usize, xw: u8, yw: u8, pad: usize) -> Vec<u8> {
    let mut b = vec![];
    for x in [1i16, 0, 0, 2000, 2000] {
        b.extend_from_slice(&x.to_be_bytes());
    }
    b.extend_from_slice(&((n - 1) as u16).to_be_bytes()); // endPts[0]
    b.extend_from_slice(&0u16.to_be_bytes()); // instructionLength
    let mut flag = 0x01u8;
    flag |= match xw {
        0 => 0x10,        // x same as previous
        1 => 0x02 | 0x10, // short, positive
        _ => 0,
    };
    flag |= match yw {
        0 => 0x20,
        1 => 0x04 | 0x20,
        _ => 0,
    };
    let mut left = n;
    while left > 0 {
        let run = left.min(256);
        b.extend_from_slice(&[flag | 0x08, (run - 1) as u8]);
        left -= run;
    }
    for w in [xw, yw] {
        for k in 0..n {
            let d = (k % 5) as i16 + 1;
            match w {
                0 => {}
                1 => b.push(d as u8),
                _ => b.extend_from_slice(&d.to_be_bytes()),
            }
        }
    }
    b.extend(std::iter::repeat(0u8).take(pad));
    b
}
#[derive(Clone, Debug)]
struct Syn {
    glyphs: Vec<SG>,
    long: Vec<(u16, i16)>,
    lsbs: Vec<i16>,
    cmap: Vec<(u32, u16)>,
    maxp_glyphs: u16,
}

fn simple_bytes(v: u8) -> Vec<u8> {
    // one triangle contour, coordinates depend on v
    let mut b = vec![];
    let d = 10 * (v as i16 + 1);
    for x in [1i16, 0, 0, d, d] {
        b.extend_from_slice(&x.to_be_bytes());
    }
    b.extend_from_slice(&2u16.to_be_bytes()); // endPts[0]
    b.extend_from_slice(&0u16.to_be_bytes()); // instructionLength
    b.extend_from_slice(&[0x01, 0x01, 0x01]); // on-curve, 16-bit deltas
    for x in [0i16, d, 0] {
        b.extend_from_slice(&x.to_be_bytes());
    }
    for y in [0i16, 0, d] {
        b.extend_from_slice(&y.to_be_bytes());
    }
    b
}
fn comp_bytes(cs: &[u16]) -> Vec<u8> {
    let mut b = vec![];
    for x in [-1i16, 0, 0, 100, 100] {
        b.extend_from_slice(&x.to_be_bytes());
    }
    for (i, c) in cs.iter().enumerate() {
        let more = if i + 1 < cs.len() { 0x20u16 } else { 0 };
        b.extend_from_slice(&(0x0003u16 | more).to_be_bytes()); // words, xy values
        b.extend_from_slice(&c.to_be_bytes());
        b.extend_from_slice(&((i as i16) * 7).to_be_bytes());
        b.extend_from_slice(&((i as i16) * 3).to_be_bytes());
    }
    b
}

fn build_syn(s: &Syn) -> Vec<u8> {
    let mut glyf = vec![];
    let mut loca: Vec<u32> = vec![0];
    for g in &s.glyphs {
        let b = match g {
            SG::Empty => vec![],
            SG::Simple(v) => simple_bytes(*v),
            SG::Comp(cs) => comp_bytes(cs),
            SG::Raw(b) => b.clone(),
        };
        glyf.extend_from_slice(&b);
        if glyf.len() % 2 == 1 {
            glyf.push(0);
        }
        loca.push(glyf.len() as u32);
    }
    if glyf.is_empty() {
        glyf.push(0);
    }
    let mut loca_b = vec![];
    for o in &loca {
        loca_b.extend_from_slice(&o.to_be_bytes());
    }
    let mut head = vec![];
    head.extend_from_slice(&0x00010000u32.to_be_bytes());
    head.extend_from_slice(&0x00010000u32.to_be_bytes());
    head.extend_from_slice(&0u32.to_be_bytes());
    head.extend_from_slice(&0x5F0F3CF5u32.to_be_bytes());
    head.extend_from_slice(&0u16.to_be_bytes());
    head.extend_from_slice(&1000u16.to_be_bytes());
    head.extend_from_slice(&[0; 16]);
    for v in [0i16, 0, 1000, 1000] {
        head.extend_from_slice(&v.to_be_bytes());
    }
    head.extend_from_slice(&0u16.to_be_bytes());
    head.extend_from_slice(&8u16.to_be_bytes());
    head.extend_from_slice(&2i16.to_be_bytes());
    head.extend_from_slice(&1i16.to_be_bytes()); // long loca
    head.extend_from_slice(&0i16.to_be_bytes());
    let mut maxp = vec![];
    maxp.extend_from_slice(&0x00010000u32.to_be_bytes());
    maxp.extend_from_slice(&s.maxp_glyphs.to_be_bytes());
    maxp.extend_from_slice(&[0, 8, 0, 2, 0, 8, 0, 2, 0, 2, 0, 0, 0, 0, 0, 0, 0, 0, 0, 0, 0, 0, 0, 4, 0, 4]);
    let mut hhea = vec![];
    hhea.extend_from_slice(&0x00010000u32.to_be_bytes());
    for v in [800i16, -200, 0] {
        hhea.extend_from_slice(&v.to_be_bytes());
    }
    hhea.extend_from_slice(&1000u16.to_be_bytes());
    hhea.extend_from_slice(&[0; 22]);
    hhea.extend_from_slice(&(s.long.len() as u16).to_be_bytes());
    let mut hmtx = vec![];
    for (a, l) in &s.long {
        hmtx.extend_from_slice(&a.to_be_bytes());
        hmtx.extend_from_slice(&l.to_be_bytes());
    }
    for l in &s.lsbs {
        hmtx.extend_from_slice(&l.to_be_bytes());
    }
    let cmap = write_fonts::tables::cmap::Cmap::from_mappings(s.cmap.iter().map(|(c, g)| (char::from_u32(*c).unwrap(), GlyphId::new(*g as u32)))).unwrap();
    let cmap_b = write_fonts::dump_table(&cmap).unwrap();
    let mut fb = write_fonts::FontBuilder::new();
    fb.add_raw(Tag::new(b"head"), head);
    fb.add_raw(Tag::new(b"maxp"), maxp);
    fb.add_raw(Tag::new(b"hhea"), hhea);
    fb.add_raw(Tag::new(b"hmtx"), hmtx);
    fb.add_raw(Tag::new(b"cmap"), cmap_b);
    fb.add_raw(Tag::new(b"loca"), loca_b);
    fb.add_raw(Tag::new(b"glyf"), glyf);
    fb.build()
}

fn syn_chain(depth: usize) -> Syn {
    // 0 = .notdef, 1 = root composite, each composite references the next, last is simple
    let mut glyphs = vec![SG::Simple(0)];
    for k in 0..depth {
        glyphs.push(SG::Comp(vec![(k + 2) as u16]));
    }
    glyphs.push(SG::Simple(1));
    let n = glyphs.len();
    Syn { glyphs, long: (0..n).map(|i| (500 + i as u16, i as i16)).collect(), lsbs: vec![], cmap: vec![(0x41, 1)], maxp_glyphs: n as u16 }
}
fn syn_wide(width: usize) -> Syn {
    // 0 notdef, 1 root with `width` composite children, each child has its own simple leaf
    let mut glyphs = vec![SG::Simple(0)];
    glyphs.push(SG::Comp((0..width).map(|i| (2 + i) as u16).collect()));
    for i in 0..width {
        glyphs.push(SG::Comp(vec![(2 + width + i) as u16]));
    }
    for i in 0..width {
        glyphs.push(SG::Simple((i % 5) as u8));
    }
    let n = glyphs.len();
    Syn { glyphs, long: vec![(600, 10)], lsbs: (1..n).map(|i| i as i16).collect(), cmap: vec![(0x41, 1)], maxp_glyphs: n as u16 }
}

fn syn_random(rng: &mut Rng, bad: bool) -> Syn {
    let n = rng.range(1, 12) as usize;
    let mut glyphs = vec![];
    for i in 0..n {
        let k = rng.below(10);
        glyphs.push(if k < 2 {
            SG::Empty
        } else if k < 6 {
            SG::Simple(rng.below(4) as u8)
        } else {
            let cnt = rng.range(1, 3) as usize;
            SG::Comp(
                (0..cnt)
                    .map(|_| {
                        if bad && rng.chance(1, 8) {
                            (n as u16) + rng.below(3) as u16
                        } else if rng.chance(1, 10) {
                            i as u16 // self reference
                        } else {
                            rng.below(n as u64) as u16
                        }
                    })
                    .collect(),
            )
        });
    }
    let nhm = rng.range(1, n as i64) as usize;
    let alphabet = [0u16, 500, 500, 600, 1000];
    let advs: Vec<u16> = {
        // frequently a constant tail so that the trimming loop has something to trim
        let tail_from = rng.below(n as u64 + 1) as usize;
        let tail = *rng.pick(&alphabet);
        (0..n).map(|i| if i >= tail_from { tail } else { *rng.pick(&alphabet) }).collect()
    };
    let long: Vec<(u16, i16)> = (0..nhm).map(|i| (advs[i], rng.range(-50, 50) as i16)).collect();
    let mut lsbs: Vec<i16> = (nhm..n).map(|_| rng.range(-50, 50) as i16).collect();
    if bad && rng.chance(1, 3) {
        // hmtx shorter / longer than numGlyphs
        if rng.chance(1, 2) && !lsbs.is_empty() {
            let k = rng.below(lsbs.len() as u64) as usize;
            lsbs.truncate(k);
        } else {
            lsbs.push(7);
        }
    }
    let mut cmap = vec![];
    let nchars = rng.range(0, 8) as usize;
    let mut cp = 0x41u32;
    for _ in 0..nchars {
        cp += rng.range(1, 3) as u32;
        let g = if bad && rng.chance(1, 6) { n as u16 + rng.below(2) as u16 } else { rng.below(n as u64) as u16 };
        cmap.push((cp, g));
    }
    if rng.chance(1, 4) {
        cmap.push((0x1F600, rng.below(n as u64) as u16));
    }
    Syn { glyphs, long, lsbs, cmap, maxp_glyphs: n as u16 }
}

// ------------------------------------------------------------------------------------------------
// requests
// ------------------------------------------------------------------------------------------------
fn pick_subset(rng: &mut Rng, xs: &[u32], k: usize) -> Vec<u32> {
    let mut v = xs.to_vec();
    rng.shuffle(&mut v);
    v.truncate(k);
    v.sort();
    v
}

fn requests(af: &AFont, rng: &mut Rng, count: usize) -> Vec<Req> {
    let n = af.n as u32;
    let chars: Vec<u32> = af.cmap.iter().map(|p| p.0).collect();
    let all_g: Vec<u32> = (0..n).collect();
    let comps: Vec<u32> = (0..n).filter(|g| matches!(af.glyphs[*g as usize], AG::Comp(..))).collect();
    let mut v: Vec<Req> = vec![];
    let fl = |rng: &mut Rng| -> u16 {
        let mut f = 0u16;
        for b in [F_NO_HINTING, F_RETAIN_GIDS, F_SET_OVERLAPS, F_NOTDEF_OUTLINE] {
            if rng.chance(1, 2) {
                f |= b;
            }
        }
        for b in [F_NAME_LEGACY, F_GLYPH_NAMES, F_NO_PRUNE_UR] {
            if rng.chance(1, 6) {
                f |= b;
            }
        }
        f
    };
    let mut push = |v: &mut Vec<Req>, label: &'static str, mut gids: Vec<u32>, mut unis: Vec<u32>, flags: u16| {
        gids.sort();
        gids.dedup();
        unis.sort();
        unis.dedup();
        v.push(Req { gids, unis, flags, label });
    };
    // boundary requests, each under plain / retain-gids
    for f in [0u16, F_RETAIN_GIDS, F_NOTDEF_OUTLINE, F_RETAIN_GIDS | F_NO_HINTING | F_SET_OVERLAPS] {
        push(&mut v, "everything", all_g.clone(), chars.clone(), f);
    }
    push(&mut v, "empty", vec![], vec![], 0);
    push(&mut v, "empty", vec![], vec![], F_RETAIN_GIDS);
    if n > 0 {
        push(&mut v, "highest-gid", vec![n - 1], vec![], fl(rng));
        push(&mut v, "highest-gid", vec![n - 1], vec![], F_RETAIN_GIDS);
        push(&mut v, "gid-out-of-range", vec![n, n + 5, 0xFFFF], vec![], fl(rng));
        push(&mut v, "gid-mixed-range", vec![n.saturating_sub(2), n + 1], vec![0x10FFFF], fl(rng));
    }
    if !chars.is_empty() {
        push(&mut v, "single-char", vec![], vec![*rng.pick(&chars)], 0);
        push(&mut v, "single-char", vec![], vec![*rng.pick(&chars)], fl(rng));
        push(&mut v, "all-chars", vec![], chars.clone(), fl(rng));
        push(&mut v, "unmapped-char", vec![], vec![chars[0].wrapping_add(0x7777), 0xE0100], fl(rng));
    }
    if !comps.is_empty() {
        push(&mut v, "composites-only", comps.clone(), vec![], 0);
        push(&mut v, "composites-only", comps.clone(), vec![], F_RETAIN_GIDS | F_NOTDEF_OUTLINE);
        push(&mut v, "one-composite", vec![*rng.pick(&comps)], vec![], fl(rng));
    }
    if !af.uvs.is_empty() {
        let (s, c, _) = af.uvs[rng.below(af.uvs.len() as u64) as usize];
        push(&mut v, "uvs", vec![], vec![s, c], fl(rng));
    }
    if !af.selectors.is_empty() {
        let mut u = af.selectors.clone();
        u.extend(pick_subset(rng, &chars, 6));
        push(&mut v, "uvs", vec![], u, fl(rng));
    }
    // all 16 combinations of the four outline-relevant flags on one mixed request
    {
        let g = pick_subset(rng, &all_g, (n as usize).min(3));
        let u = pick_subset(rng, &chars, chars.len().min(3));
        for m in 0..16u16 {
            let mut f = 0;
            if m & 1 != 0 {
                f |= F_NO_HINTING
            }
            if m & 2 != 0 {
                f |= F_RETAIN_GIDS
            }
            if m & 4 != 0 {
                f |= F_SET_OVERLAPS
            }
            if m & 8 != 0 {
                f |= F_NOTDEF_OUTLINE
            }
            push(&mut v, "flag-grid", g.clone(), u.clone(), f);
        }
    }
    // random
    while v.len() < count.max(v.len().min(count)) {
        let kg = match rng.below(4) {
            0 => 0,
            1 => 1,
            2 => rng.below(n as u64 / 2 + 1) as usize,
            _ => rng.below(6) as usize,
        };
        let ku = match rng.below(4) {
            0 => 0,
            1 => 1,
            2 => rng.below(chars.len() as u64 + 1) as usize,
            _ => rng.below(6) as usize,
        };
        let mut g = pick_subset(rng, &all_g, kg.min(all_g.len()));
        if rng.chance(1, 10) {
            g.push(n + rng.below(3) as u32);
        }
        let mut u = pick_subset(rng, &chars, ku.min(chars.len()));
        if rng.chance(1, 10) {
            u.push(0x30000 + rng.below(10) as u32);
            u.sort();
        }
        push(&mut v, "random", g, u, fl(rng));
    }
    // fewer wanted than the boundary list holds (synthetic fonts): keep one "everything", sample the rest
    if v.len() > count.max(1) {
        let mut rest = v.split_off(1);
        rng.shuffle(&mut rest);
        rest.truncate(count.max(1) - 1);
        v.extend(rest);
    }
    v
}

/// Requests made of contiguous code-point blocks of the font's cmap (the shapes the format-4 range writer
/// `to_ranges` / `commit_current_range` has to split): `nrand` random blocks of 3..40 code points and `neng`
/// engineered ones - two or more short glyph-id runs followed by a run of >= 4 consecutive glyph ids - each under
/// default flags and RETAIN_GIDS.
fn block_requests(af: &AFont, rng: &mut Rng, nrand: usize, neng: usize) -> Vec<Req> {
    let mut cm: Vec<(u32, u32)> = af.cmap.iter().cloned().filter(|p| p.0 < 0xFFFF).collect();
    cm.sort();
    cm.dedup_by_key(|p| p.0);
    // maximal runs of consecutive code points, as index ranges into cm
    let mut runs: Vec<(usize, usize)> = vec![];
    let mut i = 0;
    while i < cm.len() {
        let mut j = i + 1;
        while j < cm.len() && cm[j].0 == cm[j - 1].0 + 1 {
            j += 1;
        }
        if j - i >= 3 {
            runs.push((i, j));
        }
        i = j;
    }
    let mut out = vec![];
    let mut push = |out: &mut Vec<Req>, label: &'static str, a: usize, b: usize| {
        let unis: Vec<u32> = cm[a..b].iter().map(|p| p.0).collect();
        for flags in [0u16, F_RETAIN_GIDS] {
            out.push(Req { gids: vec![], unis: unis.clone(), flags, label });
        }
    };
    if runs.is_empty() {
        return out;
    }
    for _ in 0..nrand {
        let (a, b) = *rng.pick(&runs);
        let len = rng.range(3, ((b - a) as i64).min(40)) as usize;
        let start = a + rng.below((b - a - len) as u64 + 1) as usize;
        push(&mut out, "cp-block", start, start + len);
    }
    // engineered windows: positions where >= 2 glyph-id runs of length <= 3 are followed by a run of length >= 4
    let mut cands: Vec<(usize, usize)> = vec![];
    for (a, b) in &runs {
        // glyph-id runs inside this code-point run
        let mut gr: Vec<(usize, usize)> = vec![];
        let mut i = *a;
        while i < *b {
            let mut j = i + 1;
            while j < *b && cm[j].1 == cm[j - 1].1 + 1 {
                j += 1;
            }
            gr.push((i, j));
            i = j;
        }
        for k in 0..gr.len() {
            let mut m = k;
            while m < gr.len() && gr[m].1 - gr[m].0 <= 3 {
                m += 1;
            }
            if m - k >= 2 && m < gr.len() && gr[m].1 - gr[m].0 >= 4 {
                // from the k-th short run (also from later ones, as long as two short runs remain) to the long run
                for s0 in k..=(m - 2) {
                    cands.push((gr[s0].0, gr[m].1.min(gr[m].0 + 9)));
                }
            }
        }
    }
    if !cands.is_empty() {
        let first = cands[0];
        push(&mut out, "cp-block-engineered", first.0, first.1);
        rng.shuffle(&mut cands);
        for (a, b) in cands.into_iter().take(neng.saturating_sub(1)) {
            push(&mut out, "cp-block-engineered", a, b);
        }
    }
    out
}

/// Small requests that mix glyphs routed to DIFFERENT ItemVariationData subtables of HVAR / VVAR, with a random
/// number (1..4) of distinct delta rows per subtable (the shapes the index-map repacking has to get right), plus tiny
/// random character / glyph-id sets; under default flags, RETAIN_GIDS and random flags.
fn metrics_var_requests(af: &AFont, rng: &mut Rng, count: usize) -> Vec<Req> {
    let mut out = vec![];
    let Some(mv) = af.hvar.as_ref().or(af.vvar.as_ref()) else { return out };
    // outer -> inner -> chars / gids
    let mut by_outer: BTreeMap<u32, BTreeMap<u32, Vec<(u32, u32)>>> = BTreeMap::new();
    for (c, g) in &af.cmap {
        if (*g as usize) < af.n {
            if let Some((o, i)) = var_index(mv, 0, *g) {
                by_outer.entry(o).or_default().entry(i).or_default().push((*c, *g));
            }
        }
    }
    let outers: Vec<u32> = by_outer.keys().cloned().collect();
    let chars: Vec<u32> = af.cmap.iter().map(|p| p.0).collect();
    if outers.is_empty() {
        return out;
    }
    for k in 0..count {
        let flags = match k % 3 {
            0 => 0,
            1 => F_RETAIN_GIDS,
            _ => {
                let mut f = 0;
                for b in [F_NO_HINTING, F_RETAIN_GIDS, F_SET_OVERLAPS, F_NOTDEF_OUTLINE] {
                    if rng.chance(1, 2) {
                        f |= b;
                    }
                }
                f
            }
        };
        let (mut gids, mut unis) = (vec![], vec![]);
        if k % 4 == 3 {
            let kk = (rng.range(1, 6) as usize).min(chars.len());
            unis = pick_subset(rng, &chars, kk);
        } else {
            let m = (rng.range(1, 3) as usize).max(if outers.len() >= 2 { 2 } else { 1 }).min(outers.len());
            let mut os = outers.clone();
            rng.shuffle(&mut os);
            for o in os.into_iter().take(m) {
                let inners: Vec<u32> = by_outer[&o].keys().cloned().collect();
                // row counts on both sides of the bit-width boundaries (new inner index 0 | 1 | 2..3 | 4..7 | 8..)
                let r = (*rng.pick(&[1usize, 1, 2, 2, 3, 4, 5, 9])).min(inners.len());
                let mut is = inners.clone();
                rng.shuffle(&mut is);
                for i in is.into_iter().take(r) {
                    let (c, g) = *rng.pick(&by_outer[&o][&i]);
                    if rng.chance(1, 5) {
                        gids.push(g);
                    } else {
                        unis.push(c);
                    }
                }
            }
        }
        gids.sort();
        gids.dedup();
        unis.sort();
        unis.dedup();
        out.push(Req { gids, unis, flags, label: "metrics-var-mix" });
    }
    out
}

/// LARGE subsets (size thresholds of gvar / glyf / loca / hmtx are crossed from both sides on real data):
/// everything, and 90 / 75 / 50 % of the glyphs as a low gid range, a high gid range and a random choice, each under
/// default flags, NO_HINTING, RETAIN_GIDS and NO_HINTING|RETAIN_GIDS|NOTDEF_OUTLINE
fn large_requests(af: &AFont, rng: &mut Rng) -> Vec<Req> {
    let n = af.n as u32;
    let mut shapes: Vec<Vec<u32>> = vec![(0..n).collect()];
    for pct in [90u32, 75, 50] {
        let k = (n * pct / 100).max(1);
        shapes.push((0..k).collect());
        shapes.push((n - k..n).collect());
        let all: Vec<u32> = (0..n).collect();
        shapes.push(pick_subset(rng, &all, k as usize));
    }
    let mut out = vec![];
    for (k, g) in shapes.into_iter().enumerate() {
        // everything and the 90 % shapes under all four flag sets, the smaller ones under two (alternating)
        let fl: &[u16] = if k < 4 {
            &[0u16, F_NO_HINTING, F_RETAIN_GIDS, F_NO_HINTING | F_RETAIN_GIDS | F_NOTDEF_OUTLINE]
        } else if k % 2 == 0 {
            &[0u16, F_NO_HINTING | F_RETAIN_GIDS | F_NOTDEF_OUTLINE]
        } else {
            &[F_NO_HINTING, F_RETAIN_GIDS]
        };
        for flags in fl {
            out.push(Req { gids: g.clone(), unis: vec![], flags: *flags, label: if k == 0 { "large-subset-everything" } else { "large-subset" } });
        }
    }
    out
}

// ------------------------------------------------------------------------------------------------
// shard writer (same shape as vh::CaseWriter, plus per-shard font definitions so that the abstract font
// is written once per shard and not once per case)
// ------------------------------------------------------------------------------------------------
struct Shards {
    dir: PathBuf,
    fonts: Vec<(String, String, usize)>, // coq ident, definition term, weight
    cases: Vec<(usize, String, usize)>,  // font index, term, weight
}
impl Shards {
    fn new(dir: &Path) -> Self {
        std::fs::create_dir_all(dir).unwrap();
        if let Ok(rd) = std::fs::read_dir(dir) {
            for e in rd.flatten() {
                if e.file_name().to_string_lossy().starts_with("cases_") {
                    let _ = std::fs::remove_file(e.path());
                }
            }
        }
        Shards { dir: dir.to_path_buf(), fonts: vec![], cases: vec![] }
    }
    fn add_font(&mut self, af: &AFont) -> usize {
        let id = format!("font_{}", self.fonts.len());
        // the font term, followed by the HVAR / VVAR index maps as separate definitions <id>_HVAR / <id>_VVAR
        let mut def = coq_font(af);
        let mut w = af.n + af.cmap.len() / 4 + 1;
        for (tag, mv) in [("HVAR", &af.hvar), ("VVAR", &af.vvar)] {
            if let Some(mv) = mv {
                write!(def, ".\nDefinition {}_{} : mvar := {}", id, tag, coq_mvar(mv, af.n)).unwrap();
                w += af.n * mv.maps.iter().filter(|m| m.is_some()).count() / 2;
            }
        }
        if let Some(g) = &af.gvar {
            write!(def, ".\nDefinition {}_GVAR : list Z := {}", id, czlist((0..af.n as u32).map(|x| g.data(x).len() as i128))).unwrap();
            w += af.n / 4;
        }
        write!(def, ".\nDefinition {}_GLEN : list (Z * Z) := {}", id, coq_pairs(&af.glens)).unwrap();
        w += af.n / 4;
        self.fonts.push((id, def, w));
        self.fonts.len() - 1
    }
    fn push(&mut self, font: usize, req: &Req, obs: String, weight: usize) {
        let t = format!("({}, ({}, {}, {}), {})", self.fonts[font].0, czlist(req.gids.iter().map(|v| *v as i128)), czlist(req.unis.iter().map(|v| *v as i128)), req.flags, obs);
        self.cases.push((font, t, weight));
    }
    fn finish(&self, budget: usize) -> usize {
        let mut k = 0;
        let mut i = 0;
        while i < self.cases.len() {
            let mut w = 0usize;
            let mut used: Vec<usize> = vec![];
            let mut j = i;
            while j < self.cases.len() {
                let (f, _, cw) = &self.cases[j];
                let fw = if used.contains(f) { 0 } else { self.fonts[*f].2 };
                if j > i && w + cw + fw > budget {
                    break;
                }
                if !used.contains(f) {
                    used.push(*f);
                }
                w += cw + fw;
                j += 1;
            }
            let mut s = String::new();
            writeln!(s, "From Coq Require Import ZArith List. Import ListNotations. Open Scope Z_scope.\nFrom FV Require Import Lib.Cases C17.Model.").unwrap();
            for f in &used {
                writeln!(s, "Definition {} : afont := {}.", self.fonts[*f].0, self.fonts[*f].1).unwrap();
            }
            writeln!(s, "Definition cases : list (afont * (list Z * list Z * Z) * observed) := [").unwrap();
            for (x, c) in self.cases[i..j].iter().enumerate() {
                writeln!(s, "  {}{}", c.1, if x + 1 < j - i { ";" } else { "" }).unwrap();
            }
            writeln!(s, "].").unwrap();
            writeln!(s, "Eval vm_compute in (FV.Lib.Cases.bad_indices (check_case) cases).").unwrap();
            std::fs::File::create(self.dir.join(format!("cases_{}.v", k))).unwrap().write_all(s.as_bytes()).unwrap();
            k += 1;
            i = j;
        }
        k
    }
}

// ------------------------------------------------------------------------------------------------
fn corpus() -> Vec<(String, Vec<u8>)> {
    let mut v = vec![];
    for d in ["/repo/font-test-data/test_data/ttf", "/repo/klippa/test-data/fonts"] {
        let mut names: Vec<PathBuf> = std::fs::read_dir(d).map(|rd| rd.flatten().map(|e| e.path()).collect()).unwrap_or_default();
        names.sort();
        for p in names {
            let Ok(b) = std::fs::read(&p) else { continue };
            let Ok(f) = FontRef::new(&b) else { continue };
            if f.glyf().is_ok() && f.loca(None).is_ok() && f.cmap().is_ok() && f.maxp().is_ok() {
                v.push((p.file_name().unwrap().to_string_lossy().to_string(), b));
            }
        }
    }
    v
}


fn debug_font(name: &str) {
    for (n, bytes) in corpus() {
        if n != name { continue; }
        let font = FontRef::new(&bytes).unwrap();
        let af = abstract_font(&font);
        println!("n={} long={} lsbs={} cmap={} cmap_ok={} colr={}", af.n, af.long.len(), af.lsbs.len(), af.cmap.len(), af.cmap_ok, af.colr.is_some());
        if let Ok(cm) = font.cmap() {
            for rec in cm.encoding_records() {
                println!("  rec platform={:?} enc={} format={:?}", rec.platform_id(), rec.encoding_id(), rec.subtable(cm.offset_data()).map(|s| s.format()));
            }
        }
        let envlist = |k: &str| -> Option<Vec<u32>> { std::env::var(k).ok().map(|s| s.split(',').filter(|x| !x.is_empty()).map(|x| x.parse().unwrap()).collect()) };
        let req = Req { gids: envlist("C17_GIDS").unwrap_or((0..af.n as u32).collect()), unis: envlist("C17_UNIS").unwrap_or(af.cmap.iter().map(|p| p.0).collect()), flags: std::env::var("C17_FLAGS").ok().and_then(|s| s.parse().ok()).unwrap_or(0), label: "everything" };
        let res = run_subset(&bytes, &req);
        match &res {
            Ok(b) => {
                let o = observe(b).unwrap();
                println!("subset n={} cmap={}", o.num_glyphs, o.cmap.len());
                let sf = FontRef::new(b).unwrap();
                println!("  orig tables: {:?}", font.table_directory.table_records().iter().map(|r| format!("{}:{}", r.tag(), r.length())).collect::<Vec<_>>());
                println!("  sub tables: {:?}", sf.table_directory.table_records().iter().map(|r| format!("{}:{}", r.tag(), r.length())).collect::<Vec<_>>());
                println!("  spec closure: {:?}", spec_closure(&af, &req));
                println!("  sub glyphs: {:?}", o.glyphs.as_ref().map(|g| g.iter().take(30).collect::<Vec<_>>()));
                if std::env::var("C17_CHAIN").is_ok() {
                    let spec: Vec<u32> = spec_closure(&af, &req).into_iter().collect();
                    let retain = req.flags & F_RETAIN_GIDS != 0;
                    let req2 = Req { gids: req.gids.iter().filter(|g| spec.contains(g)).map(|g| if retain { *g } else { spec.binary_search(g).unwrap() as u32 }).collect(), unis: req.unis.clone(), flags: req.flags, label: "again" };
                    println!("  req2 {:?}", req2);
                    match run_subset(b, &req2) {
                        Ok(b2) => { let o2 = observe(&b2).unwrap(); println!("  second: n={} glyphs {:?}", o2.num_glyphs, o2.glyphs.as_ref().map(|g| g.iter().take(30).collect::<Vec<_>>()));
                            let s2 = FontRef::new(&b2).unwrap();
                            println!("  sub2 tables: {:?}", s2.table_directory.table_records().iter().map(|r| format!("{}:{}", r.tag(), r.length())).collect::<Vec<_>>()); }
                        Err(e) => println!("  second failed: {e}"),
                    }
                }
                std::fs::create_dir_all("/verif/.cache/C17/dbg").unwrap();
                std::fs::write(format!("/verif/.cache/C17/dbg/{}.subset.ttf", name), b).unwrap();
                if let Ok(cm) = sf.cmap() {
                    for rec in cm.encoding_records() {
                        println!("  sub rec platform={:?} enc={} format={:?}", rec.platform_id(), rec.encoding_id(), rec.subtable(cm.offset_data()).map(|s| s.format()));
                    }
                }
                let mut k = 0;
                for (a, b) in af.cmap.iter().zip(o.cmap.iter()) {
                    if a != b && k < 10 { println!("  cmap diff orig {:?} subset {:?} orig.map={:?} sub.map={:?}", a, b, font.charmap().map(a.0), sf.charmap().map(a.0)); k += 1; }
                }
                if let Some(g) = &o.glyphs { for (i, (x, y)) in af.glyphs.iter().zip(g.iter()).enumerate() { if x != y && k < 20 { println!("  glyph {} orig {:?} subset {:?}", i, x, y); k += 1; } } }
            }
            Err(e) => println!("failed: {e}"),
        }
    }
}

fn main() {
    let args: Vec<String> = std::env::args().collect();
    if let Ok(f) = std::env::var("C17_DEBUG") {
        debug_font(&f);
        return;
    }
    install_panic_hook();
    let thorough = tier_is_thorough(&args);
    let dir = out_dir(&args, "C17");
    let mut rng = Rng::new(seed_from_env());
    let mut st = Stats::new();
    let mut sh = Shards::new(&dir);
    let t0 = std::time::Instant::now();

    let mut run_font = |name: &str, bytes: &[u8], nreq: usize, model_cases: usize, st: &mut Stats, sh: &mut Shards, rng: &mut Rng| {
        let Ok(font) = FontRef::new(bytes) else { return };
        let af = abstract_font(&font);
        let inflated = name.starts_with("infl-");
        let mut reqs = if inflated { vec![] } else { requests(&af, rng, nreq) };
        let n_plain = reqs.len();
        if af.gvar.is_some() && !name.starts_with("syn") {
            reqs.extend(large_requests(&af, rng));
        }
        if !name.starts_with("syn") && !inflated {
            let k = if thorough { 24 } else { 6 };
            reqs.extend(block_requests(&af, rng, k, k));
            reqs.extend(metrics_var_requests(&af, rng, if thorough { 160 } else { 40 }));
        }
        let model_font_ok = af.n <= 1500 && af.cmap.len() <= 4000 && af.cmap.windows(2).all(|w| w[0].0 < w[1].0);
        if !model_font_ok {
            st.count("model.skipped_font_too_large");
        }
        let fi = if model_font_ok { sh.add_font(&af) } else { 0 };
        let kind = if font.colr().is_ok() {
            "colour"
        } else if font.fvar().is_ok() {
            "variable"
        } else {
            "static"
        };
        st.count(&format!("fonts.{}", if name.starts_with("syn") { "synthetic" } else if inflated { "inflated_gvar" } else { kind }));
        let cx = OracleCtx { name, af: &af, orig: bytes };
        for (i, req) in reqs.iter().enumerate() {
            let res = run_subset(bytes, req);
            st.evaluations += 1;
            st.count(&format!("request.{}", req.label));
            if req.flags & F_RETAIN_GIDS != 0 {
                st.count("flag.retain_gids");
            }
            if req.flags & F_NO_HINTING != 0 {
                st.count("flag.no_hinting");
            }
            if req.flags & F_NOTDEF_OUTLINE != 0 {
                st.count("flag.notdef_outline");
            }
            if req.flags & F_SET_OVERLAPS != 0 {
                st.count("flag.set_overlaps");
            }
            match &res {
                Ok(_) => st.count("impl.ok"),
                Err(e) if e.starts_with("panic") => st.count("impl.panic"),
                Err(_) => st.count("impl.err"),
            }
            let obs = res.as_ref().ok().and_then(|b| observe(b));
            if let Some(o) = &obs {
                if o.num_glyphs > 1 && o.num_glyphs < af.n {
                    st.nontrivial(&req_key(name, req));
                }
                if let Some((k, _)) = &o.hmtx {
                    if *k < o.num_glyphs {
                        st.count("branch.hmtx_trimmed");
                    } else {
                        st.count("branch.hmtx_untrimmed");
                    }
                }
                if req.gids.is_empty() && (req.unis.len() as u64) < af.n as u64 {
                    st.count("branch.unicodes_direct");
                } else {
                    st.count("branch.unicodes_via_cmap_scan");
                }
            }
            // the loca writer defects (known classes) fire only above 64 KiB of kept glyph data: panic in the short
            // format, garbage in the long one - those outputs are outside the model; everything else is compared
            let raw_big = kept_raw_glyf_bytes(&font, &spec_closure(&af, req)) >= 65536;
            let loca_defect = raw_big
                && match &res {
                    Err(e) => e.contains("attempt to add with overflow"),
                    Ok(b) => FontRef::new(b).ok().and_then(|f| f.head().ok().map(|h| h.index_to_loc_format() == 1)).unwrap_or(true),
                };
            let small = !loca_defect;
            if (i < model_cases || i >= n_plain) && model_font_ok && !small {
                st.count("model.skipped_glyf_over_64k");
            }
            // whole-font errors raised by subsetters outside the model (COLR, cmap byte encoder, ...) cannot be
            // predicted by it: left to the oracle (known classes C17:colr-subset-fails / C17:cmap-subset-fails)
            let unmodelled_err = matches!(&res, Err(e) if e.starts_with("err: Subsetting table") && !["'hmtx'", "'maxp'", "'glyf'", "'loca'", "'head'", "'hhea'"].iter().any(|t| e.contains(t)));
            if unmodelled_err {
                st.count("model.skipped_unmodelled_table_error");
            }
            let big_font_partial = af.n > 300 && req.label == "large-subset";
            if (i < model_cases || i >= n_plain) && model_font_ok && small && !unmodelled_err && !big_font_partial {
                let w = obs.as_ref().map(|o| o.num_glyphs + o.cmap.len() / 4).unwrap_or(1) + req.gids.len() / 4 + req.unis.len() / 4 + 4;
                let mv = res.as_ref().map(|b| coq_obs_mvars(&format!("font_{}", fi), &af, b)).unwrap_or("[]".into());
                let gv = res.as_ref().map(|b| coq_obs_gvar(&format!("font_{}", fi), &af, b)).unwrap_or("None".into());
                let lc = res.as_ref().map(|b| coq_obs_loca(&format!("font_{}", fi), b)).unwrap_or("None".into());
                if let Ok(b) = &res {
                    if let Some(h) = FontRef::new(b).ok().and_then(|f| f.head().ok().map(|h| h.index_to_loc_format())) {
                        st.count(if h == 0 { "branch.loca_short" } else { "branch.loca_long" });
                    }
                }
                sh.push(fi, req, coq_obs(&res, &obs, af.f4_same, &mv, &gv, &lc), w);
            } else if (i < model_cases || i >= n_plain) && model_font_ok && !small && !unmodelled_err && !big_font_partial {
                // a known loca-writer defect fired (u16 offset overflow panic / long format with unpadded data): every
                // other observation is garbage, but the loca bytes themselves are still predicted by the model
                let t = match &res {
                    Ok(b) => {
                        st.count("branch.loca_long_defect_case");
                        let l = coq_obs_loca(&format!("font_{}", fi), b);
                        l.strip_prefix(&format!("(Some (font_{}_GLEN, ", fi)).and_then(|x| x.strip_suffix("))")).map(|x| format!("(Some {})", x))
                    }
                    Err(_) => {
                        st.count("branch.loca_short_u16_overflow_panic");
                        Some("None".to_string())
                    }
                };
                if let Some(t) = t {
                    sh.push(fi, req, format!("OLocaOnly font_{}_GLEN {}", fi, t), af.n / 2 + 4);
                }
            }
            st.sample(json!({"font": name, "request": req.label, "gids": req.gids.iter().take(8).collect::<Vec<_>>(), "unicodes": req.unis.iter().take(8).collect::<Vec<_>>(), "flags": req.flags,
                "subset_num_glyphs": obs.as_ref().map(|o| o.num_glyphs), "impl": format!("{:?}", res.as_ref().map(|b| b.len()))}));
            let chain = i % 3 == 0;
            oracle(&cx, req, &res, st, rng, chain, if af.n > 400 { 60 } else { 400 });
        }
    };

    // 1. repository corpus
    let fonts = corpus();
    if fonts.is_empty() {
        eprintln!("no corpus fonts found");
        std::process::exit(2);
    }
    for (name, bytes) in &fonts {
        let n = FontRef::new(bytes).map(|f| font_num_glyphs(&f)).unwrap_or(0);
        let (nreq, nmodel) = if n > 600 {
            (if thorough { 40 } else { 8 }, if thorough { 8 } else { 3 })
        } else if n > 150 {
            (if thorough { 120 } else { 30 }, if thorough { 30 } else { 10 })
        } else {
            (if thorough { 400 } else { 42 }, if thorough { 400 } else { 42 })
        };
        run_font(name, bytes, nreq, nmodel, &mut st, &mut sh, &mut rng);
    }
    let mut inflated_done = 0;
    // 1b. variable corpus fonts with their gvar inflated to the offset-format thresholds (large subsets only)
    for (name, bytes) in &fonts {
        let n = FontRef::new(bytes).map(|f| font_num_glyphs(&f)).unwrap_or(0);
        if n > 300 || (!thorough && (n > 64 || inflated_done >= 3)) {
            continue;
        }
        let variants = inflated_variants(name, bytes);
        if !variants.is_empty() {
            inflated_done += 1;
        }
        for (vname, vbytes) in variants {
            run_font(&vname, &vbytes, 0, 0, &mut st, &mut sh, &mut rng);
        }
    }
    let t_corpus = t0.elapsed().as_secs_f64();
    // 2. synthetic boundary fonts
    let nsyn = if thorough { 6000 } else { 700 };
    for k in 0..nsyn {
        let bad = k % 5 == 4;
        let s = syn_random(&mut rng, bad);
        let bytes = build_syn(&s);
        let name = format!("{}-{}", if bad { "syn-bad" } else { "syn" }, k);
        run_font(&name, &bytes, 6, 6, &mut st, &mut sh, &mut rng);
    }
    // 2b. repeated-flag family (regression family of finding 14, fixed by /repo 84fae1d): one simple glyph of n points
    // written with REPEAT_FLAG runs, every combination of x / y coordinate byte widths {0,1,2}, with and without
    // padding bytes inside the glyph's loca range and an extra glyph after it.  Oracle needs no key: no panic, the kept
    // glyph reads back with exactly the source's points, and (shard case) the loca predicted from the harness's own
    // trimmed length must be klippa's loca.
    for n in [1usize, 2, 63, 64, 65, 127, 128, 200, 255, 256, 257, 300] {
        for xw in 0..3u8 {
            for yw in 0..3u8 {
                for variant in 0..3u8 {
                    let raw = repeat_glyph(n, xw, yw, if variant == 0 { 0 } else { 1 + (n + xw as usize) % 3 });
                    let mut glyphs = vec![SG::Simple(0), SG::Raw(raw)];
                    let mut long = vec![(500, 0), (600, 10)];
                    if variant == 2 {
                        glyphs.push(SG::Simple(1));
                        long.push((700, 20));
                    }
                    let ng = glyphs.len() as u16;
                    let s = Syn { glyphs, long, lsbs: vec![], cmap: vec![(0x41, 1)], maxp_glyphs: ng };
                    let bytes = build_syn(&s);
                    let name = format!("syn-repeat-n{}-x{}-y{}-v{}", n, xw, yw, variant);
                    let Ok(font) = FontRef::new(&bytes) else { continue };
                    let af = abstract_font(&font);
                    let fi = sh.add_font(&af);
                    let cx = OracleCtx { name: &name, af: &af, orig: &bytes };
                    let flags = match (n + xw as usize + 2 * yw as usize) % 4 {
                        0 => F_RETAIN_GIDS,
                        1 => F_NO_HINTING,
                        _ => 0,
                    };
                    let req = Req { gids: if variant == 2 { vec![1, 2] } else { vec![1] }, unis: vec![], flags, label: "repeat-family" };
                    let res = run_subset(&bytes, &req);
                    st.evaluations += 1;
                    st.count("request.repeat-family");
                    st.count(&format!("repeat-family.n{}", n));
                    // points of the kept glyph, read through read-fonts on both sides (ids 0, 1 keep their ids here)
                    let pts = |f: &FontRef| -> Option<(Vec<u16>, Vec<(i16, i16, bool)>)> {
                        let (loca, glyf) = (f.loca(None).ok()?, f.glyf().ok()?);
                        match loca.get_glyf(GlyphId::new(1), &glyf).ok()?? {
                            Glyph::Simple(g) => Some((g.end_pts_of_contours().iter().map(|e| e.get()).collect(), g.points().map(|p| (p.x, p.y, p.on_curve)).collect())),
                            _ => None,
                        }
                    };
                    let src = pts(&font);
                    let ok = match &res {
                        Ok(b) => FontRef::new(b).ok().map(|f| pts(&f)) == Some(src.clone()) && src.as_ref().map(|p| p.1.len()) == Some(n),
                        Err(_) => false,
                    };
                    if !ok {
                        st.oracle_failure(json!({"key": format!("repeat-family:{}", name), "font": name, "flags": flags,
                            "what": "simple glyph written with repeated flags: subset panicked or the kept glyph does not read back with the source's points",
                            "detail": format!("{:?}", res.as_ref().map(|b| b.len()))}));
                    }
                    let obs = res.as_ref().ok().and_then(|b| observe(b));
                    let lc = res.as_ref().map(|b| coq_obs_loca(&format!("font_{}", fi), b)).unwrap_or("None".into());
                    sh.push(fi, &req, coq_obs(&res, &obs, af.f4_same, "[]", "None", &lc), af.n + 2);
                    if variant == 0 && xw == yw {
                        oracle(&cx, &req, &res, &mut st, &mut rng, false, 400);
                    }
                }
            }
        }
    }
    // 3. F-7 witnesses: deep chain and wide tree
    for (name, s) in [("syn-chain-40", syn_chain(40)), ("syn-chain-64", syn_chain(64)), ("syn-chain-65", syn_chain(65)), ("syn-chain-66", syn_chain(66)), ("syn-chain-70", syn_chain(70)), ("syn-wide-40", syn_wide(40)), ("syn-wide-130", syn_wide(130))] {
        let bytes = build_syn(&s);
        let Ok(font) = FontRef::new(&bytes) else { continue };
        let af = abstract_font(&font);
        let fi = sh.add_font(&af);
        let cx = OracleCtx { name, af: &af, orig: &bytes };
        for (gids, unis, flags, label) in [(vec![1u32], vec![], 0u16, "one-composite"), (vec![], vec![0x41u32], F_RETAIN_GIDS, "single-char"), (vec![1], vec![], F_NOTDEF_OUTLINE, "one-composite")] {
            let req = Req { gids, unis, flags, label };
            let res = run_subset(&bytes, &req);
            st.evaluations += 1;
            st.count("request.f7-witness");
            let obs = res.as_ref().ok().and_then(|b| observe(b));
            let lc = res.as_ref().map(|b| coq_obs_loca(&format!("font_{}", fi), b)).unwrap_or("None".into());
            sh.push(fi, &req, coq_obs(&res, &obs, af.f4_same, "[]", "None", &lc), af.n);
            oracle(&cx, &req, &res, &mut st, &mut rng, false, 400);
        }
    }
    let shards = sh.finish(if thorough { 9000 } else { 5000 });
    st.v.insert("shards".into(), shards.into());
    st.v.insert("model_cases".into(), sh.cases.len().into());
    st.v.insert("corpus_fonts".into(), fonts.len().into());
    st.v.insert("seconds_corpus".into(), t_corpus.into());
    st.write(&dir, "every glyf-flavoured font of font-test-data/test_data/ttf and klippa/test-data/fonts (static, variable, colour) x boundary requests (everything, empty, single char, all chars, composites only, ids only, highest gid, out-of-range gids, unmapped chars, UVS) x all 16 combinations of NO_HINTING/RETAIN_GIDS/SET_OVERLAPS/NOTDEF_OUTLINE + random flags, plus random synthetic fonts (1..12 glyphs, constant-advance tails, cycles, dangling components, short hmtx, cmap beyond numGlyphs) and deep/wide composite trees; non-trivial = subset keeps more than .notdef and fewer glyphs than the font (distinct by font+request+flags)");
    println!("fonts={} cases={} shards={} oracle_failures={} t={:.1}s", fonts.len(), sh.cases.len(), shards, st.oracle_failures.len(), t0.elapsed().as_secs_f64());
}
